//! C02 (E1 part): `split_at_newline` partitions the bytes
use crate::util::*;
use scrut::newline::verif_hooks::split_at_newline;

const N: usize = 6;

#[kani::proof]
#[kani::unwind(9)]
fn c02_split_at_newline_partitions() {
    let (buf, len) = any_bytes::<N>();
    let text = &buf[..len];
    let lines = split_at_newline(text);
    let mut pos = 0usize;
    let mut k = 0;
    while k < lines.len() {
        let l = lines[k];
        assert!(!l.is_empty(), "empty piece");
        // piece k is exactly text[pos..pos+len]
        assert!(pos + l.len() <= text.len());
        let mut i = 0;
        while i < l.len() {
            assert!(l[i] == text[pos + i], "piece bytes differ from the input");
            if i + 1 < l.len() {
                assert!(l[i] != b'\n', "inner newline inside a piece");
            }
            i += 1;
        }
        if k + 1 < lines.len() {
            assert!(l[l.len() - 1] == b'\n', "non-final piece lacks its newline");
        }
        pos += l.len();
        k += 1;
    }
    assert!(pos == text.len(), "pieces do not cover the input");
    kani::cover!(lines.len() == 3, "three lines reachable");
    kani::cover!(lines.len() >= 1 && lines[lines.len() - 1][lines[lines.len() - 1].len() - 1] != b'\n', "unterminated last line reachable");
}
