//! C06(a): the Markdown fence classifier `extract_code_block_start`
use crate::util::*;
use scrut::parsers::markdown::verif_hooks::extract_code_block_start;

const N: usize = 5;

fn leading_backticks(b: &[u8]) -> usize {
    let mut k = 0;
    while k < b.len() && b[k] == b'`' {
        k += 1;
    }
    k
}

/// total (no panic), and only a run of >= 3 backticks ever opens a fence
#[kani::proof]
#[kani::unwind(8)]
fn c06_fence_opener_needs_three_backticks() {
    let (buf, len) = any_bytes::<N>();
    let line = as_str(&buf, len);
    let r = extract_code_block_start(line);
    if let Some((ticks, _lang, _cfg)) = r {
        let t = ticks.as_bytes();
        assert!(t.len() >= 3, "fence opener shorter than three backticks");
        assert!(leading_backticks(t) == t.len(), "fence opener contains a non-backtick");
        kani::cover!(t.len() == 3, "three-backtick opener reachable");
        kani::cover!(t.len() == 4, "four-backtick opener reachable");
    }
    kani::cover!(r.is_none(), "non-fence line reachable");
}

/// the three pieces are slices of the line in order; config is empty or starts with '{'
#[kani::proof]
#[kani::unwind(8)]
fn c06_fence_pieces_reassemble() {
    let (buf, len) = any_bytes::<N>();
    let line = as_str(&buf, len);
    if let Some((ticks, lang, cfg)) = extract_code_block_start(line) {
        let (lb, tb, gb, cb) = (line.as_bytes(), ticks.as_bytes(), lang.as_bytes(), cfg.as_bytes());
        assert!(tb.len() + gb.len() + cb.len() <= lb.len());
        // ticks is the prefix; config starts at the first `{` after it and runs to the end of the line up to trailing blanks
        let mut i = 0;
        while i < tb.len() {
            assert!(lb[i] == tb[i]);
            i += 1;
        }
        let mut off = tb.len();
        while off < lb.len() && lb[off] != b'{' {
            off += 1;
        }
        assert!(cb.is_empty() || off + cb.len() <= lb.len());
        let mut i = 0;
        while i < cb.len() {
            assert!(lb[off + i] == cb[i]);
            i += 1;
        }
        assert!(cb.is_empty() || cb[0] == b'{');
        // language is what lies between, right-trimmed
        let mut i = 0;
        while i < gb.len() {
            assert!(lb[tb.len() + i] == gb[i]);
            i += 1;
        }
        kani::cover!(!cb.is_empty(), "config piece reachable");
        kani::cover!(!gb.is_empty(), "language piece reachable");
    }
}

/// every line that starts with >= 3 backticks and has no further backtick is an opener
#[kani::proof]
#[kani::unwind(8)]
fn c06_fence_three_backticks_open() {
    let (buf, len) = any_bytes::<N>();
    let line = as_str(&buf, len);
    let b = line.as_bytes();
    let k = leading_backticks(b);
    let mut later_tick = false;
    let mut i = k;
    while i < b.len() {
        if b[i] == b'`' {
            later_tick = true;
        }
        i += 1;
    }
    if k >= 3 && !later_tick {
        let r = extract_code_block_start(line);
        assert!(r.is_some(), "a line of >= 3 backticks (plus info string) does not open a fence");
        kani::cover!(k == b.len(), "bare fence reachable");
        kani::cover!(k < b.len(), "fence with info string reachable");
    }
}
