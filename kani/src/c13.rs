//! C13(a): `replace_crlf` == reference scan
use crate::util::*;
use scrut::newline::replace_crlf;

fn check<const N: usize>(text: &[u8]) {
    let got = replace_crlf(text);
    let got: &[u8] = &got;
    // reference: drop every CR that is directly followed by LF
    let mut j = 0;
    let mut i = 0;
    while i < text.len() {
        if text[i] == b'\r' && i + 1 < text.len() && text[i + 1] == b'\n' {
            i += 1;
            continue;
        }
        assert!(j < got.len(), "result shorter than reference");
        assert!(got[j] == text[i], "byte differs from reference");
        j += 1;
        i += 1;
    }
    assert!(j == got.len(), "result longer than reference");
}

#[kani::proof]
#[kani::unwind(5)]
fn c13_replace_crlf_fixed3() {
    let buf: [u8; 3] = kani::any();
    check::<3>(&buf);
}

#[kani::proof]
#[kani::unwind(6)]
fn c13_replace_crlf_fixed4() {
    let buf: [u8; 4] = kani::any();
    check::<4>(&buf);
}

#[kani::proof]
#[kani::unwind(5)]
fn c13_replace_crlf_sym3() {
    let (buf, len) = any_bytes::<3>();
    check::<3>(&buf[..len]);
}
