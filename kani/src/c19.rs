//! C19 (E1 part): the trailing-whitespace split index of the pretty renderer
use crate::util::*;
use scrut::renderers::pretty::verif_hooks::space_start_index;

const N: usize = 5;

#[kani::proof]
#[kani::unwind(8)]
fn c19_space_start_index_is_char_boundary() {
    let (buf, len) = any_bytes::<N>();
    let text = as_str(&buf, len);
    let i = space_start_index(text);
    assert!(i <= text.len(), "index past the end");
    assert!(text.is_char_boundary(i), "index splits a multi-byte character (slicing panics)");
    kani::cover!(i < text.len() && i > 0, "proper split reachable");
    kani::cover!(len == N && buf[N - 1] >= 0x80, "multi-byte tail reachable");
}
