//! E1 — Kani proof harnesses over the real scrut crate (path dependency on /repo, hooks on).
//! One `#[kani::proof]` per sub-claim; every harness carries `kani::cover!` reachability witnesses.
#![allow(dead_code)]

#[cfg(kani)]
mod util;

#[cfg(kani)]
mod c02;
#[cfg(kani)]
mod c06;
#[cfg(kani)]
mod c13;
#[cfg(kani)]
mod c19;
