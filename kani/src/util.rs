//! helpers shared by the harnesses

/// symbolic byte string of length <= N: (buffer, len)
pub fn any_bytes<const N: usize>() -> ([u8; N], usize) {
    let buf: [u8; N] = kani::any();
    let len: usize = kani::any();
    kani::assume(len <= N);
    (buf, len)
}

/// hand-rolled UTF-8 validity (cheaper for CBMC than core::str::from_utf8's word-at-a-time scan);
/// accepts exactly the well-formed sequences of Unicode table 3-7
pub fn is_utf8(b: &[u8]) -> bool {
    let mut i = 0;
    while i < b.len() {
        let c = b[i];
        if c < 0x80 {
            i += 1;
        } else if (0xC2..=0xDF).contains(&c) {
            if i + 1 >= b.len() || b[i + 1] & 0xC0 != 0x80 {
                return false;
            }
            i += 2;
        } else if (0xE0..=0xEF).contains(&c) {
            if i + 2 >= b.len() {
                return false;
            }
            let (d, e) = (b[i + 1], b[i + 2]);
            let ok = match c {
                0xE0 => (0xA0..=0xBF).contains(&d),
                0xED => (0x80..=0x9F).contains(&d),
                _ => d & 0xC0 == 0x80,
            };
            if !ok || e & 0xC0 != 0x80 {
                return false;
            }
            i += 3;
        } else if (0xF0..=0xF4).contains(&c) {
            if i + 3 >= b.len() {
                return false;
            }
            let (d, e, f) = (b[i + 1], b[i + 2], b[i + 3]);
            let ok = match c {
                0xF0 => (0x90..=0xBF).contains(&d),
                0xF4 => (0x80..=0x8F).contains(&d),
                _ => d & 0xC0 == 0x80,
            };
            if !ok || e & 0xC0 != 0x80 || f & 0xC0 != 0x80 {
                return false;
            }
            i += 4;
        } else {
            return false;
        }
    }
    true
}

/// a symbolic valid-UTF-8 `&str` of at most N bytes borrowed from `buf`
pub fn as_str(buf: &[u8], len: usize) -> &str {
    let s = &buf[..len];
    kani::assume(is_utf8(s));
    // SAFETY: validity was just assumed by the exact well-formedness predicate above
    unsafe { core::str::from_utf8_unchecked(s) }
}
