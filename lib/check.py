"""entry point: bin/check <ID> [--tier quick|thorough] [--replay path]"""
import argparse
import importlib
import os
import sys

ENGINES = {
    "C01": ("e3", "run"), "C02": ("e3", "run"), "C03": ("e3", "run"),
    "C19": ("props.c19", "run"),
    "C06": ("props.c06", "run"),
    "C04": ("props.c04", "run"),
    "C05": ("props.c05", "run"),
    "C16": ("props.c16", "run"),
    "C10": ("props.c10", "run"),
    "C07": ("props.c07", "run"),
    "C17": ("props.c17", "run"),
    "C09": ("props.c09", "run"),
    "C08": ("props.c08", "run"),
    "C13": ("props.c13", "run"),
    "C11": ("props.c11", "run"),
    "C20": ("props.c20", "run"),
    "C18": ("props.c18", "run"),
    "C14": ("props.exec_claims", "run"),
    "C15": ("props.exec_claims", "run"),
}


def main():
    ap = argparse.ArgumentParser()
    ap.add_argument("pid")
    ap.add_argument("--tier", default=os.environ.get("VERIF_TIER", "quick"), choices=["quick", "thorough"])
    ap.add_argument("--replay")
    a = ap.parse_args()
    if a.pid not in ENGINES:
        print("no check for %s" % a.pid, file=sys.stderr)
        return 64
    mod, fn = ENGINES[a.pid]
    m = importlib.import_module(mod)
    if a.replay:
        return m.replay(a.pid, a.replay)
    return getattr(m, fn)(a.pid, a.tier)


if __name__ == "__main__":
    sys.exit(main())
