"""Shared plumbing for the solver-based checks: builds, solver processes, evidence, findings."""
import hashlib
import json
import os
import subprocess
import sys
import time

VERIF = os.path.dirname(os.path.dirname(os.path.abspath(__file__)))
REPO = os.environ.get("VERIF_REPO", "/repo")
CACHE = os.path.join(VERIF, ".cache")
EVIDENCE = os.path.join(VERIF, "evidence")
REPLAYS = os.path.join(EVIDENCE, "replays")
NATIVE_TARGET = os.path.join(CACHE, "native-target")
NATIVE_BIN = os.path.join(NATIVE_TARGET, "debug", "verif-native")
GUARD = "scrut_verif"

Z3_OLD = "/usr/bin/z3"
Z3_NEW = "z3-new"
CVC5 = "/usr/bin/cvc5"


def log(*a):
    print(*a, file=sys.stderr, flush=True)


def env_offline(extra=None):
    e = dict(os.environ)
    e["CARGO_NET_OFFLINE"] = "true"
    e.setdefault("CARGO_TERM_COLOR", "never")
    if extra:
        e.update(extra)
    return e


def seed():
    try:
        return int(os.environ.get("VERIF_SEED", "0"))
    except ValueError:
        return 0


def repo_tree_hash(paths=("src", "Cargo.toml")):
    """hash of the working-tree content of the given paths (not of HEAD)"""
    h = hashlib.sha256()
    for p in paths:
        full = os.path.join(REPO, p)
        if os.path.isdir(full):
            for root, dirs, files in sorted(os.walk(full)):
                dirs.sort()
                for f in sorted(files):
                    fp = os.path.join(root, f)
                    h.update(fp.encode())
                    with open(fp, "rb") as fh:
                        h.update(fh.read())
        elif os.path.exists(full):
            with open(full, "rb") as fh:
                h.update(fh.read())
    return h.hexdigest()[:16]


def file_hash(path):
    with open(path, "rb") as fh:
        return hashlib.sha256(fh.read()).hexdigest()[:16]


class scratch_manifest:
    """development aid (VERIF_REPO=<scratch worktree>): the harness crates name /repo as a path dependency; point them at the
    scratch tree for the duration of one build and restore the manifest afterwards.  A no-op for /repo."""

    def __init__(self, crate_dir):
        self.path = os.path.join(crate_dir, "Cargo.toml")
        self.orig = None

    def __enter__(self):
        if REPO != "/repo":
            self.orig = open(self.path).read()
            with open(self.path, "w") as fh:
                fh.write(self.orig.replace('path = "/repo"', 'path = "%s"' % REPO))
        return self

    def __exit__(self, *exc):
        if self.orig is not None:
            with open(self.path, "w") as fh:
                fh.write(self.orig)
        return False


def build_native():
    """(re)build verif-native against /repo's current working tree, hooks on"""
    with scratch_manifest(os.path.join(VERIF, "native")):
        return _build_native()


def _build_native():
    os.makedirs(CACHE, exist_ok=True)
    nat = os.path.join(VERIF, "native")
    lock_src = os.path.join(REPO, "Cargo.lock")
    subprocess.run(["cp", lock_src, os.path.join(nat, "Cargo.lock")], check=True)
    t0 = time.time()
    r = subprocess.run(
        ["cargo", "build", "--offline", "--quiet"],
        cwd=nat,
        env=env_offline({"CARGO_TARGET_DIR": NATIVE_TARGET,
                         "RUSTFLAGS": "--cfg %s -A warnings" % GUARD}),
        stdout=subprocess.PIPE, stderr=subprocess.STDOUT, text=True)
    if r.returncode != 0:
        log(r.stdout[-4000:])
        raise BuildError("native build failed (does /repo compile with --cfg %s?)" % GUARD)
    return time.time() - t0


SCRUT_TARGET = os.path.join(CACHE, "scrut-target")
SCRUT_BIN = os.path.join(SCRUT_TARGET, "debug", "scrut")


def build_scrut_bin():
    """(re)build the real `scrut` binary from /repo's current working tree (default features, no hooks)"""
    os.makedirs(CACHE, exist_ok=True)
    t0 = time.time()
    r = subprocess.run(["cargo", "build", "--offline", "--quiet", "--bin", "scrut"], cwd=REPO,
                       env=env_offline({"CARGO_TARGET_DIR": SCRUT_TARGET, "RUSTFLAGS": "-A warnings"}),
                       stdout=subprocess.PIPE, stderr=subprocess.STDOUT, text=True)
    if r.returncode != 0:
        log(r.stdout[-4000:])
        raise BuildError("build of the scrut binary failed")
    return time.time() - t0


class BuildError(Exception):
    pass


def native(args, stdin=None, timeout=600):
    r = subprocess.run([NATIVE_BIN] + list(args), input=stdin, stdout=subprocess.PIPE,
                       stderr=subprocess.PIPE, text=True, timeout=timeout)
    return r.returncode, r.stdout, r.stderr


def native_json(sub, obj, timeout=120):
    """run a replay subcommand with a JSON witness on stdin; returns parsed JSON or dict(error=..)"""
    r = subprocess.run([NATIVE_BIN, sub, "-"], input=json.dumps(obj), stdout=subprocess.PIPE,
                       stderr=subprocess.PIPE, text=True, timeout=timeout)
    if r.returncode != 0:
        return {"error": "exit %d" % r.returncode, "stderr": r.stderr[-2000:]}
    try:
        return json.loads(r.stdout.strip().splitlines()[-1])
    except Exception as e:  # noqa
        return {"error": "bad output: %s" % e, "stdout": r.stdout[-2000:]}


# ---------------------------------------------------------------------------------------------
# solver processes


class Solver:
    """a long-lived SMT-LIB2 solver process (push/pop batching)"""

    def __init__(self, which="z3", logic="ALL", timeout_ms=None, opts=()):
        self.which = which
        if which == "z3":
            cmd = [Z3_NEW, "-in", "-smt2"]
        elif which == "z3old":
            cmd = [Z3_OLD, "-in", "-smt2"]
        elif which == "cvc5":
            cmd = [CVC5, "--lang", "smt2", "--incremental", "--produce-models"] + list(opts)
            if timeout_ms:
                cmd.append("--tlimit-per=%d" % timeout_ms)
        else:
            raise ValueError(which)
        self.p = subprocess.Popen(cmd, stdin=subprocess.PIPE, stdout=subprocess.PIPE,
                                  stderr=subprocess.STDOUT, text=True, bufsize=1 << 20)
        self.time = 0.0
        self.queries = 0
        if which != "cvc5":
            self.send("(set-option :produce-models true)")
            if timeout_ms:
                self.send("(set-option :timeout %d)" % timeout_ms)
        self.send("(set-logic %s)" % logic)

    def send(self, text):
        self.p.stdin.write(text)
        self.p.stdin.write("\n")

    def _read_sexpr_line(self):
        line = self.p.stdout.readline()
        if not line:
            raise SolverError("%s died" % self.which)
        return line.strip()

    def check(self):
        """(check-sat) → 'sat' | 'unsat' | 'unknown'; any (error line → SolverError"""
        t0 = time.time()
        self.send("(check-sat)")
        self.p.stdin.flush()
        while True:
            line = self._read_sexpr_line()
            if line in ("sat", "unsat", "unknown"):
                break
            if line.startswith("(error") or "error" in line.lower():
                raise SolverError("%s: %s" % (self.which, line))
            # ignore other chatter (warnings)
        self.time += time.time() - t0
        self.queries += 1
        return line

    def get_values(self, names):
        """values of Bool/Int/BV/String constants as raw SMT-LIB text"""
        out = {}
        for chunk_start in range(0, len(names), 200):
            chunk = names[chunk_start:chunk_start + 200]
            self.send("(get-value (%s))" % " ".join(chunk))
            self.p.stdin.flush()
            text = ""
            depth = 0
            started = False
            while True:
                line = self.p.stdout.readline()
                if not line:
                    raise SolverError("%s died" % self.which)
                if "(error" in line:
                    raise SolverError(line)
                text += line
                in_str = False
                for ch in line:
                    if ch == '"':
                        in_str = not in_str
                    if in_str:
                        continue
                    if ch == "(":
                        depth += 1
                        started = True
                    elif ch == ")":
                        depth -= 1
                if started and depth == 0:
                    break
            out.update(parse_get_value(text))
        return out

    def close(self):
        try:
            self.send("(exit)")
            self.p.stdin.flush()
        except Exception:
            pass
        try:
            self.p.wait(timeout=5)
        except Exception:
            self.p.kill()


class SolverError(Exception):
    pass


def tokenize_sexpr(text):
    toks = []
    i = 0
    n = len(text)
    while i < n:
        c = text[i]
        if c in " \t\r\n":
            i += 1
        elif c in "()":
            toks.append(c)
            i += 1
        elif c == '"':
            j = i + 1
            buf = ""
            while j < n:
                if text[j] == '"':
                    if j + 1 < n and text[j + 1] == '"':
                        buf += '"'
                        j += 2
                        continue
                    break
                buf += text[j]
                j += 1
            toks.append(("str", buf))
            i = j + 1
        elif c == "|":
            j = text.index("|", i + 1)
            toks.append(text[i:j + 1])
            i = j + 1
        else:
            j = i
            while j < n and text[j] not in " \t\r\n()":
                j += 1
            toks.append(text[i:j])
            i = j
    return toks


def parse_sexpr(text):
    toks = tokenize_sexpr(text)
    pos = 0

    def rd():
        nonlocal pos
        t = toks[pos]
        pos += 1
        if t == "(":
            lst = []
            while toks[pos] != ")":
                lst.append(rd())
            pos += 1
            return lst
        return t
    return rd()


def parse_get_value(text):
    sx = parse_sexpr(text)
    out = {}
    for pair in sx:
        name, val = pair[0], pair[1]
        out[name] = val
    return out


def smt_unescape_string(s):
    """SMT-LIB 2.6 string literal content → python str (\\u{..} escapes)"""
    import re

    def rep(mo):
        return chr(int(mo.group(1), 16))
    s = re.sub(r"\\u\{([0-9a-fA-F]+)\}", rep, s)
    s = re.sub(r"\\u([0-9a-fA-F]{4})", rep, s)
    s = re.sub(r"\\x([0-9a-fA-F]{2})", rep, s)  # old z3
    return s


def smt_string_literal(s):
    out = '"'
    for ch in s:
        o = ord(ch)
        if ch == '"':
            out += '""'
        elif 0x20 <= o <= 0x7e and ch != "\\":
            out += ch
        else:
            out += "\\u{%x}" % o
    return out + '"'


# ---------------------------------------------------------------------------------------------
# findings / evidence


def load_known_findings():
    p = os.path.join(VERIF, "known_findings.json")
    if not os.path.exists(p):
        return {"known": [], "fixed": []}
    with open(p) as fh:
        return json.load(fh)


class Report:
    """collects the outcome of one check run and turns it into exit status + evidence"""

    def __init__(self, pid, tier, level):
        self.pid = pid
        self.tier = tier
        self.level = level
        self.t0 = time.time()
        self.violations = []     # dict(signature, what, witness)
        self.known_hits = []
        self.undecided = []      # strings
        self.mismatches = []     # encoding mismatches (exit 2)
        self.coverage = {}
        self.assumptions = []
        self.subclaims = []      # dict(name, engine, bound, result, queries, solver_s, ...)

    def subclaim(self, **kw):
        self.subclaims.append(kw)

    def violation(self, signature, what, witness):
        """a witness that reproduced natively; signature = structural role of the failure"""
        kf = load_known_findings()
        for k in kf.get("known", []):
            if k["property"] == self.pid and k["signature"] == signature:
                if not any(h["signature"] == signature for h in self.known_hits):
                    self.known_hits.append({"signature": signature, "what": k.get("what", what),
                                            "witness": witness})
                return "known"
        if any(v["signature"] == signature for v in self.violations):
            return "dup"
        self.violations.append({"signature": signature, "what": what, "witness": witness})
        return "new"

    def finish(self):
        os.makedirs(REPLAYS, exist_ok=True)
        wall = time.time() - self.t0
        lines = []
        for h in self.known_hits:
            lines.append("KNOWN-FINDING: property=%s %s [%s]" % (self.pid, h["what"], h["signature"]))
        replay_paths = []
        for v in self.violations:
            blob = json.dumps(v, sort_keys=True)
            name = "%s-%s.json" % (self.pid, hashlib.sha256(blob.encode()).hexdigest()[:12])
            path = os.path.join(REPLAYS, name)
            with open(path, "w") as fh:
                json.dump({"property": self.pid, **v}, fh, indent=1, sort_keys=True)
            replay_paths.append(path)
            lines.append("VIOLATION property=%s replay=%s" % (self.pid, path))
            log("  violation: %s — %s" % (v["signature"], v["what"]))
        if self.violations or self.known_hits:
            # further solver witnesses that could not be confirmed natively are noise once one was confirmed
            self.unconfirmed = [m for m in self.mismatches if "did not reproduce natively" in m]
            self.mismatches = [m for m in self.mismatches if "did not reproduce natively" not in m]
        else:
            self.unconfirmed = []
        cov = dict(self.coverage)
        cov["unconfirmed_witnesses"] = self.unconfirmed[:5]
        cov["subclaims"] = self.subclaims
        cov["undecided"] = self.undecided
        cov["known_findings_hit"] = [h["signature"] for h in self.known_hits]
        cov["encoding_mismatches"] = self.mismatches
        ev = {
            "property_id": self.pid,
            "tier": self.tier,
            "seed": seed(),
            "level": self.level,
            "coverage": cov,
            "assumptions": self.assumptions,
            "wall_s": round(wall, 2),
            "violations": len(self.violations),
            "repo_tree": repo_tree_hash(),
        }
        os.makedirs(EVIDENCE, exist_ok=True)
        with open(os.path.join(EVIDENCE, "%s.json" % self.pid), "w") as fh:
            json.dump(ev, fh, indent=1)
        for l in lines:
            print(l)
        for u in self.undecided:
            print("UNDECIDED: property=%s %s" % (self.pid, u))
        for mm in self.mismatches:
            print("ENCODING-MISMATCH: property=%s %s" % (self.pid, mm))
        sys.stdout.flush()
        if self.violations:
            return 1
        if self.mismatches:
            return 2
        return 0
