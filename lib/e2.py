"""E2 harness runner: bounded symbolic execution of one MIR function under a family of concrete input
shapes, a postcondition decided by z3 on every path, witnesses replayed against the native build."""
import json
import os
import subprocess
import time

import z3

import common
from common import CACHE, REPO, log
from mir_exec import (Agg, Executor, Opaque, Ref, SBool, SInt, Slice, Str, StringBuf, Unit, Unsupported, VecBuf,
                      load_program)
from mir_models import Models, deref

MIR_DIR = os.path.join(CACHE, "mir")


def dump_mir(kind="lib"):
    """(re)generate the MIR dump of /repo's current working tree; cached by tree hash"""
    os.makedirs(MIR_DIR, exist_ok=True)
    h = common.repo_tree_hash()
    path = os.path.join(MIR_DIR, "%s-%s.mir" % (kind, h))
    if os.path.exists(path) and os.path.getsize(path) > 1000:
        return path, 0.0
    t0 = time.time()
    target = os.path.join(CACHE, "mir-target")
    if kind == "lib":
        subprocess.run(["touch", os.path.join(REPO, "src", "lib.rs")], check=True)
        cmd = ["cargo", "+nightly", "rustc", "--offline", "--lib", "--no-default-features", "--", "-Zunpretty=mir",
               "-C", "overflow-checks=on", "-C", "debug-assertions=off", "-A", "warnings"]
    else:
        subprocess.run(["touch", os.path.join(REPO, "src", "bin", "main.rs")], check=True)
        cmd = ["cargo", "+nightly", "rustc", "--offline", "--bin", "scrut", "--",      # default features: the shipped binary
               "-Zunpretty=mir", "-C", "overflow-checks=on", "-C", "debug-assertions=off", "-A", "warnings"]
    r = subprocess.run(cmd, cwd=REPO, stdout=subprocess.PIPE, stderr=subprocess.PIPE, text=True,
                       env=common.env_offline({"CARGO_TARGET_DIR": target, "RUSTFLAGS": "--cfg %s" % common.GUARD}))
    if r.returncode != 0 or len(r.stdout) < 1000:
        log(r.stderr[-3000:])
        raise common.BuildError("MIR dump failed")
    for old in os.listdir(MIR_DIR):
        if old.startswith(kind + "-") and old.endswith(".mir"):
            try:
                os.remove(os.path.join(MIR_DIR, old))
            except OSError:
                pass
    with open(path, "w") as fh:
        fh.write(r.stdout)
    return path, time.time() - t0


def str_shapes(max_bytes, widths=(1, 2, 3, 4), max_chars=None):
    """all sequences of UTF-8 widths with total <= max_bytes"""
    out = [[]]

    def rec(cur, left):
        for w in widths:
            if w <= left and (max_chars is None or len(cur) < max_chars):
                out.append(cur + [w])
                rec(cur + [w], left - w)
    rec([], max_bytes)
    return out


# ---------------------------------------------------------------------------------------------
# model → concrete values


def model_int(model, sint):
    if sint.concrete:
        return sint.v
    v = model.eval(sint.z(), model_completion=True)
    return v.as_long()


def model_str(model, s):
    return "".join(chr(model_int(model, c)) for c in s.chars)


def model_bytes(model, sl):
    return [model_int(model, b) for b in sl.items]


def concrete_str(text):
    return Str([SInt(ord(c), "char") for c in text])


def concrete_bytes(bs):
    return Slice([SInt(b, "u8") for b in bs], "u8")


def to_py(v, model=None):
    """executor value → plain python (for evidence / comparison with the native result)"""
    v = deref(v) if isinstance(v, Ref) else v
    if isinstance(v, SInt):
        x = model_int(model, v) if model is not None else (v.v if v.concrete else str(v.v))
        return x
    if isinstance(v, SBool):
        if v.concrete:
            return v.v
        return bool(z3.is_true(model.eval(v.z(), model_completion=True))) if model is not None else str(v.v)
    if isinstance(v, (Str, StringBuf)):
        if model is None and not all(c.concrete for c in v.chars):
            return repr(v)
        return "".join(chr(to_py(c, model)) for c in v.chars)
    if isinstance(v, (Slice, VecBuf)):
        return [to_py(x, model) for x in v.items]
    if isinstance(v, Agg):
        if v.ty == "Option":
            return None if v.variant == "None" else {"Some": to_py(v.fields[0], model)}
        if v.ty == "Result":
            return {v.variant: to_py(v.fields[0], model)}
        if v.ty == "Cow":
            return to_py(v.fields[0], model)
        if v.ty == "tuple":
            return [to_py(x, model) for x in v.fields]
        return {"%s%s" % (v.ty, "::" + v.variant if v.variant else ""): [to_py(x, model) for x in v.fields]}
    if isinstance(v, Unit):
        return None
    if isinstance(v, Opaque):
        return {"opaque": v.what}
    return repr(v)


class Harness:
    """one sub-claim: a function, an input family, a postcondition"""

    def __init__(self, name, func, inputs, post, native=None, describe="", bound="", sig=None, max_paths=400000,
                 judge=None):
        self.name = name
        self.func = func            # suffix of the MIR function name
        self.inputs = inputs        # list of (shape_label, setup(ctx)->args)
        self.post = post            # post(ctx, args, kind, value) -> bool | z3 Bool   (True = property holds)
        self.native = native        # native(args_concrete_py) -> (kind, value_py)  for replay / validation
        self.describe = describe
        self.bound = bound
        self.sig = sig              # sig(args_py, kind, value_py) -> structural signature of a violation
        self.max_paths = max_paths
        self.judge = judge          # judge(args_py, native_kind, native_value) -> (violated, why, signature)


class HarnessResult:
    def __init__(self, name):
        self.name = name
        self.paths = 0
        self.queries = 0
        self.solver_s = 0.0
        self.wall_s = 0.0
        self.shapes = 0
        self.unsupported = []
        self.witnesses = []   # dict(args=..., kind=..., value=...)
        self.samples = []
        self.panic_paths = 0
        self.models_used = {}


_PAR = {}


def _worker(chunk):
    prog, h, mw = _PAR["prog"], _PAR["h"], _PAR["mw"]
    return _run_inputs(prog, h, [h.inputs[i] for i in chunk], mw)


def run_harness(prog, h, max_witnesses=60, jobs=None, keep_raw=False):
    """explore every input shape of the harness (in parallel when there are many); keep_raw keeps
    (z3 model, PathResult) pairs of violating paths — in-process only"""
    t0 = time.time()
    jobs = jobs or int(os.environ.get("VERIF_JOBS", "16"))
    n = len(h.inputs)
    if n < 4 or jobs <= 1 or keep_raw:
        res = _run_inputs(prog, h, h.inputs, max_witnesses, keep_raw)
        res.wall_s = time.time() - t0
        return res
    import multiprocessing as mp
    _PAR.update(prog=prog, h=h, mw=max_witnesses)
    idx = list(range(n))
    # later shapes are usually the larger ones: interleave so that chunks are balanced
    nchunks = min(n, jobs * 4)
    chunks = [idx[k::nchunks] for k in range(nchunks)]
    ctx = mp.get_context("fork")
    with ctx.Pool(jobs) as pool:
        parts = pool.map(_worker, chunks, chunksize=1)
    res = HarnessResult(h.name)
    seen = set()
    for p in parts:
        res.paths += p.paths
        res.queries += p.queries
        res.solver_s += p.solver_s
        res.shapes += p.shapes
        res.panic_paths += p.panic_paths
        res.unsupported += p.unsupported
        for w in p.witnesses:
            res.witnesses.append(w)
        if len(res.samples) < 3:
            res.samples += p.samples
        for k, v in p.models_used.items():
            res.models_used[k] = res.models_used.get(k, 0) + v
    res.unsupported = res.unsupported[:8]
    res.witnesses = res.witnesses[:max_witnesses * 8]
    res.wall_s = time.time() - t0
    return res


def run_with_raw(prog, h, max_witnesses=12):
    """parallel exploration first; only the input shapes that produced a violating path are explored again
    in-process to obtain the (model, path) pairs needed to build native replays"""
    res = run_harness(prog, h, max_witnesses=max_witnesses)
    res.raw_witnesses = []
    if res.witnesses:
        labels = []
        for w in res.witnesses:
            if w["shape"] not in labels:
                labels.append(w["shape"])
        sub = [inp for inp in h.inputs if inp[0] in labels[:6]]
        part = _run_inputs(prog, h, sub, max_witnesses, keep_raw=True)
        res.raw_witnesses = part.raw_witnesses
    return res


def _run_inputs(prog, h, inputs, max_witnesses=60, keep_raw=False):
    res = HarnessResult(h.name)
    res.raw_witnesses = []
    t0 = time.time()
    models = getattr(h, "models_cls", Models)()
    try:
        fname = h.func if callable(h.func) else prog.find(h.func)
    except Unsupported as e:
        res.unsupported.append(str(e))
        return res
    sig_seen = set()
    for label, setup in inputs:
        ex = Executor(prog, models, max_paths=h.max_paths)
        res.shapes += 1

        def setup2(ctx, setup=setup):
            args = setup(ctx)
            ctx.notes["args"] = list(args)
            return args
        try:
            paths = ex.explore(fname, setup2)
        except Exception as e:  # BoundExceeded etc.
            res.unsupported.append("%s [%s]: %s" % (h.name, label, e))
            continue
        for r in paths:
            res.paths += 1
            if r.kind in ("unsupported", "bound"):
                if len(res.unsupported) < 5:
                    res.unsupported.append("%s [%s]: %s" % (h.name, label, r.info))
                continue
            if r.kind == "panic":
                res.panic_paths += 1
            args = r.ctx.notes.get("args")
            try:
                good = h.post(r.ctx, args, r.kind, r.value if r.kind == "return" else r.info)
            except Unsupported as e:
                if len(res.unsupported) < 5:
                    res.unsupported.append("%s [%s] postcondition: %s" % (h.name, label, e))
                continue
            s = ex.solver
            model = None
            tq = time.time()
            if isinstance(good, bool):
                if not good:
                    s.push()
                    s.add(*r.pc)
                    assert s.check() == z3.sat
                    model = s.model()
                    s.pop()
            else:
                s.push()
                s.add(*r.pc)
                s.add(z3.Not(good))
                c = s.check()
                if c == z3.sat:
                    model = s.model()
                elif c == z3.unknown:
                    res.unsupported.append("%s [%s]: solver unknown on the property query" % (h.name, label))
                s.pop()
            res.queries += 1
            res.solver_s += time.time() - tq
            if len(res.samples) < 3 and r.kind == "return" and res.paths % 7 == 1:
                s.push()
                s.add(*r.pc)
                if s.check() == z3.sat:
                    mm = s.model()
                    res.samples.append({"shape": label, "args": [to_py(a, mm) for a in args],
                                        "result": to_py(r.value, mm), "decisions": len(r.decisions)})
                s.pop()
            if model is not None and keep_raw and len(res.raw_witnesses) < max_witnesses:
                res.raw_witnesses.append((model, r))
            if model is not None and len(res.witnesses) < max_witnesses and not keep_raw:
                w = {"shape": label, "args": [to_py(a, model) for a in args], "kind": r.kind,
                     "value": to_py(r.value, model) if r.kind == "return" else r.info}
                key = h.sig(w["args"], w["kind"], w["value"]) if h.sig else (r.kind, label, len(res.witnesses) % 3)
                if key not in sig_seen:
                    sig_seen.add(key)
                    res.witnesses.append(w)
        res.solver_s += ex.stats["solver_s"]
        res.queries += ex.stats["feasibility_checks"]
    res.models_used = dict(models.used)
    res.wall_s = time.time() - t0
    return res


class NativeEval:
    """persistent `verif-native eval` process"""

    def __init__(self):
        self.p = subprocess.Popen([common.NATIVE_BIN, "eval"], stdin=subprocess.PIPE, stdout=subprocess.PIPE,
                                  text=True, bufsize=1)
        self.calls = 0

    def call(self, fn, args):
        self.p.stdin.write(json.dumps({"fn": fn, "args": args}) + "\n")
        self.p.stdin.flush()
        line = self.p.stdout.readline()
        self.calls += 1
        if not line:
            raise RuntimeError("verif-native eval died")
        r = json.loads(line)
        return r["kind"], r["value"]

    def close(self):
        try:
            self.p.stdin.close()
            self.p.wait(timeout=5)
        except Exception:
            self.p.kill()


def run_concrete(prog, fname, args, models_cls=Models):
    """interpret one call on fully concrete arguments → (kind, value_py)"""
    ex = Executor(prog, models_cls())
    rs = ex.explore(fname if callable(fname) else prog.find(fname), lambda ctx: list(args))
    if len(rs) != 1:
        return "unsupported", "concrete run produced %d paths" % len(rs)
    r = rs[0]
    if r.kind == "return":
        return "return", to_py(r.value)
    return r.kind, r.info


def process(rep, prog, nat, h, tier, validate_inputs=(), to_native_args=None, compare=None, max_witnesses=60):
    """run one E2 harness, validate the encoding on concrete inputs, replay witnesses, fill the report"""
    res = run_harness(prog, h, max_witnesses=max_witnesses)
    # translator validation: interpreter (concrete mode) == native build
    mism = 0
    checked = 0
    for args in validate_inputs:
        try:
            ik, iv = run_concrete(prog, h.func, args, getattr(h, "models_cls", Models))
        except Exception as e:  # noqa
            ik, iv = "unsupported", str(e)
        nargs = to_native_args([to_py(a) for a in args]) if to_native_args else [to_py(a) for a in args]
        nk, nv = nat.call(h.native, nargs)
        checked += 1
        if ik == "unsupported" or ik == "bound":
            continue
        if compare is not None:
            same = compare(ik, iv, nk, nv)
        else:
            same = not (ik != nk or (ik == "return" and iv != nv))
        if not same:
            mism += 1
            if mism <= 3:
                rep.mismatches.append("%s: interpreter %s %r != native %s %r on %r" % (h.name, ik, iv, nk, nv, nargs))
    status = "holds"
    confirmed = []
    for w in res.witnesses:
        nargs = to_native_args(w["args"]) if to_native_args else w["args"]
        nk, nv = nat.call(h.native, nargs)
        violated, why, sig = h.judge(w["args"], nk, nv)
        if violated:
            confirmed.append((sig, why, {"kind": "eval", "fn": h.native, "args": nargs, "native": [nk, nv],
                                         "harness": h.name}))
        else:
            rep.mismatches.append("%s: solver witness %r did not reproduce natively (native: %s %r)" % (h.name, nargs, nk, nv))
    for sig, why, wit in confirmed:
        rep.violation(sig, why, wit)
    if confirmed:
        status = "violated"
    if res.unsupported:
        status = "undecided" if not confirmed else status
        for u in res.unsupported[:3]:
            rep.undecided.append(u)
    record(rep, h, res, status, {"inputs": checked, "mismatches": mism})
    return res


def record(rep, h, res, status=None, validation=None):
    """add the sub-claim entry of a harness run to the report"""
    if status is None:
        sig = "harness=%s" % h.name
        hit = any(v["witness"].get("harness") == h.name for v in rep.violations) or \
            any(k["witness"].get("harness") == h.name for k in rep.known_hits)
        status = "violated" if (hit or getattr(res, "raw_witnesses", None)) else "holds"
        if res.unsupported:
            status = "undecided" if status == "holds" else status
            for u in res.unsupported[:3]:
                rep.undecided.append(u)
    rep.subclaim(name=h.name, engine="E2 (MIR symbolic execution + z3)",
                 function=(h.func.__doc__ or h.func.__name__) if callable(h.func) else h.func, bound=h.bound,
                 what=h.describe, result=status, shapes=res.shapes, paths=res.paths, panic_paths=res.panic_paths,
                 queries=res.queries, solver_s=round(res.solver_s, 2), wall_s=round(res.wall_s, 2),
                 concrete_validation=validation or {"inputs": 0, "mismatches": 0},
                 std_models_used=sorted(res.models_used), samples=res.samples[:2])
