"""E3 — decide C01 / C02 / C03 from the cubes explored by `verif-native dse`.

For every group (quantifier vector q, number of lines m, trailing newline yes/no) the native
explorer has produced the leaves of the decision tree of the *compiled* `TestCase::validate` /
`DiffTool::diff` under a symbolic match relation M[i][j].  Here M[i][j] are free Booleans and z3
decides, per group:

  coverage :  not OR_p pc_p                               -- unsat: the cubes cover every matrix
  C01      :  OR_{p accepted} pc_p  and  not Member(q,M)   -- unsat: accepted => described
  C02      :  OR_p pc_p and not Struct_p(M)                -- unsat: conservation on every path
  C03      :  Det(q,M) and OR_p pc_p and (acc_p xor Member)-- unsat: deterministic => exact

A model is a concrete matrix; it is replayed natively (explicit-matrix rule and built-in regex
rules) and re-judged by a concrete reference before anything is reported.
"""
import json
import os
import random
import subprocess
import time
from multiprocessing import Pool

from common import (CACHE, NATIVE_BIN, Report, Solver, SolverError, build_native, log,
                    native_json, seed)

FUNCTIONS = ["scrut::testcase::TestCase::validate", "scrut::diff::DiffTool::diff",
             "scrut::diff::DiffTool::peek_match", "scrut::diff::DiffTool::peek_matching_line",
             "scrut::diff::DiffTool::peek_matching_expectation", "scrut::diff::Diff::new",
             "scrut::diff::Diff::has_differences", "scrut::newline::split_at_newline",
             "scrut::expectation::Expectation::matches"]

BOUNDS = {
    # (n_exp, m_lines) pairs explored; every quantifier vector in {1,?,*,+}^n, both newline settings
    "quick": [(n, m) for n in range(0, 5) for m in range(0, 6)],
    "thorough": [(n, m) for n in range(0, 5) for m in range(0, 8)] + [(5, m) for m in range(0, 7)]
                + [(6, m) for m in range(0, 5)],
}


def var(i, j):
    return "m_%d_%d" % (i, j)


def opt(qc):
    return qc in "?*"


def multi(qc):
    return qc in "*+"


# ------------------------------------------------------------------------------------------------
# reference formulas (SMT text) ---------------------------------------------------------------


def member_defs(q, m):
    """A_j_i: lines[0..j) are described by e_0..e_{i-1}; B_j_i: e_{i-1} consumed >=1 lines ending
    with line j-1.  Member = A_m_n."""
    n = len(q)
    out = []
    for j in range(0, m + 1):
        for i in range(0, n + 1):
            if i == 0:
                out.append("(define-fun A_%d_0 () Bool %s)" % (j, "true" if j == 0 else "false"))
                continue
            if j == 0:
                b = "false"
            else:
                prev = "A_%d_%d" % (j - 1, i - 1)
                if multi(q[i - 1]):
                    prev = "(or %s B_%d_%d)" % (prev, j - 1, i)
                b = "(and %s %s)" % (var(i - 1, j - 1), prev)
            out.append("(define-fun B_%d_%d () Bool %s)" % (j, i, b))
            a = "B_%d_%d" % (j, i)
            if opt(q[i - 1]):
                a = "(or %s A_%d_%d)" % (a, j, i - 1)
            out.append("(define-fun A_%d_%d () Bool %s)" % (j, i, a))
    out.append("(define-fun member () Bool A_%d_%d)" % (m, n))
    return out


def follow(q, k):
    """indices that may legally consume the next line after expectation k consumed the last one"""
    n = len(q)
    f = []
    if k >= 0 and multi(q[k]):
        f.append(k)
    c = k + 1
    while c < n:
        f.append(c)
        if not opt(q[c]):
            break
        c += 1
    return f


def det_defs(q, m):
    """P_j_k: before reading line j the unique run is in state k (k=-1 → 'S'); Det: at every line
    at most one member of Follow(state) matches"""
    n = len(q)
    out = []

    def p(j, k):
        return "P_%d_%s" % (j, "S" if k < 0 else str(k))
    states = list(range(-1, n))
    for k in states:
        out.append("(define-fun %s () Bool %s)" % (p(0, k), "true" if k == -1 else "false"))
    conj = []
    for j in range(m):
        for k in states:
            f = follow(q, k)
            for a in range(len(f)):
                for b in range(a + 1, len(f)):
                    conj.append("(=> %s (not (and %s %s)))" % (p(j, k), var(f[a], j), var(f[b], j)))
        for c in states:
            if c < 0:
                out.append("(define-fun %s () Bool false)" % p(j + 1, c))
                continue
            srcs = [k for k in states if c in follow(q, k)]
            terms = ["(and %s %s)" % (p(j, k), var(c, j)) for k in srcs]
            body = "false" if not terms else ("(or %s)" % " ".join(terms) if len(terms) > 1 else terms[0])
            out.append("(define-fun %s () Bool %s)" % (p(j + 1, c), body))
    body = "true" if not conj else "(and %s)" % " ".join(conj) if len(conj) > 1 else conj[0]
    out.append("(define-fun det () Bool %s)" % body)
    return out


# concrete twins of the formulas (used to re-judge replayed witnesses and to self-test the SMT text)


def member_concrete(q, m, M):
    n = len(q)
    A = [[False] * (n + 1) for _ in range(m + 1)]
    B = [[False] * (n + 1) for _ in range(m + 1)]
    for j in range(m + 1):
        for i in range(n + 1):
            if i == 0:
                A[j][0] = (j == 0)
                continue
            if j > 0:
                prev = A[j - 1][i - 1] or (multi(q[i - 1]) and B[j - 1][i])
                B[j][i] = M[i - 1][j - 1] and prev
            A[j][i] = B[j][i] or (opt(q[i - 1]) and A[j][i - 1])
    return A[m][n]


def det_concrete(q, m, M):
    k = -1
    for j in range(m):
        c = [x for x in follow(q, k) if M[x][j]]
        if len(c) > 1:
            return False
        if not c:
            return True  # stuck: no further legal reading
        k = c[0]
    return True


def brute_member(q, m, M):
    """independent definition: enumerate assignments of lines to expectations"""
    n = len(q)

    def rec(i, j):
        if i == n:
            return j == m
        lo = 0 if opt(q[i]) else 1
        hi = (m - j) if multi(q[i]) else 1
        for cnt in range(lo, min(hi, m - j) + 1):
            if all(M[i][j + t] for t in range(cnt)) and rec(i + 1, j + cnt):
                return True
        return False
    return rec(0, 0)


# ------------------------------------------------------------------------------------------------
# paths ---------------------------------------------------------------------------------------


def parse_diff(ds):
    items = []
    if ds == "-":
        return items
    for it in ds.split(";"):
        kind = it[0]
        if kind == "U":
            items.append(("U", int(it[1:]), []))
        elif kind == "M":
            idx, ls = it[1:].split(":")
            items.append(("M", int(idx), [x for x in ls.split(",") if x != ""]))
        else:
            items.append(("X", None, [x for x in it[1:].split(",") if x != ""]))
    return items


def struct_check(q, m, verdict, ds):
    """→ (constant_bad_reason or None, matched cells [(i,j)])"""
    n = len(q)
    if verdict == "P":
        return "panic", []
    if verdict == "W":
        return "no termination within the oracle-call budget", []
    if verdict == "E":
        return "internal error", []
    items = parse_diff(ds)
    lines_seen = []
    exps = []
    cells = []
    for kind, idx, ls in items:
        for l in ls:
            if l.endswith("!"):
                return "line %s reported with other bytes than the output's" % l, []
            lines_seen.append(int(l))
        if kind in ("M", "U"):
            if idx >= n:
                return "expectation index %d out of range" % idx, []
            exps.append(idx)
        if kind == "M":
            for l in ls:
                if int(l) < m:
                    cells.append((idx, int(l)))
    if lines_seen != list(range(m)):
        return "output lines reported %s, expected each of 0..%d once in order" % (lines_seen, m - 1), cells
    if any(b <= a for a, b in zip(exps, exps[1:])):
        return "expectations reported out of order or twice: %s" % exps, cells
    for i in range(n):
        if not opt(q[i]) and exps.count(i) != 1:
            return "non-optional expectation %d reported %d times" % (i, exps.count(i)), cells
    return None, cells


def pc_term(pc, n, m):
    lits = []
    if pc == "_":
        return "true"
    for c, ch in enumerate(pc):
        if ch == ".":
            continue
        v = var(c // m, c % m)
        lits.append(v if ch == "1" else "(not %s)" % v)
    if not lits:
        return "true"
    if len(lits) == 1:
        return lits[0]
    return "(and %s)" % " ".join(lits)


def big_or(terms):
    if not terms:
        return "false"
    if len(terms) == 1:
        return terms[0]
    return "(or %s)" % " ".join(terms)


def read_groups(path):
    group = None
    with open(path) as fh:
        for line in fh:
            line = line.rstrip("\n")
            if line.startswith("# "):
                if group:
                    yield group
                kv = dict(x.split("=") for x in line[2:].split())
                q = kv["q"].replace("_", "")
                group = {"q": q, "m": int(kv["m"]), "nl": kv["nl"] == "1", "paths": [], "alias": int(kv["alias"]) if "alias" in kv else None}
            elif line:
                pc, verdict, ds = line.split(" ")
                group["paths"].append((pc, verdict, ds))
    if group:
        yield group


def matrix_from_model(model, n, m):
    return [[model.get(var(i, j), "false") == "true" for j in range(m)] for i in range(n)]


def judge_concrete(pid, q, m, M, verdict, ds):
    """does the natively observed (verdict, diff) violate property pid for the concrete matrix?"""
    mem = member_concrete(q, m, M)
    if pid == "C01":
        return verdict == "A" and not mem, "accepted although lines are not in L(e1{q1}..en{qn})"
    if pid == "C03":
        if not det_concrete(q, m, M):
            return False, "not deterministic"
        if (verdict == "A") != mem:
            return True, ("rejected although deterministic and described" if mem
                          else "accepted although not described")
        return False, ""
    if pid == "C02":
        bad, cells = struct_check(q, m, verdict, ds)
        if bad:
            return True, bad
        for (i, j) in cells:
            if not M[i][j]:
                return True, "line %d reported as matched by expectation %d which does not match it" % (j, i)
        return False, ""
    raise ValueError(pid)


def signature(pid, q, m, M, verdict, ds, why):
    """structural role of a violation (stable across the concrete lines chosen)"""
    if pid == "C02":
        head = why.split(" ")[0:3]
        return "diff:%s" % "-".join(head)
    shape = "".join(sorted(set(q)))
    return "%s:quantifiers={%s}" % ("false-pass" if verdict == "A" else "false-fail", shape)


# ------------------------------------------------------------------------------------------------
# worker --------------------------------------------------------------------------------------


def work(job):
    pid, n, m, shards, shard, outdir, rseed, cross = job
    path = os.path.join(outdir, "paths_%d_%d_%d.txt" % (n, m, shard))
    t0 = time.time()
    # small lists are explored a second time with two neighbouring expectations being the very same rule (one row of the match relation)
    env = dict(os.environ, VERIF_E3_ALIAS="1") if (2 <= n <= 3 and m <= 4) else dict(os.environ)
    env.pop("VERIF_E3_ALIAS", None) if not (2 <= n <= 3 and m <= 4) else None
    r = subprocess.run([NATIVE_BIN, "dse", str(n), str(m), path, str(shards), str(shard)],
                       stdout=subprocess.PIPE, stderr=subprocess.PIPE, text=True, env=env)
    if r.returncode != 0:
        return {"error": "dse failed: %s" % r.stderr[-500:]}
    native_s = time.time() - t0
    st = {"n": n, "m": m, "groups": 0, "paths": 0, "decisions": 0, "accepting": 0, "queries": 0,
          "solver_s": 0.0, "native_s": native_s, "sat": [], "errors": [], "samples": [],
          "det_sat_groups": 0, "cross": 0, "cross_disagree": []}
    solver = Solver("z3")
    for i in range(n):
        for j in range(m):
            solver.send("(declare-const %s Bool)" % var(i, j))
    others = []
    if cross:
        for w in ("z3old", "cvc5"):
            s2 = Solver(w)
            for i in range(n):
                for j in range(m):
                    s2.send("(declare-const %s Bool)" % var(i, j))
            others.append(s2)
    groups = list(read_groups(path))
    random.Random(rseed).shuffle(groups)
    for g in groups:
        q, nl = g["q"], g["nl"]
        st["groups"] += 1
        st["paths"] += len(g["paths"])
        acc_terms, rej_terms, bad_terms = [], [], []
        for pc, verdict, ds in g["paths"]:
            st["decisions"] += sum(1 for ch in pc if ch in "01")
            t = pc_term(pc, n, m)
            if verdict == "A":
                acc_terms.append(t)
                st["accepting"] += 1
            else:
                rej_terms.append(t)
            if pid == "C02":
                bad, cells = struct_check(q, m, verdict, ds)
                if bad:
                    bad_terms.append(t)
                elif cells:
                    neg = big_or(["(not %s)" % var(i, j) for (i, j) in cells])
                    bad_terms.append("(and %s %s)" % (t, neg))
        if len(st["samples"]) < 2 and g["paths"]:
            pc, verdict, ds = g["paths"][len(g["paths"]) // 2]
            st["samples"].append({"q": q, "m": m, "nl": nl, "cube": pc, "verdict": verdict, "diff": ds})
        text = ["(push)"]
        if g.get("alias") is not None:
            # expectation a is the very same rule as expectation a-1: one row of the match relation for both
            a_ = g["alias"]
            text += ["(assert (= %s %s))" % (var(a_, j), var(a_ - 1, j)) for j in range(m)]
        text.append("(define-fun acc () Bool %s)" % big_or(acc_terms))
        text.append("(define-fun rej () Bool %s)" % big_or(rej_terms))
        queries = [("coverage", "(assert (not (or acc rej)))")]
        if pid == "C01":
            text += member_defs(q, m)
            queries.append(("C01", "(assert (and acc (not member)))"))
        elif pid == "C02":
            text.append("(define-fun bad () Bool %s)" % big_or(bad_terms))
            queries.append(("C02", "(assert bad)"))
        elif pid == "C03":
            text += member_defs(q, m)
            text += det_defs(q, m)
            queries.append(("C03", "(assert (and det (or (and acc (not member)) (and rej member))))"))
            queries.append(("C03-vacuity", "(assert (and det member))"))
        prelude = "\n".join(text)
        for s in [solver] + others:
            s.send(prelude)
        for name, assertion in queries:
            try:
                solver.send("(push)")
                solver.send(assertion)
                res = solver.check()
                st["queries"] += 1
                model = None
                if res == "sat" and name != "C03-vacuity":
                    names = [var(i, j) for i in range(n) for j in range(m)]
                    model = solver.get_values(names) if names else {}
                solver.send("(pop)")
                for s2 in others:
                    s2.send("(push)")
                    s2.send(assertion)
                    r2 = s2.check()
                    s2.send("(pop)")
                    st["cross"] += 1
                    if r2 != res:
                        st["cross_disagree"].append({"q": q, "m": m, "query": name, solver.which: res, s2.which: r2})
            except SolverError as e:
                st["errors"].append("%s q=%s m=%d: %s" % (name, q, m, e))
                break
            if name == "C03-vacuity":
                if res == "sat":
                    st["det_sat_groups"] += 1
                continue
            if res == "unknown":
                st["errors"].append("%s q=%s m=%d: unknown" % (name, q, m))
            elif res == "sat":
                st["sat"].append({"query": name, "q": q, "m": m, "nl": nl, "alias": g.get("alias"),
                                  "M": [[1 if x else 0 for x in row] for row in matrix_from_model(model, n, m)]})
        for s in [solver] + others:
            s.send("(pop)")
    st["solver_s"] = solver.time
    solver.close()
    for s2 in others:
        st["solver_s"] += s2.time
        s2.close()
    try:
        os.remove(path)
    except OSError:
        pass
    return st


def selftest_formulas():
    """the SMT reference formulas vs. their concrete twins vs. an independent brute-force definition,
    on every complete matrix for small sizes: guards the oracle itself"""
    import itertools
    n_checked = 0
    for n in range(0, 4):
        for m in range(0, 4):
            for q in itertools.product("1?*+", repeat=n):
                q = "".join(q)
                for bits in itertools.product([False, True], repeat=n * m):
                    M = [list(bits[i * m:(i + 1) * m]) for i in range(n)]
                    a = member_concrete(q, m, M)
                    b = brute_member(q, m, M)
                    if a != b:
                        raise AssertionError("member oracle disagrees with brute force: %s %s" % (q, M))
                    n_checked += 1
    # SMT text of Member / Det evaluated under complete assignments == concrete twins
    rnd = random.Random(12345)
    solver = Solver("z3")
    for _ in range(150):
        n, m = rnd.randint(0, 4), rnd.randint(0, 4)
        q = "".join(rnd.choice("1?*+") for _ in range(n))
        M = [[rnd.random() < 0.5 for _ in range(m)] for _ in range(n)]
        solver.send("(push)")
        for i in range(n):
            for j in range(m):
                solver.send("(define-fun %s () Bool %s)" % (var(i, j), "true" if M[i][j] else "false"))
        solver.send("\n".join(member_defs(q, m) + det_defs(q, m)))
        want_m, want_d = member_concrete(q, m, M), det_concrete(q, m, M)
        solver.send("(assert (and (= member %s) (= det %s)))" % (str(want_m).lower(), str(want_d).lower()))
        if solver.check() != "sat":
            raise AssertionError("SMT reference formula differs from its concrete twin: q=%s M=%s" % (q, M))
        solver.send("(pop)")
        n_checked += 1
    solver.close()
    return n_checked


def run(pid, tier):
    rep = Report(pid, tier, "model_checking")
    build_s = build_native()
    outdir = os.path.join(CACHE, "e3", "%s-%s-%d" % (pid, tier, os.getpid()))
    os.makedirs(outdir, exist_ok=True)
    bounds = BOUNDS[tier]
    jobs = []
    for (n, m) in bounds:
        cost = (4 ** n) * (2 ** min(n * m, 24))
        shards = 1 if n <= 3 else (16 if n == 4 else 64)
        shards = min(shards, 4 ** n)
        for s in range(shards):
            # solver cross-check (z3 4.8.12 + cvc5 on every query) on the small sizes
            cross = (n <= 2 and m <= 3)
            jobs.append((pid, n, m, shards, s, outdir, seed(), cross))
    random.Random(seed()).shuffle(jobs)
    jobs.sort(key=lambda j: -(4 ** j[1]) * (2 ** (j[1] * j[2])) / j[3])
    t_self = time.time()
    n_self = selftest_formulas()
    t_self = time.time() - t_self
    with Pool(min(16, len(jobs))) as pool:
        stats = pool.map(work, jobs, chunksize=1)
    tot = {"groups": 0, "paths": 0, "decisions": 0, "accepting": 0, "queries": 0, "solver_s": 0.0,
           "native_s": 0.0, "det_sat_groups": 0, "cross": 0}
    sats, samples = [], []
    for st in stats:
        if "error" in st:
            rep.undecided.append(st["error"])
            continue
        for k in tot:
            tot[k] += st[k]
        sats += st["sat"]
        samples += st["samples"]
        for e in st["errors"]:
            rep.undecided.append(e)
        for d in st["cross_disagree"]:
            rep.undecided.append("solvers disagree: %s" % json.dumps(d))
    # replay every model natively and re-judge it concretely
    replayed = 0
    for s in sats[:200]:
        q, m = s["q"], s["m"]
        M = [[bool(x) for x in row] for row in s["M"]]
        res = native_json("replay-diff", {"q": q or "_", "m": m, "nl": s["nl"], "M": s["M"], "alias": s.get("alias")})
        replayed += 1
        if "error" in res:
            rep.mismatches.append("replay failed for %s: %s" % (json.dumps(s), res["error"]))
            continue
        if s["query"] == "coverage":
            rep.mismatches.append("explored cubes do not cover matrix %s (q=%s m=%d): the matcher reads "
                                  "line contents through a channel other than Rule::matches" % (s["M"], q, m))
            continue
        ex = res["explicit"]
        bad, why = judge_concrete(pid, q, m, M, ex["verdict"], ex["diff"])
        bi = res["builtin"]
        bad_b, _ = judge_concrete(pid, q, m, M, bi["verdict"], bi["diff"])
        if bad:
            sig = signature(pid, q, m, M, ex["verdict"], ex["diff"], why)
            rep.violation(sig, "%s: expectations q=%s, %d lines%s, match matrix %s → verdict %s diff %s"
                          % (why, q, m, "" if s["nl"] else " (no final newline)", s["M"], ex["verdict"], ex["diff"]),
                          {"kind": "diff", "q": q or "_", "m": m, "nl": s["nl"], "M": s["M"], "alias": s.get("alias"),
                           "observed": res, "reproduced_with_builtin_regex_rules": bad_b})
        else:
            rep.mismatches.append("solver model did not reproduce natively: %s → %s" % (json.dumps(s), json.dumps(res)))
    rep.coverage = {
        "engine": "E3: dynamic symbolic execution of the compiled matcher (symbolic match relation) + z3",
        "functions_encoded": FUNCTIONS,
        "bounds": {"sizes_(n_exp,m_lines)": bounds, "quantifier_vectors": "all of {1,?,*,+}^n",
                   "final_newline": "present and absent", "same_rule": "lists of 2..3 expectations × <= 4 lines also with two neighbouring expectations being the very same rule",
                   "outside": "longer expectation lists / outputs"},
        "states": tot["paths"], "transitions": tot["decisions"],
        "traces_validated_against_impl": replayed,
        "evaluations": tot["paths"], "distinct_nontrivial": tot["paths"] - len([1 for (n, m) in bounds if n * m == 0]),
        "rule": "one case = one leaf of the decision tree of validate/diff over the symbolic match matrix (a cube "
                "of matrices); distinct by construction (disjoint cubes); non-trivial = at least one symbolic decision",
        "groups": tot["groups"], "accepting_paths": tot["accepting"],
        "queries_discharged": tot["queries"], "solver": "z3 5.1 (z3-new), cross-checked on sizes n<=2,m<=3 by z3 4.8.12 and cvc5 1.0",
        "cross_checked_queries": tot["cross"],
        "solver_s": round(tot["solver_s"], 2), "native_explore_s": round(tot["native_s"], 2),
        "build_s": round(build_s, 1),
        "oracle_selftest": {"matrices": n_self, "s": round(t_self, 2),
                            "what": "SMT Member recurrence's concrete twin == independent brute-force definition"},
        "sat_models": len(sats),
        "samples": samples[:8],
        "exhaustive": True,
    }
    if pid == "C03":
        rep.coverage["vacuity_witness"] = {"groups_where_det_and_member_is_sat": tot["det_sat_groups"], "groups": tot["groups"]}
        if tot["det_sat_groups"] == 0:
            rep.undecided.append("Det ∧ Member unsatisfiable everywhere: C03 would be vacuous")
    rep.assumptions = [
        "Rule::matches is a pure function of (expression, line) for the built-in kinds — transfers the result from the oracle rule",
        "line contents reach control flow only through Rule::matches (checked: coverage query + content check of reported lines)",
        "oracle-call budget 10*(n+m+2)^2+64 per run stands for termination",
        "quantifier vectors, number of lines and final-newline flag are enumerated concretely; only the match matrix is symbolic",
    ]
    try:
        os.rmdir(outdir)
    except OSError:
        pass
    return rep.finish()


def replay(pid, path):
    """re-run a recorded witness against the current tree"""
    build_native()
    with open(path) as fh:
        w = json.load(fh)
    wit = w["witness"]
    q = wit["q"].replace("_", "")
    M = [[bool(x) for x in row] for row in wit["M"]]
    res = native_json("replay-diff", {"q": wit["q"], "m": wit["m"], "nl": wit["nl"], "M": wit["M"], "alias": wit.get("alias")})
    if "error" in res:
        print("replay error: %s" % res)
        return 2
    out = 0
    for mode in ("explicit", "builtin"):
        bad, why = judge_concrete(pid, q, wit["m"], M, res[mode]["verdict"], res[mode]["diff"])
        print("%s rule: verdict=%s diff=%s → %s" % (mode, res[mode]["verdict"], res[mode]["diff"],
                                                    ("VIOLATED: " + why) if bad else "holds"))
        if bad and mode == "explicit":
            out = 1
    if out:
        print("VIOLATION property=%s replay=%s" % (pid, path))
    return out
