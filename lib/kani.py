"""E1 runner: Kani proof harnesses of /verif/kani against /repo's working tree."""
import os
import re
import subprocess
import time

import common
from common import CACHE, REPO, VERIF, log

KANI_DIR = os.path.join(VERIF, "kani")
KANI_TARGET = os.path.join(CACHE, "kani-target")


def run_harness(name, timeout_s=900, mem_kb=24_000_000, playback=True):
    """→ dict(status = 'pass' | 'fail' | 'undecided', failed=[descriptions], covers=(sat,total), wall_s, ...)"""
    if os.environ.get("VERIF_DEV_SKIP_KANI"):
        return {"harness": name, "status": "undecided", "why": "skipped (VERIF_DEV_SKIP_KANI)", "wall_s": 0}
    subprocess.run(["cp", os.path.join(REPO, "Cargo.lock"), os.path.join(KANI_DIR, "Cargo.lock")], check=True)
    os.makedirs(os.path.join(CACHE, "kani-logs"), exist_ok=True)
    logf = os.path.join(CACHE, "kani-logs", name + ".log")
    args = ["cargo", "kani", "--target-dir", KANI_TARGET, "--harness", name, "--exact"]
    if playback:
        args += ["-Z", "concrete-playback", "--concrete-playback=print"]
    cmd = "ulimit -v %d; exec timeout %d %s" % (mem_kb, timeout_s, " ".join(args))
    t0 = time.time()
    with open(logf, "w") as fh, common.scratch_manifest(KANI_DIR):
        r = subprocess.run(["bash", "-c", cmd], cwd=KANI_DIR, stdout=fh, stderr=subprocess.STDOUT,
                           env=common.env_offline({"RUSTFLAGS": "--cfg %s" % common.GUARD}))
    wall = time.time() - t0
    text = open(logf, errors="replace").read()
    out = {"harness": name, "wall_s": round(wall, 1), "log": logf, "failed": [], "covers": None, "playback": None}
    mo = re.search(r"(\d+) of (\d+) cover properties satisfied", text)
    if mo:
        out["covers"] = (int(mo.group(1)), int(mo.group(2)))
    mo = re.search(r"\*\* (\d+) of (\d+) failed", text)
    if mo:
        out["checks"] = int(mo.group(2))
        out["checks_failed"] = int(mo.group(1))
    mo = re.search(r"(\d+) variables, (\d+) clauses", text)
    if mo:
        out["sat_vars"], out["sat_clauses"] = int(mo.group(1)), int(mo.group(2))
    mo = re.search(r"Verification Time: ([0-9.]+)s", text)
    if mo:
        out["cbmc_s"] = float(mo.group(1))
    if "VERIFICATION:- SUCCESSFUL" in text:
        out["status"] = "pass"
        if out["covers"] and out["covers"][0] < out["covers"][1]:
            out["status"] = "undecided"
            out["why"] = "a reachability witness (kani::cover!) was not satisfied: harness may be vacuous"
        return out
    if r.returncode == 124 or "out of memory" in text or "Status: ERROR" in text or "CBMC failed with status" in text \
            or "VERIFICATION:- FAILED" not in text:
        out["status"] = "undecided"
        out["why"] = "timeout" if r.returncode == 124 else ("out of memory / CBMC error" if "VERIFICATION" in text else "build or tool failure")
        if "error: could not compile" in text or "error[E" in text:
            out["why"] = "harness crate does not compile against the current tree"
            out["tail"] = text[-1500:]
        return out
    # genuine FAILED: collect failing checks
    for mo in re.finditer(r"Status: FAILURE\s*\n\s*- Description: \"(.*?)\"\s*\n\s*- Location: (.*)", text):
        out["failed"].append({"description": mo.group(1).strip('"'), "location": mo.group(2).strip()})
    out["status"] = "fail"
    out["unwinding_failure"] = any("unwinding assertion" in f["description"] for f in out["failed"])
    # concrete playback values
    vals = []
    for blk in re.finditer(r"let concrete_vals: Vec<Vec<u8>> = vec!\[(.*?)\];", text, re.S):
        cur = []
        for v in re.finditer(r"vec!\[([0-9, ]*)\]", blk.group(1)):
            cur.append([int(x) for x in v.group(1).split(",") if x.strip()])
        vals.append(cur)
    out["playback"] = vals
    return out


def decode_bytes_len(vals, n):
    """concrete playback of `any_bytes::<N>()`: N one-byte values (or one N-byte value) then a usize"""
    flat = []
    for v in vals:
        flat.extend(v)
    buf = flat[:n]
    ln = int.from_bytes(bytes(flat[n:n + 8]), "little") if len(flat) >= n + 8 else n
    return buf[:min(ln, n)]
