"""writes MANIFEST.json from the table below (single source of truth for what is claimed)"""
import json
import os

HERE = os.path.dirname(os.path.dirname(os.path.abspath(__file__)))

CHECKS = {}
NA = {}


def check(pid, category, text, note, technique, engine, design_ref):
    CHECKS[pid] = {
        "property_id": pid,
        "quick_cmd": "bin/check %s --tier quick" % pid,
        "thorough_cmd": "bin/check %s --tier thorough" % pid,
        "evidence_file": "evidence/%s.json" % pid,
        "replay_cmd_template": "bin/check %s --replay {path}" % pid,
        "engine": engine,
        "level_claimed": {"category": category, "text": text, "design_ref": design_ref},
        "level_note": note,
        "technique": technique,
    }


E3_NOTE = ("Bounded: every expectation list of n expectations x m output lines in the stated sizes, every quantifier "
           "vector, final newline present/absent; the match relation is fully symbolic (lists of 2..3 expectations x <= 4 lines also with two "
           "neighbouring expectations being the very same rule). Trusts: Rule::matches is the "
           "only channel from line content to control flow (checked by the coverage query), built-in rules are pure; "
           "z3 (cross-checked against z3 4.8.12 and cvc5 on the small sizes).")
E3_TECH = "dynamic symbolic execution of the compiled matcher over a symbolic match matrix; z3 decides coverage + property per quantifier vector; models replayed natively"

check("C01", "model_checking",
      "Solver verdict over all match matrices within the bound: every accepting path of the compiled "
      "TestCase::validate implies membership in L(e1{q1}..en{qn}) (unsat of acc ∧ ¬Member), cubes cover all matrices.",
      E3_NOTE, E3_TECH, "E3", "DESIGN.md §3 C01")
check("C02", "model_checking",
      "Solver verdict over all match matrices within the bound: on every path of the compiled DiffTool::diff no panic, "
      "bounded termination, each output line reported once in order with its own bytes, matched ⇒ the path condition "
      "forces M[i][j], expectations reported once in order.",
      E3_NOTE, E3_TECH, "E3", "DESIGN.md §3 C02")
check("C03", "model_checking",
      "Solver verdict over all match matrices within the bound: Det(q,M) ⇒ (validate accepts ⇔ Member(q,M)), with a "
      "vacuity witness (Det ∧ Member satisfiable) per group.",
      E3_NOTE, E3_TECH, "E3", "DESIGN.md §3 C03")

E2_TECH = "bounded symbolic execution of the function's MIR (concrete shapes, symbolic contents) with z3 deciding every path's postcondition; witnesses replayed natively"
E2_NOTE = ("Bounded by the stated input sizes. Trusts the std contract models in lib/mir_models.py (validated against the "
           "native build on concrete inputs every run) and the MIR text of the nightly toolchain as a faithful rendering "
           "of the source semantics.")

check("C19", "other",
      "Partial: the two crash-prone computations of the pretty renderer — trailing-whitespace split index is a char "
      "boundary and exactly the start of the trailing whitespace (all UTF-8 strings <= 6/8 bytes; E2 + a Kani harness on "
      "the compiled function), and line-number padding cannot underflow (all usize; whole render_malformed_output with symbolic "
      "#expectations / #lines). Diff renderer: on one failed test case with an unmatched expectation and an unexpected line of 0..2/3 "
      "arbitrary bytes (valid and invalid UTF-8) it returns a rendering with one `-` and one `+` line. Pretty and diff renderer on long "
      "multi-byte lines (40..200 / 20..500 two-byte characters, both boundary parities) through their real text paths: no panic, both "
      "differences shown in full; every diff shape of <= 3 items (every unmatched expectation and unexpected line is in the rendering); every list of <= 2/3 "
      "outcomes over passed / malformed output / wrong exit code / timed out / skipped, with and without locations: a rendering comes back, it shows the "
      "differences of the failed test cases and has nothing of a test case that passed. `Serialize for Outcome` against a recording serializer: one entry per "
      "outcome with its result kind. The json / yaml encoders themselves are not claimed.",
      E2_NOTE, E2_TECH + "; Kani/CBMC harness as second engine", "E2+E1", "DESIGN.md §3 C19")

check("C06", "other",
      "Partial: (a) the fence classifier extract_code_block_start is total, opens only on >= 3 backticks, recognises every "
      "`>=3 backticks + backtick-free info string` line and returns pieces that re-assemble the line (all UTF-8 lines <= 6/8 "
      "bytes); (b) MarkdownIterator driven to exhaustion on every document of <= 3/4 short ASCII lines: tokens account for "
      "every line once, in order, with its index, blocks end exactly at their closing line or at the end of the document — "
      "nothing is dropped, hidden or truncated; (c) the whole MarkdownParser::parse on every template document of <= 4/5 lines (prose, headings, "
      "blank, scrut / foreign / bare fences of three and four backticks, indented backtick runs, commands, continuations, expectations, exit "
      "code, inline configuration with and without a trailing blank, titles opening with a non-ASCII letter, front-matter incl. empty and "
      "unterminated) vs the statement: test count, command, expectations, exit code, line number, title where unambiguous, and the inline "
      "configuration text handed to the YAML reader. Documents of <= 3/4 lines also with CR LF line endings and without final newline. YAML contents and "
      "long documents are not claimed.",
      E2_NOTE, E2_TECH, "E2+E1", "DESIGN.md §3 C06")

check("C04", "other",
      "Per kind, on the MIR of the rule implementations: equal / no-eol exact (expressions <= 3/4 bytes, lines <= 4/5 bytes); "
      "escaped: matches ⇔ trimmed line == stored bytes, and make() stores the documented decoding (\\t, \\xHH, \\\\, text); "
      "regex: scrut's own part — rewrites + anchoring wrapper — with the engine replaced by a small regex semantics on a "
      "symbolic line: matches ⇔ whole line in L(e) for all expressions over {a,b,|} up to length 3/4 plus curated ones; "
      "cram glob: glob→regex translation ⇔ glob semantics, and CramGlobRule::make + matches ⇔ glob semantics counted in characters on lines "
      "with characters of every UTF-8 width (the options the rule builds its regex with are modelled). Expressions over {a,|,^,$,\\} cover "
      "user-written anchors. glob: GlobRule::make + matches ⇔ the engine's verdict on the line without its newline, with wildmatch replaced by the reference glob "
      "semantics (patterns <= 3/4 over {a,b,*,?}, lines <= 3 characters incl. multi-byte; validated against the real rule on concrete samples). The wildmatch "
      "and regex engines themselves are not encoded.",
      E2_NOTE + " Additionally trusts lib/miniregex.py (validated against the regex crate on concrete samples each run).",
      E2_TECH, "E2", "DESIGN.md §3 C04")

check("C16", "other",
      "The merge functions themselves, with fully symbolic layers: per-key and per-environment-variable precedence of "
      "with_defaults_from / with_overrides_from, associativity (three layers), empty layer is the identity, append/prepend "
      "accumulate in order, DocumentConfig scalars and nested defaults. All presence/value assignments of the scalar keys; "
      "environments of <= 2/3 variables per layer. The 4-layer statement follows from these laws plus where the layers are applied: "
      "what commands::test::Args::run hands the executor = command-line flags over the test case's inline configuration and "
      "--timeout-seconds over the document's total_timeout (bin crate MIR, every inline configuration × flag combination, replayed through "
      "the real binary), and what StatefulExecutor::execute_all hands the runner = test case over the document's defaults (every key and "
      "variable, both layers fully symbolic). The parser's format defaults are not claimed here.",
      E2_NOTE, E2_TECH, "E2", "DESIGN.md §3 C16")

check("C05", "other",
      "Partial: the verdict of TestCase::validate for every exit status / exit code / expected code / output_stream setting with "
      "the diff cut out as a free Boolean (wrong exit code reported as such before any diff; right stream compared; Ok ⇔ no "
      "differences; a status without exit code never passes; stdout / stderr written or empty, with / without an expectation — a verdict reached without "
      "looking at the output must be the only possible one), and the executor's padding with Unknown outputs after an Unknown "
      "status (whole-function symbolic run of StatefulExecutor::execute_all). Signal→status conversion of subprocess results and "
      "the CLI's counting are not claimed here.",
      E2_NOTE, E2_TECH, "E2", "DESIGN.md §3 C05")
check("C14", "other",
      "Partial: whole-function symbolic execution of StatefulExecutor::execute_all with a symbolic non-decreasing clock and a "
      "scripted runner: the timeout handed to the runner is min(per-test timeout, time left of the document limit) — absent → 900 s, "
      "0 → unlimited — for documents of <= 2/3 test cases and all durations; a runner timeout surfaces as Err(Timeout(Total|Index(i))) "
      "with the right kind and the timed-out output; no Timeout error otherwise. SubprocessRunner::run against a recording stub of the "
      "subprocess crate: the limit handed to the process is exactly the test case's timeout (zero is a limit), none without one; a timed-out "
      "read is reported as Timeout; standard input = the expression; stderr merged iff combined; every variable of the test case (empty values "
      "too) reaches the process; both streams come back through render_output. Single-script (Cram) executor: the script's process gets exactly the "
      "document's total_timeout (absent → 900 s, 0 → none); a script stopped by it surfaces as Err(Timeout(Total)), a finishing one never (1..2/3 test cases; "
      "replayed on real sleeps). commands::test::Args::run (bin crate): the document configuration handed to the executor has total_timeout = --timeout-seconds "
      "if given else the document's, with and without --prepend / --append-test-file-paths (any value; real runs with --timeout-seconds 1). The subprocess crate's own enforcement of "
      "the limit is not claimed (the CLI's reporting of later tests as skipped is C20's).",
      E2_NOTE + " Environment stubs (clock, runner, temp dir, tracing) as listed in the evidence.", E2_TECH, "E2", "DESIGN.md §3 C14")
check("C15", "other",
      "Partial (executor level): whole-function symbolic execution of StatefulExecutor::execute_all: it returns Err(Skipped(i)) "
      "exactly for the first test whose status is Skipped or whose exit code equals its effective skip code (test config, else "
      "document defaults, else 80), for all exit codes and skip codes and whatever exit code the test cases expect, documents of <= 2/3 tests. That the CLI then reports every "
      "test of the document as skipped is C20's claim. Single-script (Cram / --cram-compat) executor: whole BashScriptExecutor::execute_all with the "
      "script run replaced by its divider output — Err(Skipped) ⇔ a test case that ran exits with the test cases' skip code (else 80), also when the "
      "document's defaults name another code and when a test case ends the script (1..2/3 test cases, codes {0, 7, 80}).",
      E2_NOTE + " Environment stubs as listed in the evidence.", E2_TECH, "E2", "DESIGN.md §3 C15")

check("C11", "other",
      "Escaper ∘ decoder = identity and printable output, decided on the composition of the MIR of the real escaper "
      "(escaped_expectation → escaped_printable_*, byte_to_ascii) with the MIR of the real decoder (EscapedRule::make → "
      "unescape_tabs, resolve_escape_sequences_to_bytes), for every byte line of <= 2/3 bytes (all byte values, valid and invalid "
      "UTF-8, with/without final newline) in both modes; unmarked lines are the line itself. Longer lines and 'unassigned' code "
      "points (the implementation's tables have none) are outside.",
      E2_NOTE, E2_TECH, "E2", "DESIGN.md §3 C11")

check("C13", "other",
      "Partial: scrut's own byte-level transformations on the MIR — replace_crlf ≡ 'drop CR before LF' (all byte strings <= 5/6) and "
      "its call depth does not grow with the number of pairs; BashRunner::run hands the expression to the shell verbatim for "
      "expressions containing any template placeholder token in symbolic context; iterate_divided_output attributes to each test "
      "exactly its bytes and exit code (payloads with/without final newline, look-alike divider lines with a foreign salt stay output). "
      "compile_script of the single-script (Cram) executor puts every expression verbatim on its own line, in order, and its divider echo is a "
      "command of its own — no backslash continuation into it (1–2 symbolic expressions, replayed through the real executor and bash). "
      "render_output applies exactly the documented transformations (CR LF unless keep_crlf, ANSI stripping iff set), and SubprocessRunner::run passes "
      "both the output and the error output of the process through it (recording stub of the subprocess crate; a real printf through the runner). "
      "BashScriptExecutor::execute_all (process runner stubbed) gives every test case exactly the bytes of its section — CR, ANSI sequences, missing final newline — "
      "for 1..3 test cases under every keep_crlf / strip_ansi_escaping setting. "
      "Pipes, merge order of stdout/stderr, megabyte payloads and real exit codes of processes are not claimed.",
      E2_NOTE, E2_TECH, "E2", "DESIGN.md §3 C13")

check("C08", "other",
      "Partial: the grammar half. On the MIR of ExpectationMaker::parse/extract/make + the rule registry, with the regex engine "
      "replaced by a capture-aware regex semantics applied to the pattern the real to_expectation_regex builds: no panic; a final "
      "` (K Q)` group with documented kind and/or quantifier is recognised exactly, the expression is verbatim, quantifier flags are "
      "right, failure only for regex/escaped kinds; every other line — including a final `()` — is an equal expectation for the whole "
      "line. Lines u ++ sep ++ (K Q) with symbolic u (<= 2/3 chars) over 13 kind texts × 6 quantifier texts × 3 separators, and all "
      "free lines <= 5/6 chars over a 7-symbol alphabet. Canonical rendering (equal / no-eol / escaped) parses back to the same expectation; "
      "glob / regex rendering is outside.",
      E2_NOTE + " Additionally trusts lib/miniregex.py (capture semantics; validated natively on concrete lines each run).",
      E2_TECH, "E2", "DESIGN.md §3 C08")

check("C09", "other",
      "Partial: for one-line outputs, plus 2–3-line outputs in the `update` path (diff mixing still-matching and new lines, with/without final "
      "newline: one matching quantifier-free expectation per line). On the MIR of Outcome::generate_testcase (real escaper) composed with LineParser, "
      "ExpectationMaker::parse and the parsed rule's matches(): the text written for an output line parses back to the same command, "
      "no exit code and one quantifier-free expectation that matches that line — for lines u ++ S (|u| <= 2/3 symbolic over 8 symbols, "
      "S from 12 syntax-lookalike suffixes), with/without final newline, both escapers, Markdown and Cram line-parser modes; plus "
      "max_backtick_size >= every line-leading backtick run. Seven collision classes are genuine defects recorded in known_findings.json. "
      "A test case that failed on its exit code (recorded code symbolic in 0..255, written code absent or any other; 0..1/2 lines on stdout and on stderr; every "
      "output_stream setting) is rewritten to a block that parses back to the same command, the recorded exit code and one matching expectation per line of "
      "the stream that validate compares; replayed through the real update generators on a real document. Shell expressions of 2–3/4 lines (empty lines, lines "
      "starting or ending in a blank, a trailing empty line) are written as `$ ` / `> ` lines that parse back to exactly that expression. Longer outputs and "
      "Document level: generate_testcases of the Markdown / Cram generator composed with the format's real document parser on the one-line family with |u| <= 1/2 "
      "(title, fence / indentation included). `--convert markdown` of a Cram test: the Markdown generator writes the Cram stream / line-ending configuration after "
      "the language. Longer outputs are outside.",
      E2_NOTE + " Additionally trusts lib/miniregex.py.", E2_TECH, "E2", "DESIGN.md §3 C09")

check("C17", "other",
      "Partial: the two places where to_yaml_one_liner writes user text. On the MIR of the renderer: an environment value is written "
      "as a properly escaped double-quoted YAML scalar (values <= 3/4 chars over {a, \", \\, :, space}; values <= 3 chars with a no-break space, combining mark, "
      "zero-width joiner, é or wide space at any position) and wait.path is either quoted "
      "like that or a plain scalar that a flow mapping cannot mistake (paths <= 3/4 chars over {a / . , } \"}); witnesses are replayed "
      "through the real serde_yaml round trip. timeout and wait (all durations below 400 days, nanosecond resolution) are written as "
      "humantime's rendering of exactly the configured duration (humantime::format_duration = injective black box; what scrut passes to it "
      "is decided). The scalar keys (output_stream, keep_crlf, detached, strip_ansi_escaping, skip_document_code over 18 codes) are written iff set, "
      "with the spelling the reader accepts; is_empty ⇔ nothing is set (generator round trip); the derived Serialize for TestCaseConfig, run against a "
      "recording serializer with a fully symbolic configuration, writes every key that is set with its value and announces the right count "
      "(witnesses through the real serde_yaml round trip). What `create` / `--convert` write is the difference to the format default: "
      "diff(c, D).with_defaults_from(D) = c.with_defaults_from(D) for fully symbolic c and D. Document front-matter rendering, humantime and serde_yaml themselves are not claimed.",
      E2_NOTE, E2_TECH, "E2", "DESIGN.md §3 C17")

check("C07", "other",
      "On the MIR of the whole CramParser::parse (+ LineParser, ExpectationMaker::parse; regex engine replaced by lib/miniregex.py): for every "
      "template document of <= 4/5 lines (title, blank, comment, command, continuation, expectations with inner/leading/trailing blanks, exit "
      "code; symbolic payload letters) the result is Err or exactly the tests the statement prescribes — command with continuations, "
      "expectations with indentation removed and other whitespace kept, exit code, line number, title where unambiguous, Cram defaults. "
      "Whitespace-only lines: the indentation alone / with further blanks is an expectation, a single blank is unindented text. (The finding of this check — output lines before any command were attached to the next command — is fixed in 068e7bb.) Lines whose leading whitespace is not the two-space indentation (tabs, blank + tab, wide / no-break space) are unindented text and "
      "never crash the parser. Other non-ASCII text and long documents are outside.",
      E2_NOTE + " Additionally trusts lib/miniregex.py.", E2_TECH, "E2", "DESIGN.md §3 C07")
check("C10", "other",
      "Partial. On the MIR of parse ∘ generate_update for every template Markdown document of <= 4/5 lines (and <= 6/7 lines over reduced template "
      "sets: long fences with foreign-fence lines and indented backtick runs, front-matter, inline configuration): with all tests passing update does "
      "not crash and returns the document unchanged line for line — front-matter, prose, foreign blocks, comments, commands, expectation lines, text "
      "after the last test; an unterminated scrut block only gains its closing fence (idempotence follows). With any subset of tests failing — on their output or on their exit code — only the "
      "failing blocks change (fence language, comments, command kept; exit code kept, or the new one written; new output written) and the updated document parses with the real "
      "parser to the same commands. Commands with an empty continuation line, a continuation line ending in a blank, or no text at all are among the "
      "templates (the defects they exposed are fixed in af1291e). Multi-line new output, CRLF documents and Cram documents are not claimed.",
      E2_NOTE + " Additionally trusts lib/miniregex.py.", E2_TECH, "E2", "DESIGN.md §3 C10")

check("C20", "other",
      "Partial: the accounting and exit status of `scrut test`, given what the executors return. On the MIR of the whole "
      "commands::test::Args::run (bin crate, 576 blocks, with its configuration plumbing) and of main, with document discovery, "
      "environment, executor, validation verdict (free Boolean per executed test case), UI and renderer stubbed: documents are executed "
      "once each in the given order; every executor call receives prepend + own + append test cases (own in order); exactly one result "
      "per test case that is not detached and at most one per test case, in order, of the prescribed kind (validated / timed out / "
      "skipped); a skipped document never fails the run; after a time-out the rest is skipped; run returns Err(ValidationFailed) iff "
      "something failed or timed out, another error iff a document could not be executed; main maps these to 50 / 1 / 0. Executor calls "
      "of <= 3/4 test cases (5 with a reduced alphabet), every result shape — including a document whose turn ends before its executor is called (a prepend "
      "document that does not parse, a work directory or executor that cannot be set up: the run ends with a non-validation error and nothing more is run); "
      "2 documents with representative results. Witnesses are replayed "
      "through the real binary on real documents. The real FileParser::find_and_parse over a file-system stub yields one parsed document per named "
      "file and per matching file below a named directory (depth first), in the order given (every ordered selection of 1..3 of 4 paths; a "
      "two-level directory tree named in 4 ways), and fails when one of those documents cannot be read (shallow, deep, top level; exit status 1 "
      "end to end). Front-matter prepend / append paths are resolved against the document's directory, --prepend / --append-test-file-paths are taken as given "
      "(real paths; an end-to-end run with a relative -P). That the executors run each test case once and in order (C14 / C15), the file system's own listing order and parse errors are "
      "not claimed.",
      E2_NOTE + " Stubs as listed in the evidence; the executor-result shapes are validated every run by real `scrut test` runs on sampled scripts.",
      "bounded symbolic execution of the MIR of commands::test::Args::run and main (bin crate) with a scripted executor and free validation verdicts; "
      "z3 decides each path's postcondition; witnesses replayed end to end through the real scrut binary", "E2", "DESIGN.md §3 C20")

check("C18", "other",
      "Partial: `scrut test` and `scrut update`. On the MIR of the whole commands::test::Args::run (and, with the generators, the change preview, the overwrite "
      "question and the file write stubbed, commands::update::Args::run: 8 outcome kinds per document incl. no test cases / prepend / declined overwrite / generator error) with the real TestEnvironment / UniqueNamer code and a ledger in "
      "place of tempfile / std::fs (creation, into_path, exists and — through the MIR's executed drop statements — removal are tracked per "
      "path): at every executor call the work and temporary directory exist and the work directory is not shared with another document "
      "(or is the given --work-directory); every test case carries TESTDIR, TESTFILE, TESTSHELL, TMPDIR and the documented locale / terminal "
      "variables with the right values; when run returns (success, validation failure, time-out, skip, execution error, a prepend document that does not "
      "parse, no executor) nothing scrut "
      "created is left unless --keep-temporary-directories, a given --work-directory stays and only the temporary directory inside it is "
      "gone. SCRUT_TEST=<path>:<line> per test case is decided on the MIR of StatefulExecutor::execute_all; that every variable of the test case — "
      "the documented empty ones (CDPATH, GREP_OPTIONS) included — reaches the process is decided on SubprocessRunner::run against a recording stub and "
      "probed on a real process under a polluted parent environment. 1 document with 1..2/3 test cases "
      "(every executor result shape), 2 and 3 documents (also identical file names); the three admissible flag combinations. Witnesses and a "
      "sample of configurations run through the real binary with probe commands and a private $TMPDIR. Parse errors before the loop, panics / "
      "signals, several scrut processes at once, the create command and the real file system (beyond a document given by a symbolic link) are not claimed.",
      E2_NOTE + " tempfile::TempDir is replaced by its documented contract (create / drop removes the tree / into_path keeps it).",
      "bounded symbolic execution of the MIR of commands::test::Args::run (bin crate) with the real environment code over a file-system ledger "
      "driven by the MIR's drop statements; z3 decides each path's postcondition; witnesses replayed through the real scrut binary", "E2", "DESIGN.md §3 C18")

NA_LIST = [
    ("C12", "Shell-state carry-over is implemented by a bash script; no encoding of bash semantics is available here."),
]
PENDING = []


def main():
    na = [{"property_id": p, "reason": r} for p, r in NA_LIST]
    for p in PENDING:
        if p not in CHECKS:
            na.append({"property_id": p, "reason": "check not built yet (planned in DESIGN.md §3); not claimed until it runs"})
    man = {
        "version": 1,
        "setup_cmd": "bin/setup",
        "hooks": {
            "guard": "scrut_verif",
            "enable": "RUSTFLAGS='--cfg scrut_verif' (set by lib/common.py for the native crate and the Kani harness crate)",
            "baseline_off_cmd": "cd /repo && cargo nextest run --workspace --no-fail-fast --tool-config-file pb:/w/lib/nextest.toml --profile pb --test-threads 8 --offline || cargo test --workspace --no-fail-fast --offline",
            "source_commits": ["c78dcdb", "fe969de", "5f0c96c"],
            "add_only": True,
        },
        "engines": [
            {"name": "E3", "path": "native/src/dse.rs + lib/e3.py", "serves_properties": ["C01", "C02", "C03"],
             "kind_free_text": "dynamic symbolic execution of compiled validate/diff with a symbolic match relation; z3 decides per quantifier vector"},
            {"name": "E2", "path": "lib/mir_parse.py + lib/mir_exec.py + lib/mir_models.py + lib/e2.py",
             "serves_properties": sorted(k for k, v in CHECKS.items() if "E2" in v["engine"]),
             "kind_free_text": "path-wise bounded symbolic executor for rustc MIR text (nightly -Zunpretty=mir) with z3; std functions answered by contract models"},
            {"name": "E1", "path": "kani/ + lib/kani.py", "serves_properties": sorted(k for k, v in CHECKS.items() if "E1" in v["engine"]),
             "kind_free_text": "Kani proof harnesses (CBMC + cadical) over the real crate for allocation-free leaf functions"},
        ],
        "checks": [CHECKS[k] for k in sorted(CHECKS)],
        "not_applicable": sorted(na, key=lambda x: x["property_id"]),
        "notes": "All checks: bin/check <ID> --tier quick|thorough. Known genuine defects are listed in known_findings.json.",
    }
    with open(os.path.join(HERE, "MANIFEST.json"), "w") as fh:
        json.dump(man, fh, indent=1)


if __name__ == "__main__":
    main()
