"""A small regular-expression semantics over *symbolic* lines.

The pattern is concrete text (as produced by the real code under symbolic execution), the subject is
a list of symbolic chars of concrete length.  `search(pattern, chars)` returns a z3 Bool (or python
bool) that is true iff the `regex` crate's unanchored `is_match` would succeed — for the supported
syntax: literals, escapes, `.`, classes `[...]`, groups `( )` `(?: )`, alternation, `* + ?` (greedy or
lazy — irrelevant for `is_match`), anchors `^ $`.  Anything else raises `Unsupported`.
It is part of the trusted base and is validated on every run against the real `regex` crate through
`verif-native eval rule_matches` on concrete samples."""
import z3

from mir_exec import SInt, Unsupported
from mir_models import char_eq, in_ranges, z_and, z_not, z_or


class P:
    def __init__(self, kind, *a):
        self.kind = kind
        self.a = a

    def __repr__(self):
        return "%s%s" % (self.kind, self.a)


SPECIAL = set("\\.+*?()|[]{}^$")


def parse(pattern):
    pos = 0
    n = len(pattern)

    def peek():
        return pattern[pos] if pos < n else None

    def alt():
        nonlocal pos
        branches = [concat()]
        while peek() == "|":
            pos += 1
            branches.append(concat())
        return branches[0] if len(branches) == 1 else P("alt", branches)

    def concat():
        items = []
        while pos < n and peek() not in "|)":
            items.append(repeat())
        return P("cat", items)

    def repeat():
        nonlocal pos
        atom_ = atom()
        while peek() in ("*", "+", "?"):
            op = peek()
            pos += 1
            if peek() == "?":
                pos += 1  # lazy: same language
            atom_ = P({"*": "star", "+": "plus", "?": "opt"}[op], atom_)
        if peek() == "{":
            raise Unsupported("counted repetition in regex")
        return atom_

    def atom():
        nonlocal pos
        c = peek()
        if c == "(":
            pos += 1
            if pattern.startswith("?:", pos):
                pos += 2
            elif peek() == "?":
                raise Unsupported("regex group flags")
            inner = alt()
            if peek() != ")":
                raise Unsupported("unbalanced group in regex")
            pos += 1
            return P("group", inner)
        if c == "[":
            return klass()
        if c == ".":
            pos += 1
            return P("any")
        if c == "^":
            pos += 1
            return P("bol")
        if c == "$":
            pos += 1
            return P("eol")
        if c == "\\":
            pos += 1
            e = peek()
            pos += 1
            if e is None:
                raise Unsupported("trailing backslash in regex")
            if e in SPECIAL or e in "-/ #&~\"'`<>=!@%,:;_":
                return P("lit", ord(e))
            m = {"n": 10, "t": 9, "r": 13, "f": 12, "v": 11, "a": 7, "0": 0}
            if e in m:
                return P("lit", m[e])
            if e == "p" or e == "P":
                # \p{L}: letters — exact for ASCII subjects only (checked when matching)
                j = pattern.index("}", pos)
                cls = pattern[pos:j + 1]
                pos = j + 1
                if cls != "{L}":
                    raise Unsupported("unicode class \\p%s" % cls)
                return P("uletter", e == "P")
            if e == "d":
                return P("set", [(48, 57)], False)
            if e == "s":
                return P("set", [(9, 13), (32, 32)], False)
            if e == "w":
                return P("set", [(48, 57), (65, 90), (95, 95), (97, 122)], False)
            raise Unsupported("regex escape \\%s" % e)
        if c in "*+?{":
            raise Unsupported("dangling quantifier in regex")
        pos += 1
        return P("lit", ord(c))

    def klass():
        nonlocal pos
        pos += 1
        neg = False
        if peek() == "^":
            neg = True
            pos += 1
        ranges = []
        first = True
        while True:
            c = peek()
            if c is None:
                raise Unsupported("unterminated class")
            if c == "]" and not first:
                pos += 1
                break
            first = False
            if c == "[":
                raise Unsupported("nested class")
            if c == "\\":
                pos += 1
                c = peek()
            pos += 1
            lo = ord(c)
            if peek() == "-" and pos + 1 < n and pattern[pos + 1] != "]":
                pos += 1
                hi = peek()
                if hi == "\\":
                    pos += 1
                    hi = peek()
                pos += 1
                ranges.append((lo, ord(hi)))
            else:
                ranges.append((lo, lo))
        return P("set", ranges, neg)
    tree = alt()
    if pos != n:
        raise Unsupported("regex not fully parsed: %r at %d" % (pattern, pos))
    return tree


def _merge(d, j, cond):
    if cond is False:
        return
    if j in d:
        d[j] = z_or([d[j], cond])
    else:
        d[j] = cond


def ends(node, chars, i, cond):
    """positions reachable after matching node starting at i under cond → {j: cond_j}"""
    n = len(chars)
    k = node.kind
    out = {}
    if k == "lit":
        if i < n:
            _merge(out, i + 1, z_and([cond, char_eq(chars[i], SInt(node.a[0], chars[i].ty))]))
        return out
    if k == "any":
        if i < n:
            _merge(out, i + 1, z_and([cond, z_not(char_eq(chars[i], SInt(10, chars[i].ty)))]))
        return out
    if k == "set":
        if i < n:
            c = in_ranges(chars[i], node.a[0])
            _merge(out, i + 1, z_and([cond, z_not(c) if node.a[1] else c]))
        return out
    if k == "uletter":
        if i < n:
            ch = chars[i]
            if not ch.concrete and ch.width != 1:
                raise Unsupported("\\p{L} on a symbolic non-ASCII subject")
            if ch.concrete and ch.v >= 128:
                import unicodedata
                c = unicodedata.category(chr(ch.v)).startswith("L")       # general category L* of the code point
            else:
                c = in_ranges(ch, [(65, 90), (97, 122)])
            _merge(out, i + 1, z_and([cond, z_not(c) if node.a[0] else c]))
        return out
    if k == "bol":
        if i == 0:
            out[i] = cond
        return out
    if k == "eol":
        if i == n:
            out[i] = cond
        return out
    if k == "group":
        return ends(node.a[0], chars, i, cond)
    if k == "cat":
        cur = {i: cond}
        for item in node.a[0]:
            nxt = {}
            for p, c in cur.items():
                for j, cj in ends(item, chars, p, c).items():
                    _merge(nxt, j, cj)
            cur = nxt
            if not cur:
                break
        return cur
    if k == "alt":
        for br in node.a[0]:
            for j, cj in ends(br, chars, i, cond).items():
                _merge(out, j, cj)
        return out
    if k == "opt":
        out[i] = cond
        for j, cj in ends(node.a[0], chars, i, cond).items():
            _merge(out, j, cj)
        return out
    if k in ("star", "plus"):
        reach = {}
        frontier = {i: cond}
        if k == "star":
            reach[i] = cond
        seen_rounds = 0
        while frontier and seen_rounds <= n + 1:
            nxt = {}
            for p, c in frontier.items():
                for j, cj in ends(node.a[0], chars, p, c).items():
                    if j == p:
                        continue  # empty iteration adds nothing
                    _merge(nxt, j, cj)
            for j, cj in nxt.items():
                _merge(reach, j, cj)
            frontier = nxt
            seen_rounds += 1
        if k == "plus":
            # one iteration may also be empty-width (e.g. (a?)+): covered by reach of first round only if consumed;
            for j, cj in ends(node.a[0], chars, i, cond).items():
                _merge(reach, j, cj)
        return reach
    raise Unsupported("regex node %s" % k)


def search(pattern, chars):
    """unanchored is_match"""
    tree = parse(pattern) if isinstance(pattern, str) else pattern
    alts = []
    for start in range(len(chars) + 1):
        for _j, c in ends(tree, chars, start, True).items():
            alts.append(c)
    return z_or(alts)


def fullmatch(pattern, chars):
    tree = parse(pattern) if isinstance(pattern, str) else pattern
    return ends(tree, chars, 0, True).get(len(chars), False)


# ---------------------------------------------------------------------------------------------------
# matching with capture groups, in the engine's priority order (leftmost-first: alternation left to right,
# greedy = more first, lazy = fewer first).  `shapes` yields every way the pattern can match the subject from
# position 0 as (condition, captures) in priority order; the regex crate's `captures` returns the first
# shape whose condition holds.  Bounded by the (concrete) subject length.


def leading_flags(pattern):
    """a leading flag group `(?x)`, `(?i)`, `(?xi)` … → (flags, length of the group)"""
    import re as _re
    mo = _re.match(r"\(\?([xi]+)\)", pattern)
    return (mo.group(1), mo.end()) if mo else ("", 0)


def fold_case(node):
    """case-insensitive matching (flag i): every literal / class also matches the simple case variants of its characters (incl. the two
    non-ASCII characters that fold to ASCII letters: U+017F → s, U+212A → k)"""
    def variants(c):
        ch = chr(c)
        out = {c, ord(ch.lower()) if len(ch.lower()) == 1 else c, ord(ch.upper()) if len(ch.upper()) == 1 else c}
        if ch in "sS":
            out.add(0x17F)
        if ch in "kK":
            out.add(0x212A)
        if c == 0x17F:
            out |= {ord("s"), ord("S")}
        if c == 0x212A:
            out |= {ord("k"), ord("K")}
        return sorted(out)
    if node.kind == "lit":
        vs = variants(node.a[0])
        return node if len(vs) == 1 else P("set", [(v, v) for v in vs], False)
    if node.kind == "set":
        ranges, neg = node.a
        extra = []
        for lo, hi in ranges:
            if hi - lo > 512:
                continue
            for c in range(lo, hi + 1):
                extra += [(v, v) for v in variants(c) if not any(l <= v <= h for l, h in ranges)]
        return P("set", list(ranges) + extra, neg)
    return P(node.kind, *[([fold_case(x) if isinstance(x, P) else x for x in a] if isinstance(a, list) else (fold_case(a) if isinstance(a, P) else a)) for a in node.a])


def strip_verbose(pattern):
    """(?x): drop unescaped whitespace and #-comments (a leading flag group is removed; see leading_flags for `i`)"""
    flags, skip = leading_flags(pattern)
    if "x" not in flags:
        return pattern[skip:]
    out = ""
    i = skip
    in_class = False
    while i < len(pattern):
        c = pattern[i]
        if c == "\\" and i + 1 < len(pattern):
            out += pattern[i:i + 2]
            i += 2
            continue
        if c == "[":
            in_class = True
        elif c == "]":
            in_class = False
        if not in_class and c in " \t\r\n":
            i += 1
            continue
        if not in_class and c == "#":
            while i < len(pattern) and pattern[i] != "\n":
                i += 1
            continue
        out += c
        i += 1
    return out


def parse_captures(pattern):
    """like parse(), but numbers capture groups and records laziness: nodes P('cap', idx, inner), P('star', inner, lazy)…"""
    ci = "i" in leading_flags(pattern)[0]
    pattern = strip_verbose(pattern)
    pos = 0
    n = len(pattern)
    counter = [0]

    def peek():
        return pattern[pos] if pos < n else None

    def alt():
        nonlocal pos
        branches = [concat()]
        while peek() == "|":
            pos += 1
            branches.append(concat())
        return branches[0] if len(branches) == 1 else P("alt", branches)

    def concat():
        items = []
        while pos < n and peek() not in "|)":
            items.append(repeat())
        return P("cat", items)

    def repeat():
        nonlocal pos
        a = atom()
        while peek() in ("*", "+", "?"):
            op = peek()
            pos += 1
            lazy = False
            if peek() == "?":
                pos += 1
                lazy = True
            a = P({"*": "star", "+": "plus", "?": "opt"}[op], a, lazy)
        if peek() == "{":
            raise Unsupported("counted repetition in regex")
        return a

    def atom():
        nonlocal pos
        c = peek()
        if c == "(":
            pos += 1
            if pattern.startswith("?:", pos):
                pos += 2
                inner = alt()
                if peek() != ")":
                    raise Unsupported("unbalanced group")
                pos += 1
                return P("group", inner)
            if peek() == "?":
                raise Unsupported("regex group flags")
            counter[0] += 1
            idx = counter[0]
            inner = alt()
            if peek() != ")":
                raise Unsupported("unbalanced group")
            pos += 1
            return P("cap", idx, inner)
        # reuse the simple atom parser for everything else
        sub = _atom_text()
        return parse(sub)

    def _atom_text():
        nonlocal pos
        c = peek()
        start = pos
        if c == "[":
            j = pos + 1
            if j < n and pattern[j] == "^":
                j += 1
            if j < n and pattern[j] == "]":
                j += 1
            while j < n and pattern[j] != "]":
                j += 2 if pattern[j] == "\\" else 1
            pos = j + 1
        elif c == "\\":
            pos += 2
        else:
            pos += 1
        return pattern[start:pos]
    tree = alt()
    if pos != n:
        raise Unsupported("regex not fully parsed: %r at %d" % (pattern, pos))
    if ci:
        tree = fold_case(tree)
    return tree, counter[0]


def _walk(node, chars, i, caps, cond, k):
    """generator of (pos, caps, cond) in priority order; k = continuation is applied by the caller"""
    n = len(chars)
    kind = node.kind
    if kind in ("lit", "any", "set", "bol", "eol", "uletter"):
        for j, c in ends(node, chars, i, cond).items():
            if c is not False:
                yield j, caps, c
        return
    if kind == "group":
        yield from _walk(node.a[0], chars, i, caps, cond, k)
        return
    if kind == "cap":
        idx, inner = node.a
        for j, caps2, c in _walk(inner, chars, i, caps, cond, k):
            caps3 = dict(caps2)
            caps3[idx] = (i, j)
            yield j, caps3, c
        return
    if kind == "cat":
        def rec(items, pos_, caps_, cond_):
            if not items:
                yield pos_, caps_, cond_
                return
            for j, c2, cc in _walk(items[0], chars, pos_, caps_, cond_, k):
                yield from rec(items[1:], j, c2, cc)
        yield from rec(list(node.a[0]), i, caps, cond)
        return
    if kind == "alt":
        for br in node.a[0]:
            yield from _walk(br, chars, i, caps, cond, k)
        return
    if kind == "opt":
        inner, lazy = node.a[0], (node.a[1] if len(node.a) > 1 else False)
        if lazy:
            yield i, caps, cond
            yield from _walk(inner, chars, i, caps, cond, k)
        else:
            yield from _walk(inner, chars, i, caps, cond, k)
            yield i, caps, cond
        return
    if kind in ("star", "plus"):
        inner, lazy = node.a[0], (node.a[1] if len(node.a) > 1 else False)

        def rep(pos_, caps_, cond_, count):
            can_stop = count >= (1 if kind == "plus" else 0)
            if lazy and can_stop:
                yield pos_, caps_, cond_
            for j, c2, cc in _walk(inner, chars, pos_, caps_, cond_, k):
                if j == pos_:
                    continue
                yield from rep(j, c2, cc, count + 1)
            if not lazy and can_stop:
                yield pos_, caps_, cond_
        yield from rep(i, caps, cond, 0)
        return
    raise Unsupported("regex node %s" % kind)


def shapes(pattern, chars, anchored_start=True):
    """all matches starting at position 0 (the expectation regex is ^-anchored) in priority order"""
    tree, ngroups = parse_captures(pattern) if isinstance(pattern, str) else pattern
    for j, caps, cond in _walk(tree, chars, 0, {}, True, None):
        yield cond, caps, ngroups
