"""A small regular-expression semantics over *symbolic* lines.

The pattern is concrete text (as produced by the real code under symbolic execution), the subject is
a list of symbolic chars of concrete length.  `search(pattern, chars)` returns a z3 Bool (or python
bool) that is true iff the `regex` crate's unanchored `is_match` would succeed — for the supported
syntax: literals, escapes, `.`, classes `[...]`, groups `( )` `(?: )`, alternation, `* + ?` (greedy or
lazy — irrelevant for `is_match`), anchors `^ $`.  Anything else raises `Unsupported`.
It is part of the trusted base and is validated on every run against the real `regex` crate through
`verif-native eval rule_matches` on concrete samples."""
import z3

from mir_exec import SInt, Unsupported
from mir_models import char_eq, in_ranges, z_and, z_not, z_or


class P:
    def __init__(self, kind, *a):
        self.kind = kind
        self.a = a

    def __repr__(self):
        return "%s%s" % (self.kind, self.a)


SPECIAL = set("\\.+*?()|[]{}^$")


def parse(pattern):
    pos = 0
    n = len(pattern)

    def peek():
        return pattern[pos] if pos < n else None

    def alt():
        nonlocal pos
        branches = [concat()]
        while peek() == "|":
            pos += 1
            branches.append(concat())
        return branches[0] if len(branches) == 1 else P("alt", branches)

    def concat():
        items = []
        while pos < n and peek() not in "|)":
            items.append(repeat())
        return P("cat", items)

    def repeat():
        nonlocal pos
        atom_ = atom()
        while peek() in ("*", "+", "?"):
            op = peek()
            pos += 1
            if peek() == "?":
                pos += 1  # lazy: same language
            atom_ = P({"*": "star", "+": "plus", "?": "opt"}[op], atom_)
        if peek() == "{":
            raise Unsupported("counted repetition in regex")
        return atom_

    def atom():
        nonlocal pos
        c = peek()
        if c == "(":
            pos += 1
            if pattern.startswith("?:", pos):
                pos += 2
            elif peek() == "?":
                raise Unsupported("regex group flags")
            inner = alt()
            if peek() != ")":
                raise Unsupported("unbalanced group in regex")
            pos += 1
            return P("group", inner)
        if c == "[":
            return klass()
        if c == ".":
            pos += 1
            return P("any")
        if c == "^":
            pos += 1
            return P("bol")
        if c == "$":
            pos += 1
            return P("eol")
        if c == "\\":
            pos += 1
            e = peek()
            pos += 1
            if e is None:
                raise Unsupported("trailing backslash in regex")
            if e in SPECIAL or e in "-/ #&~\"'`<>=!@%,:;_":
                return P("lit", ord(e))
            m = {"n": 10, "t": 9, "r": 13, "f": 12, "v": 11, "a": 7, "0": 0}
            if e in m:
                return P("lit", m[e])
            if e == "d":
                return P("set", [(48, 57)], False)
            if e == "s":
                return P("set", [(9, 13), (32, 32)], False)
            if e == "w":
                return P("set", [(48, 57), (65, 90), (95, 95), (97, 122)], False)
            raise Unsupported("regex escape \\%s" % e)
        if c in "*+?{":
            raise Unsupported("dangling quantifier in regex")
        pos += 1
        return P("lit", ord(c))

    def klass():
        nonlocal pos
        pos += 1
        neg = False
        if peek() == "^":
            neg = True
            pos += 1
        ranges = []
        first = True
        while True:
            c = peek()
            if c is None:
                raise Unsupported("unterminated class")
            if c == "]" and not first:
                pos += 1
                break
            first = False
            if c == "[":
                raise Unsupported("nested class")
            if c == "\\":
                pos += 1
                c = peek()
            pos += 1
            lo = ord(c)
            if peek() == "-" and pos + 1 < n and pattern[pos + 1] != "]":
                pos += 1
                hi = peek()
                if hi == "\\":
                    pos += 1
                    hi = peek()
                pos += 1
                ranges.append((lo, ord(hi)))
            else:
                ranges.append((lo, lo))
        return P("set", ranges, neg)
    tree = alt()
    if pos != n:
        raise Unsupported("regex not fully parsed: %r at %d" % (pattern, pos))
    return tree


def _merge(d, j, cond):
    if cond is False:
        return
    if j in d:
        d[j] = z_or([d[j], cond])
    else:
        d[j] = cond


def ends(node, chars, i, cond):
    """positions reachable after matching node starting at i under cond → {j: cond_j}"""
    n = len(chars)
    k = node.kind
    out = {}
    if k == "lit":
        if i < n:
            _merge(out, i + 1, z_and([cond, char_eq(chars[i], SInt(node.a[0], chars[i].ty))]))
        return out
    if k == "any":
        if i < n:
            _merge(out, i + 1, z_and([cond, z_not(char_eq(chars[i], SInt(10, chars[i].ty)))]))
        return out
    if k == "set":
        if i < n:
            c = in_ranges(chars[i], node.a[0])
            _merge(out, i + 1, z_and([cond, z_not(c) if node.a[1] else c]))
        return out
    if k == "bol":
        if i == 0:
            out[i] = cond
        return out
    if k == "eol":
        if i == n:
            out[i] = cond
        return out
    if k == "group":
        return ends(node.a[0], chars, i, cond)
    if k == "cat":
        cur = {i: cond}
        for item in node.a[0]:
            nxt = {}
            for p, c in cur.items():
                for j, cj in ends(item, chars, p, c).items():
                    _merge(nxt, j, cj)
            cur = nxt
            if not cur:
                break
        return cur
    if k == "alt":
        for br in node.a[0]:
            for j, cj in ends(br, chars, i, cond).items():
                _merge(out, j, cj)
        return out
    if k == "opt":
        out[i] = cond
        for j, cj in ends(node.a[0], chars, i, cond).items():
            _merge(out, j, cj)
        return out
    if k in ("star", "plus"):
        reach = {}
        frontier = {i: cond}
        if k == "star":
            reach[i] = cond
        seen_rounds = 0
        while frontier and seen_rounds <= n + 1:
            nxt = {}
            for p, c in frontier.items():
                for j, cj in ends(node.a[0], chars, p, c).items():
                    if j == p:
                        continue  # empty iteration adds nothing
                    _merge(nxt, j, cj)
            for j, cj in nxt.items():
                _merge(reach, j, cj)
            frontier = nxt
            seen_rounds += 1
        if k == "plus":
            # one iteration may also be empty-width (e.g. (a?)+): covered by reach of first round only if consumed;
            for j, cj in ends(node.a[0], chars, i, cond).items():
                _merge(reach, j, cj)
        return reach
    raise Unsupported("regex node %s" % k)


def search(pattern, chars):
    """unanchored is_match"""
    tree = parse(pattern) if isinstance(pattern, str) else pattern
    alts = []
    for start in range(len(chars) + 1):
        for _j, c in ends(tree, chars, start, True).items():
            alts.append(c)
    return z_or(alts)


def fullmatch(pattern, chars):
    tree = parse(pattern) if isinstance(pattern, str) else pattern
    return ends(tree, chars, 0, True).get(len(chars), False)
