"""E2 — bounded symbolic execution of rustc MIR (text dump) with z3.

Shapes are concrete, contents are symbolic: strings / byte slices given to a function have a
concrete number of elements (and, for `str`, a concrete UTF-8 width per char) chosen by the harness,
while every element is a free bit-vector.  Execution is path-wise (DART style: a path is re-executed
from the start under a recorded decision prefix; at every new symbolic branch both sides are checked
for feasibility with z3 under the current path condition).  Calls into functions of the dump are
interpreted; calls into std are answered by the contract models in `mir_models.py` (trusted, listed
in the evidence, validated against the native code on concrete inputs).  Anything else raises
`Unsupported` and the sub-claim is reported undecided — never passed.
"""
import re

import z3

from mir_parse import Place, parse_mir, unescape_rust


class Unsupported(Exception):
    pass


class Panic(Exception):
    """the interpreted program panics on this path"""


class Infeasible(Exception):
    """path condition became unsatisfiable (only raised by assume)"""


class BoundExceeded(Exception):
    pass


INT_BITS = {"u8": 8, "i8": 8, "u16": 16, "i16": 16, "u32": 32, "i32": 32, "char": 32, "u64": 64, "i64": 64,
            "usize": 64, "isize": 64, "u128": 128, "i128": 128}
SIGNED = {"i8", "i16", "i32", "i64", "isize", "i128"}


class SInt:
    """integer / char value: v is a python int (concrete, already wrapped to the type) or a z3 BitVecRef"""
    __slots__ = ("v", "ty", "width")

    def __init__(self, v, ty, width=None):
        self.v = v
        self.ty = ty
        self.width = width  # UTF-8 width for symbolic chars (concrete shape)

    @property
    def concrete(self):
        return isinstance(self.v, int)

    def z(self):
        if isinstance(self.v, int):
            if self.ty == "nat":
                return z3.IntVal(self.v)
            return z3.BitVecVal(self.v, INT_BITS[self.ty])
        return self.v

    def __repr__(self):
        return "SInt(%s:%s)" % (self.v, self.ty)


class SBool:
    __slots__ = ("v",)

    def __init__(self, v):
        self.v = v  # python bool or z3 BoolRef

    @property
    def concrete(self):
        return isinstance(self.v, bool)

    def z(self):
        return z3.BoolVal(self.v) if isinstance(self.v, bool) else self.v

    def __repr__(self):
        return "SBool(%s)" % (self.v,)


def mk_int(v, ty):
    if ty == "nat":
        # mathematical integer (used for durations / instants: never touched by MIR arithmetic)
        if isinstance(v, int):
            return SInt(v, ty)
        v = z3.simplify(v)
        if z3.is_int_value(v):
            return SInt(v.as_long(), ty)
        return SInt(v, ty)
    if isinstance(v, int):
        bits = INT_BITS[ty]
        v &= (1 << bits) - 1
        return SInt(v, ty)
    v = z3.simplify(v)
    if z3.is_bv_value(v):
        return SInt(v.as_long(), ty)
    return SInt(v, ty)


def mk_bool(v):
    if isinstance(v, bool):
        return SBool(v)
    v = z3.simplify(v)
    if z3.is_true(v):
        return SBool(True)
    if z3.is_false(v):
        return SBool(False)
    return SBool(v)


def to_signed(v, bits):
    return v - (1 << bits) if v >> (bits - 1) else v


class Str:
    """&str value (fat pointer, immutable): tuple of char SInts"""
    __slots__ = ("chars",)

    def __init__(self, chars):
        self.chars = tuple(chars)

    def __repr__(self):
        return "Str(%s)" % show_chars(self.chars)


def show_chars(chars):
    out = ""
    for c in chars:
        if c.concrete:
            out += chr(c.v) if 0x20 <= c.v < 0x7f else "\\u{%x}" % c.v
        else:
            out += "<%s>" % c.v
    return '"%s"' % out


class Slice:
    """&[T] / [T; N] value: tuple of values"""
    __slots__ = ("items", "elem")

    def __init__(self, items, elem=None):
        self.items = tuple(items)
        self.elem = elem

    def __repr__(self):
        return "Slice(%s)" % (list(self.items),)


class VecBuf:
    """Vec<T> (owned, mutable)"""

    def __init__(self, items=None, elem=None):
        self.items = list(items or [])
        self.elem = elem

    def __repr__(self):
        return "Vec(%s)" % (self.items,)


class StringBuf:
    """String (owned, mutable): list of char SInts"""

    def __init__(self, chars=None):
        self.chars = list(chars or [])

    def __repr__(self):
        return "String(%s)" % show_chars(self.chars)


class Agg:
    """struct / tuple / enum variant / closure value"""
    __slots__ = ("ty", "variant", "fields")

    def __init__(self, ty, variant, fields):
        self.ty = ty
        self.variant = variant
        self.fields = list(fields)

    def __repr__(self):
        return "%s%s%s" % (self.ty or "", "::" + self.variant if self.variant else "", tuple(self.fields))


class SymOpt(Agg):
    """Option<T> whose presence is symbolic: `present` is an SBool, fields[0] the payload (meaningful when present)"""
    __slots__ = ("present",)

    def __init__(self, present, value):
        Agg.__init__(self, "Option", None, [value])
        self.present = present

    def __repr__(self):
        return "SymOpt(%s, %r)" % (self.present, self.fields[0])


class MapBuf:
    """BTreeMap / HashMap with few entries: list of [key, value]; keys pairwise distinct"""

    def __init__(self, entries=None):
        self.entries = [list(e) for e in (entries or [])]

    def __repr__(self):
        return "Map(%s)" % (self.entries,)


class Opaque:
    """a value the executor knows nothing about (result of a havoc'd call, an error object, ...)"""

    def __init__(self, what, payload=None):
        self.what = what
        self.payload = payload

    def __repr__(self):
        return "Opaque(%s)" % self.what


class FnItem:
    def __init__(self, name):
        self.name = name

    def __repr__(self):
        return "FnItem(%s)" % self.name


class Unit:
    def __repr__(self):
        return "()"


UNIT = Unit()


class Cell:
    __slots__ = ("v",)

    def __init__(self, v=None):
        self.v = v


class Loc:
    """an addressable location: get()/set()"""

    def __init__(self, getter, setter, desc=""):
        self.get = getter
        self.set = setter
        self.desc = desc


class Ref:
    __slots__ = ("loc", "mut")

    def __init__(self, loc, mut=False):
        self.loc = loc
        self.mut = mut

    def __repr__(self):
        return "&%s" % (self.loc.get(),)


def cell_loc(cell):
    def setter(v):
        cell.v = v
    return Loc(lambda: cell.v, setter, "cell")


def new_ref(value, mut=False):
    c = Cell(value)
    return Ref(cell_loc(c), mut)


def clone_value(v):
    """copy/move of a value: aggregates are copied structurally so later field writes do not alias"""
    if isinstance(v, SymOpt):
        return SymOpt(v.present, clone_value(v.fields[0]))
    if isinstance(v, Agg):
        return Agg(v.ty, v.variant, [clone_value(f) for f in v.fields])
    return v


def deep_clone(v):
    """Clone::clone semantics for owned data"""
    if isinstance(v, SymOpt):
        return SymOpt(v.present, deep_clone(v.fields[0]))
    if isinstance(v, MapBuf):
        return MapBuf([[deep_clone(k), deep_clone(x)] for k, x in v.entries])
    if isinstance(v, Agg):
        return Agg(v.ty, v.variant, [deep_clone(f) for f in v.fields])
    if isinstance(v, VecBuf):
        return VecBuf([deep_clone(x) for x in v.items], v.elem)
    if isinstance(v, StringBuf):
        return StringBuf(list(v.chars))
    return v


# enum variant orders: std ones; crate enums are added from the source by `load_enums`
ENUMS = {
    "Option": ["None", "Some"],
    "Result": ["Ok", "Err"],
    "ControlFlow": ["Continue", "Break"],
    "Cow": ["Borrowed", "Owned"],
    "Ordering": ["Less", "Equal", "Greater"],
    "Bound": ["Included", "Excluded", "Unbounded"],
}
ENUM_DISCR = {"Ordering": {"Less": -1, "Equal": 0, "Greater": 1}}


def load_enums(src_root):
    """variant order of the crate's own enums, read from the source tree"""
    import os
    pat = re.compile(r"\benum\s+([A-Za-z_][A-Za-z0-9_]*)\s*(?:<[^>{]*>)?\s*\{", re.S)
    for root, _d, files in os.walk(src_root):
        for f in files:
            if not f.endswith(".rs"):
                continue
            text = open(os.path.join(root, f)).read()
            text = re.sub(r"//[^\n]*", "", text)
            for mo in pat.finditer(text):
                name = mo.group(1)
                i = mo.end()
                depth = 1
                j = i
                while j < len(text) and depth:
                    if text[j] in "{([":
                        depth += 1
                    elif text[j] in "})]":
                        depth -= 1
                    j += 1
                body = text[i:j - 1]
                variants = []
                d = 0
                cur = ""
                for ch in body:
                    if ch in "{([<":
                        d += 1
                    elif ch in "})]>":
                        d -= 1
                    if ch == "," and d == 0:
                        variants.append(cur)
                        cur = ""
                    else:
                        cur += ch
                variants.append(cur)
                names = []
                for v in variants:
                    v = re.sub(r"#\[[^\]]*\]", "", v).strip()
                    mo2 = re.match(r"([A-Za-z_][A-Za-z0-9_]*)", v)
                    if mo2:
                        names.append(mo2.group(1))
                if names and name not in ENUMS:
                    ENUMS[name] = names


STRUCTS = {}


def load_structs(src_root):
    """field order of the crate's own named-field structs, read from the source tree"""
    import os
    pat = re.compile(r"\bstruct\s+([A-Za-z_][A-Za-z0-9_]*)\s*(?:<[^>{]*>)?\s*\{", re.S)
    for root, _d, files in os.walk(src_root):
        for f in files:
            if not f.endswith(".rs"):
                continue
            text = open(os.path.join(root, f)).read()
            text = re.sub(r"//[^\n]*", "", text)
            text = re.sub(r'"(?:[^"\\\n]|\\.)*"', '""', text)
            for mo in pat.finditer(text):
                name = mo.group(1)
                i = mo.end()
                depth = 1
                j = i
                while j < len(text) and depth:
                    if text[j] in "{([":
                        depth += 1
                    elif text[j] in "})]":
                        depth -= 1
                    j += 1
                body = text[i:j - 1]
                body = re.sub(r"#\[[^\]]*\]", "", body)   # attributes (no nested brackets expected)
                fields = []
                d = 0
                cur = ""
                for ch in body:
                    if ch in "{([<":
                        d += 1
                    elif ch in "})]>":
                        d -= 1
                    if ch == "," and d == 0:
                        fields.append(cur)
                        cur = ""
                    else:
                        cur += ch
                fields.append(cur)
                names = []
                for fld in fields:
                    m2 = re.match(r"\s*(?:pub(?:\([^)]*\))?\s+)?([a-z_][A-Za-z0-9_]*)\s*:", fld.strip())
                    if m2:
                        names.append(m2.group(1))
                if names and name not in STRUCTS:
                    STRUCTS[name] = names


def mk_struct(name, **fields):
    order = STRUCTS[name]
    missing = [f for f in order if f not in fields]
    extra = [f for f in fields if f not in order]
    if missing or extra:
        raise Unsupported("struct %s: missing fields %s, unknown fields %s" % (name, missing, extra))
    return Agg(name, None, [fields[f] for f in order])


def field_of(agg, name):
    return agg.fields[STRUCTS[agg.ty].index(name)]


def strip_generics(path):
    """`std::option::Option::<usize>::Some` → ['std','option','Option','Some']"""
    out = ""
    depth = 0
    i = 0
    while i < len(path):
        c = path[i]
        if c == "<":
            depth += 1
        elif c == ">":
            depth -= 1
        elif depth == 0:
            out += c
        i += 1
    return [p for p in out.split("::") if p]


def strip_angle(text):
    """drop a leading <...> group"""
    depth = 0
    for i, c in enumerate(text):
        if c == "<":
            depth += 1
        elif c == ">":
            depth -= 1
            if depth == 0:
                return text[i + 1:]
    return text


def norm_ty(ty):
    """type text without lifetimes / module paths / whitespace: `&'a crate::output::OutputStream` → `&OutputStream`"""
    ty = re.sub(r"'[a-z_][a-z0-9_]*\s*", "", ty)
    ty = re.sub(r"\b(?:[a-z_][a-z0-9_]*::)+", "", ty)
    return re.sub(r"\s+", "", ty)


def base_name(ty):
    """`&'a mut foo::Bar<T>` → `Bar`"""
    ty = ty.strip()
    ty = re.sub(r"^&\s*('[a-z_]+\s+)?(mut\s+)?", "", ty)
    segs = strip_generics(ty)
    return segs[-1].strip() if segs else ty


def variant_index(enum, variant):
    if enum in ENUM_DISCR:
        return ENUM_DISCR[enum][variant]
    return ENUMS[enum].index(variant)


UNIT_STRUCTS = {"RangeFull", "PhantomData"}


def box_ref(b):
    """the reference inside a Box value (Box → Unique → NonNull, modelled as Agg("Box", [Agg("Unique", [Ref])]))"""
    inner = b.fields[0]
    if isinstance(inner, Agg) and inner.ty == "Unique":
        inner = inner.fields[0]
    return inner


def mk_box(value):
    return Agg("Box", None, [Agg("Unique", None, [new_ref(value, True)])])


class Frame:
    def __init__(self, func):
        self.func = func
        self.cells = {}

    def cell(self, n):
        c = self.cells.get(n)
        if c is None:
            c = self.cells[n] = Cell(None)
        return c


class Program:
    def __init__(self, mir_text, src_root=None):
        self.funcs = parse_mir(mir_text)
        self.closures = {}
        for name, f in self.funcs.items():
            if name == "__errors__":
                continue
            if "{closure#" in name and f.params:
                ty = f.params[0][1]
                mo = re.search(r"\{closure@[^}]*\}", ty)
                if mo:
                    self.closures[mo.group(0)] = name
        self.impl_index = {}
        self.impl_index_full = {}
        self.repair_closure_aggregates()
        if src_root:
            load_enums(src_root)
            load_structs(src_root)
            self.build_impl_index(src_root)

    def repair_closure_aggregates(self):
        """rustc prints a closure aggregate by zipping the captured *variables'* names with the capture operands; when one variable
        is captured through several disjoint places (`test.path`, `test.parser_type`) there are more operands than names and the
        last operands are not printed.  The closure body says how many captures there are (highest field of `_1` it reads); the
        missing operands are the temporaries assigned right before the aggregate, numbered after the last printed one."""
        def places(x, out):
            if isinstance(x, Place):
                out.append(x)
            elif isinstance(x, (tuple, list)):
                for y in x:
                    places(y, out)
            return out

        def captures(f):
            n = 0
            for stmts in f.blocks.values():
                for pl in places(stmts, []):
                    if pl.local == 1:
                        proj = [q for q in pl.proj if q[0] != "deref"][:1] if pl.proj and pl.proj[0][0] == "deref" else pl.proj[:1]
                        if proj and proj[0][0] == "field":
                            n = max(n, proj[0][1] + 1)
            return n
        for name, f in self.funcs.items():
            if name == "__errors__" or not hasattr(f, "blocks"):
                continue
            for stmts in f.blocks.values():
                for si, st in enumerate(stmts):
                    if st[0] != "assign" or st[2][0] != "agg" or st[2][1] != "closure":
                        continue
                    body = self.funcs.get(self.closures.get(st[2][2], ""))
                    fields = st[2][3]
                    if body is None or not fields:
                        continue
                    want = captures(body)
                    last = fields[-1][1]
                    while len(fields) < want:
                        if last[0] not in ("move", "copy") or last[1].proj:
                            break
                        nxt_local = last[1].local + 1
                        assigned = any(s2[0] == "assign" and s2[1].local == nxt_local and not s2[1].proj for s2 in stmts[:si])
                        used_later = any(pl.local == nxt_local for s2 in stmts[si:] for pl in places(s2, []))
                        if not assigned or used_later:
                            break
                        last = ("move", Place(nxt_local, []))
                        fields.append(("<unprinted capture>", last))

    def build_impl_index(self, src_root):
        """call sites name impl methods `Type::m` / `<Type as Trait>::m`, definitions are printed as
        `<impl at file:line:col: line:col>::m` — recover (trait, type) of each impl block from the source"""
        import os
        cache = {}
        repo_root = os.path.dirname(src_root.rstrip("/"))
        rx = re.compile(r"<impl at ([^:>]+):(\d+):(\d+): (\d+):(\d+)>::([A-Za-z_][A-Za-z0-9_]*)$")
        for name in self.funcs:
            mo = rx.search(name)
            if not mo:
                continue
            path, l1, c1, l2, c2, method = mo.group(1), int(mo.group(2)), int(mo.group(3)), int(mo.group(4)), int(mo.group(5)), mo.group(6)
            full = path if os.path.isabs(path) else os.path.join(repo_root, path)
            if full not in cache:
                try:
                    cache[full] = open(full).read().split("\n")
                except OSError:
                    cache[full] = None
            lines = cache[full]
            if lines is None or l1 > len(lines):
                continue
            if l1 == l2:
                text = lines[l1 - 1][c1 - 1:c2 - 1]
            else:
                text = lines[l1 - 1][c1 - 1:] + " " + " ".join(lines[l1:l2 - 1]) + " " + lines[l2 - 1][:c2 - 1]
            trait = ty = None
            if text.startswith("impl"):
                body = strip_angle(text[4:]).strip() if text[4:5] == "<" else text[4:].strip()
                body = body.split("{")[0].split(" where ")[0].strip()
                if " for " in body:
                    t, y = body.split(" for ", 1)
                    trait, ty = base_name(t), base_name(y)
                    targs = t[t.index("<") + 1:t.rindex(">")] if "<" in t else ""
                    self.impl_index_full.setdefault((trait, norm_ty(targs), norm_ty(y), method), []).append(name)
                else:
                    ty = base_name(body)
            else:
                trait = base_name(text)
                for k in range(l1 - 1, min(len(lines), l1 + 40)):
                    m2 = re.search(r"\b(?:struct|enum)\s+([A-Za-z_][A-Za-z0-9_]*)", lines[k])
                    if m2:
                        ty = m2.group(1)
                        break
            if ty:
                self.impl_index.setdefault((trait, ty, method), []).append(name)

    def resolve_call(self, fname):
        """definition for a call-site name of an impl method, or None"""
        name = re.sub(r"'[a-z_][a-z0-9_]*\b(?!')", "", fname)
        mo = re.match(r"<(.+) as (.+)>::([A-Za-z_][A-Za-z0-9_]*)(::<.*>)?$", name)
        if mo:
            selfty, trait, method = mo.group(1), mo.group(2), mo.group(3)
            targs = trait[trait.index("<") + 1:trait.rindex(">")] if "<" in trait else ""
            full = self.impl_index_full.get((base_name(trait), norm_ty(targs), norm_ty(selfty), method))
            if full and len(full) == 1:
                return full[0]
            if base_name(trait) == "Into" and method == "into":
                full = self.impl_index_full.get(("From", norm_ty(selfty), norm_ty(targs), "from"))
                if full and len(full) == 1:
                    return full[0]
            if targs:
                # `<PathBuf as From<&PathBuf>>::from` must not land in the crate's only `impl From<&EnvironmentDirectory> for PathBuf`:
                # an impl whose (non-generic) trait arguments are known and differ is not the callee
                cands = [k for k in self.impl_index_full if k[0] == base_name(trait) and k[2] == norm_ty(selfty) and k[3] == method]
                if cands and all(k[1] and k[1] != norm_ty(targs) and not re.search(r"\b[A-Z]\b", k[1]) for k in cands):
                    return None
            key = (base_name(mo.group(2)), base_name(mo.group(1)), mo.group(3))
        else:
            mo2 = re.search(r"<impl ([A-Za-z_][A-Za-z0-9_:]*)(?:<.*>)?>::([A-Za-z_][A-Za-z0-9_]*)$", name)
            if mo2:
                key = (None, mo2.group(1).split("::")[-1], mo2.group(2))
            else:
                segs = strip_generics(name)
                if len(segs) < 2:
                    return None
                key = (None, segs[-2], segs[-1])
        hits = self.impl_index.get(key)
        if hits and len(hits) == 1:
            return hits[0]
        return None

    def find(self, suffix):
        """unique function whose name ends with the suffix"""
        hits = [n for n in self.funcs if n == suffix or n.endswith("::" + suffix) or suffix.endswith("::" + n)]
        if len(hits) != 1:
            alt = self.resolve_call(suffix) if not hits else None
            if alt is not None:
                return alt
            raise Unsupported("function %r: %d candidates %s" % (suffix, len(hits), hits[:5]))
        return hits[0]


def find_method(prog, file_part, method):
    """unique `<impl at ..file_part..>::method` (line numbers of the impl block are not part of the key)"""
    rx = re.compile(r"<impl at [^>]*%s[^>]*>::%s$" % (re.escape(file_part), re.escape(method)))
    hits = [n for n in prog.funcs if rx.search(n)]
    if len(hits) != 1:
        raise Unsupported("method %s in %s: %d candidates %s" % (method, file_part, len(hits), hits[:4]))
    return hits[0]


class PathResult:
    def __init__(self, kind, value, pc, decisions, info=None):
        self.kind = kind          # 'return' | 'panic' | 'unsupported' | 'bound'
        self.value = value
        self.pc = pc              # list of z3 Bool
        self.decisions = decisions
        self.info = info


class Executor:
    """explores all paths of one call; `setup(ctx)` builds the (symbolic) arguments for each path"""

    def __init__(self, program, models, max_steps=200000, max_paths=200000):
        self.program = program
        self.models = models
        self.max_steps = max_steps
        self.max_paths = max_paths
        self.solver = z3.Solver()
        self.stats = {"paths": 0, "feasibility_checks": 0, "solver_s": 0.0, "steps": 0}

    def explore(self, fname, setup, on_path=None):
        """setup(ctx) -> list of argument values; yields PathResult per path"""
        work = [[]]
        results = []
        while work:
            prefix = work.pop()
            ctx = Ctx(self, prefix)
            self.solver.push()
            try:
                try:
                    args = setup(ctx)
                    val = fname(ctx, args) if callable(fname) else ctx.call(fname, args)
                    res = PathResult("return", val, list(ctx.pc), list(ctx.trace))
                except Panic as e:
                    res = PathResult("panic", None, list(ctx.pc), list(ctx.trace), str(e))
                except Unsupported as e:
                    res = PathResult("unsupported", None, list(ctx.pc), list(ctx.trace), str(e))
                except BoundExceeded as e:
                    res = PathResult("bound", None, list(ctx.pc), list(ctx.trace), str(e))
                except Infeasible:
                    res = None
                res_ctx = ctx
                if res is not None:
                    res.ctx = res_ctx
                    self.stats["paths"] += 1
                    if on_path:
                        on_path(res)
                    else:
                        results.append(res)
            finally:
                self.solver.pop()
            for alt in ctx.alternatives:
                work.append(alt)
            self.stats["steps"] += ctx.steps
            if self.stats["paths"] > self.max_paths:
                raise BoundExceeded("more than %d paths" % self.max_paths)
        return results


class Ctx:
    def __init__(self, ex, prefix):
        self.ex = ex
        self.program = ex.program
        self.prefix = prefix
        self.trace = []          # decisions taken (option index)
        self.alternatives = []   # prefixes to explore later
        self.pc = []
        self.steps = 0
        self.depth = 0
        self.fresh = 0
        self.const_cache = {}
        self.notes = {}

    # -- symbolic inputs ---------------------------------------------------------------------
    def sym_int(self, name, ty):
        if ty == "nat":
            v = z3.Int(name)
            self.add(v >= 0)
            return SInt(v, ty)
        return SInt(z3.BitVec(name, INT_BITS[ty]), ty)

    def sym_bool(self, name):
        return SBool(z3.Bool(name))

    def sym_char(self, name, width):
        """a symbolic char of the given UTF-8 width (1..4)"""
        v = z3.BitVec(name, 32)
        lo, hi = {1: (0, 0x7f), 2: (0x80, 0x7ff), 3: (0x800, 0xffff), 4: (0x10000, 0x10ffff)}[width]
        self.add(z3.And(z3.UGE(v, lo), z3.ULE(v, hi)))
        if width == 3:
            self.add(z3.Or(z3.ULT(v, 0xd800), z3.UGT(v, 0xdfff)))
        return SInt(v, "char", width)

    def sym_str(self, name, widths):
        return Str([self.sym_char("%s_%d" % (name, i), w) for i, w in enumerate(widths)])

    def sym_bytes(self, name, n):
        return Slice([self.sym_int("%s_%d" % (name, i), "u8") for i in range(n)], "u8")

    # -- path condition ----------------------------------------------------------------------
    def add(self, cond):
        self.pc.append(cond)
        self.ex.solver.add(cond)

    def assume(self, cond):
        if isinstance(cond, bool):
            if not cond:
                raise Infeasible()
            return
        self.add(cond)
        if self._check() != z3.sat:
            raise Infeasible()

    def _check(self, *assumptions):
        import time
        t0 = time.time()
        r = self.ex.solver.check(*assumptions)
        self.ex.stats["solver_s"] += time.time() - t0
        self.ex.stats["feasibility_checks"] += 1
        if r == z3.unknown:
            raise Unsupported("solver answered unknown on a feasibility check")
        return r

    def choose(self, options):
        """options: list of z3 Bool / python bool constraints (mutually exclusive, jointly exhaustive
        under pc). Returns the index taken on this path."""
        concrete_true = [i for i, c in enumerate(options) if c is True or (not isinstance(c, bool) and z3.is_true(c))]
        if concrete_true:
            return concrete_true[0]
        k = len(self.trace)
        if k < len(self.prefix):
            idx = self.prefix[k]
            self.trace.append(idx)
            c = options[idx]
            if not isinstance(c, bool):
                self.add(c)
            return idx
        feas = []
        for i, c in enumerate(options):
            if isinstance(c, bool):
                if c:
                    feas.append(i)
                continue
            if z3.is_false(c):
                continue
            if self._check(c) == z3.sat:
                feas.append(i)
        if not feas:
            raise Infeasible()
        idx = feas[0]
        for other in feas[1:]:
            self.alternatives.append(self.trace + [other])
        self.trace.append(idx)
        c = options[idx]
        if not isinstance(c, bool):
            self.add(c)
        return idx

    def decide(self, cond):
        """python bool for a (possibly symbolic) condition, forking when both sides are feasible"""
        if isinstance(cond, SBool):
            cond = cond.v
        if isinstance(cond, bool):
            return cond
        cond = z3.simplify(cond)
        if z3.is_true(cond):
            return True
        if z3.is_false(cond):
            return False
        return self.choose([cond, z3.Not(cond)]) == 0

    def concretize_small(self, sint, candidates):
        """fork on sint == c for c in candidates, else 'other' (returns None)"""
        if sint.concrete:
            return sint.v
        opts = [sint.z() == c for c in candidates]
        opts.append(z3.And([sint.z() != c for c in candidates]) if candidates else True)
        i = self.choose(opts)
        return candidates[i] if i < len(candidates) else None

    # -- calls -------------------------------------------------------------------------------
    def call(self, fname, args):
        prog = self.program
        f = prog.funcs.get(fname)
        if f is None and fname.endswith(">"):
            # call of a generic function: `path::name::<Args>` → definition `…name`
            base = fname
            depth = 0
            for i in range(len(fname) - 1, -1, -1):
                if fname[i] == ">":
                    depth += 1
                elif fname[i] == "<":
                    depth -= 1
                    if depth == 0:
                        base = fname[:i]
                        break
            if base.endswith("::"):
                base = base[:-2]
                cands = [n for n in prog.funcs if n == base or n.endswith("::" + base) or base.endswith("::" + n)]
                if len(cands) == 1:
                    fname = cands[0]
                    f = prog.funcs[fname]
        mo_dyn = re.match(r"<(?:Self|dyn ([A-Za-z_][A-Za-z0-9_]*)(?:<.*>)?) as ([A-Za-z_][A-Za-z0-9_:]*)>::([A-Za-z_][A-Za-z0-9_]*)$", fname) if f is None else None
        if mo_dyn and args:
            # dynamic dispatch on the receiver's concrete type
            recv = args[0]
            for _ in range(6):
                if isinstance(recv, Ref):
                    recv = recv.loc.get()
                elif isinstance(recv, Agg) and recv.ty == "Box":
                    recv = box_ref(recv).loc.get()
                else:
                    break
            trait, method = mo_dyn.group(2).split("::")[-1], mo_dyn.group(3)
            if isinstance(recv, Agg) and recv.ty:
                alt = prog.resolve_call("<%s as %s>::%s" % (recv.ty, trait, method))
                if alt is None:
                    cands = [n for n in prog.funcs if n == "%s::%s" % (trait, method) or n.endswith("::%s::%s" % (trait, method))]
                    alt = cands[0] if len(cands) == 1 else None
                if alt is not None:
                    fname = alt
                    f = prog.funcs[alt]
                    a0 = args[0]
                    # hand the method a reference to the concrete value
                    if isinstance(a0, Agg) and a0.ty == "Box":
                        args = [box_ref(a0)] + list(args[1:])
                    elif isinstance(a0, Ref) and isinstance(a0.loc.get(), Agg) and a0.loc.get().ty == "Box":
                        args = [box_ref(a0.loc.get())] + list(args[1:])
        if f is None:
            alt = prog.resolve_call(fname)
            if alt is not None:
                fname = alt
                f = prog.funcs[alt]
        if f is None:
            # a provided (default) method of a crate trait: `<T as Trait>::m` with no `m` in the impl → the trait's own body
            mo_tr = re.match(r"<(.+) as ([A-Za-z_][A-Za-z0-9_:]*)(?:<.*>)?>::([A-Za-z_][A-Za-z0-9_]*)$", fname)
            if mo_tr:
                trait, method = mo_tr.group(2).split("::")[-1], mo_tr.group(3)
                cands = [n for n in prog.funcs if n == "%s::%s" % (trait, method) or n.endswith("::%s::%s" % (trait, method))]
                if len(cands) == 1 and not self.ex.models.has_model(fname):
                    fname = cands[0]
                    f = prog.funcs[fname]
        if f is None:
            return self.ex.models.call(self, fname, args)
        override = self.ex.models.override(fname)
        if override is not None:
            return override(self, fname, args)
        self.depth += 1
        if self.depth > 200:
            raise BoundExceeded("call depth > 200")
        try:
            return self.run(f, args)
        except (Unsupported, Panic) as e:
            if not hasattr(e, "mir_stack"):
                e.mir_stack = []
            if len(e.mir_stack) < 6:
                e.mir_stack.append(fname)        # innermost first: where in the MIR the engine gave up (diagnostics only)
            raise
        finally:
            self.depth -= 1

    def call_callable(self, fobj, args):
        """call a closure value / fn item with python-list args"""
        if isinstance(fobj, Ref):
            fobj = fobj.loc.get()
        if isinstance(fobj, FnItem):
            return self.call(fobj.name, args)
        if isinstance(fobj, Agg) and fobj.ty == "closure":
            name = self.program.closures.get(fobj.variant)
            if name is None:
                raise Unsupported("closure body not found: %s" % fobj.variant)
            f = self.program.funcs[name]
            first_ty = f.params[0][1]
            env = fobj
            if first_ty.startswith("&"):
                env = new_ref(fobj, first_ty.startswith("&mut"))
            return self.call(name, [env] + list(args))
        if callable(fobj):
            return fobj(self, args)
        raise Unsupported("call of %r" % (fobj,))

    # -- interpreter -------------------------------------------------------------------------
    def run(self, f, args):
        fr = Frame(f)
        if len(args) != len(f.params):
            raise Unsupported("arity mismatch calling %s: %d vs %d" % (f.name, len(args), len(f.params)))
        for (n, _ty), a in zip(f.params, args):
            fr.cell(n).v = a
        bb = 0
        while True:
            stmts = f.blocks[bb]
            nxt = None
            for st in stmts:
                self.steps += 1
                if self.steps > self.ex.max_steps:
                    raise BoundExceeded("more than %d steps on one path" % self.ex.max_steps)
                k = st[0]
                if k == "assign":
                    val = self.rvalue(fr, st[2], f.locals.get(st[1].local) if not st[1].proj else None)
                    self.place_loc(fr, st[1]).set(val)
                elif k == "nop" or k == "ConstEvalCounter":
                    pass
                elif k == "call":
                    args2 = [self.operand(fr, a) for a in st[3]]
                    fname = st[2]
                    if fname.startswith(("move _", "copy _")):
                        fobj = self.operand(fr, (fname[:4], __import__("mir_parse").parse_place(fname[5:])))
                        val = self.call_callable(fobj, args2)
                    else:
                        val = self.call(fname, args2)
                    if st[4] is None:
                        raise Panic("diverging call %s returned" % fname)
                    self.place_loc(fr, st[1]).set(val)
                    nxt = st[4]
                elif k == "goto":
                    nxt = st[1]
                elif k == "switch":
                    nxt = self.switch(fr, st)
                elif k == "return":
                    return fr.cell(0).v if fr.cell(0).v is not None else UNIT
                elif k == "assert":
                    cond = self.operand(fr, st[1])
                    ok = self.decide(cond.z() if st[2] else z3.Not(cond.z())) if not cond.concrete else (cond.v == st[2])
                    if not ok:
                        raise Panic("assert failed: %s" % st[3])
                    nxt = st[4]
                elif k == "drop":
                    hook = getattr(self.ex.models, "on_drop", None)
                    if hook is not None:
                        # resource-tracking harnesses (C18): the value that dies here (drop elaboration has already removed the
                        # drops of moved-out places, so every executed drop is the death of a live value)
                        try:
                            v = self.place_loc(fr, st[1]).get()
                        except Unsupported:
                            v = None
                        if v is not None:
                            hook(self, v)
                    nxt = st[2]
                elif k == "unreachable":
                    raise Unsupported("reached `unreachable` in %s bb%d" % (f.name, bb))
                elif k == "setdisc":
                    loc = self.place_loc(fr, st[1])
                    v = loc.get()
                    raise Unsupported("SetDiscriminant")
                elif k == "assume":
                    c = self.operand(fr, st[1])
                    self.assume(c.v if c.concrete else c.z())
                elif k == "resume" or k == "terminate":
                    raise Panic("unwinding")
                else:
                    raise Unsupported("statement %r" % (st,))
            if nxt is None:
                raise Unsupported("block without terminator in %s bb%d" % (f.name, bb))
            bb = nxt

    def switch(self, fr, st):
        v = self.operand(fr, st[1])
        targets, other = st[2], st[3]
        if isinstance(v, SBool):
            if v.concrete:
                key = 1 if v.v else 0
                return targets.get(key, other)
            opts = []
            dests = []
            for key, dest in targets.items():
                opts.append(v.v if key else z3.Not(v.v))
                dests.append(dest)
            if other is not None:
                keys = set(targets)
                rest = [k for k in (0, 1) if k not in keys]
                if rest:
                    opts.append(v.v if rest[0] else z3.Not(v.v))
                    dests.append(other)
            return dests[self.choose(opts)]
        if not isinstance(v, SInt):
            raise Unsupported("switchInt on %r" % (v,))
        bits = INT_BITS[v.ty]
        if v.concrete:
            val = v.v
            for key, dest in targets.items():
                if (key & ((1 << bits) - 1)) == val:
                    return dest
            return other
        opts = []
        dests = []
        for key, dest in targets.items():
            opts.append(v.v == z3.BitVecVal(key, bits))
            dests.append(dest)
        if other is not None:
            opts.append(z3.And([v.v != z3.BitVecVal(key, bits) for key in targets]) if targets else True)
            dests.append(other)
        return dests[self.choose(opts)]

    # -- places ------------------------------------------------------------------------------
    def place_loc(self, fr, place):
        loc = cell_loc(fr.cell(place.local))
        for p in place.proj:
            loc = self.project(loc, p, fr)
        return loc

    def project(self, loc, p, fr):
        kind = p[0]
        if kind == "deref":
            v = loc.get()
            if isinstance(v, Ref):
                return v.loc
            if isinstance(v, (Str, Slice, Opaque)) or v is None:
                return loc  # fat pointers by value: *(&str) is the str itself
            if isinstance(v, Agg) and v.ty == "Box":
                return box_ref(v).loc
            return loc
        if kind == "downcast":
            return loc
        if kind == "field":
            idx = p[1]

            def getter():
                v = loc.get()
                if v is None:
                    return None
                if isinstance(v, Agg):
                    if idx >= len(v.fields):
                        if v.ty is None:
                            return None
                        raise Unsupported("field %d of %r" % (idx, v))
                    return v.fields[idx]
                if isinstance(v, Opaque):
                    return Opaque("%s.%d" % (v.what, idx))
                raise Unsupported("field %d of %r" % (idx, v))

            def setter(val):
                v = loc.get()
                if v is None:
                    v = Agg(None, None, [])
                    loc.set(v)
                if not isinstance(v, Agg):
                    raise Unsupported("field write into %r" % (v,))
                while len(v.fields) <= idx:
                    v.fields.append(None)
                v.fields[idx] = val
            return Loc(getter, setter, "field")
        if kind in ("index", "constindex"):
            if kind == "index":
                iv = fr.cell(p[1]).v
                if not iv.concrete:
                    raise Unsupported("symbolic index")
                i0 = iv.v
                from_end = False
            else:
                i0, from_end = p[1], p[2]

            def items_of(v):
                if isinstance(v, (Slice,)):
                    return v.items
                if isinstance(v, VecBuf):
                    return v.items
                raise Unsupported("index into %r" % (v,))

            def getter():
                items = items_of(loc.get())
                i = len(items) - i0 if from_end else i0
                if i >= len(items):
                    raise Panic("index out of bounds")
                return items[i]

            def setter(val):
                v = loc.get()
                if isinstance(v, VecBuf):
                    v.items[i0] = val
                elif isinstance(v, Slice):
                    items = list(v.items)
                    items[i0] = val
                    loc.set(Slice(items, v.elem))
                else:
                    raise Unsupported("index write into %r" % (v,))
            return Loc(getter, setter, "index")
        raise Unsupported("projection %r" % (p,))

    # -- operands / constants ------------------------------------------------------------------
    def operand(self, fr, op):
        k = op[0]
        if k in ("copy", "move"):
            v = self.place_loc(fr, op[1]).get()
            if v is None:
                raise Unsupported("read of uninitialised %r in %s" % (op[1], fr.func.name))
            return clone_value(v)
        if k == "const":
            return self.const(op[1], fr)
        if k == "fnitem":
            return FnItem(op[1])
        raise Unsupported("operand %r" % (op,))

    def const(self, text, fr=None):
        text = text.strip()
        mo = re.match(r"(-?\d+)_([iu](?:8|16|32|64|128|size))$", text)
        if mo:
            return mk_int(int(mo.group(1)), mo.group(2))
        if text in ("true", "false"):
            return SBool(text == "true")
        if text == "()":
            return UNIT
        if text.startswith("'"):
            cps = unescape_rust(text[1:text.rindex("'")])
            return SInt(cps[0], "char")
        if text.startswith('"'):
            return Str([SInt(c, "char") for c in unescape_rust(text[1:text.rindex('"')])])
        if text.startswith('b"'):
            return Slice([SInt(c, "u8") for c in unescape_rust(text[2:text.rindex('"')], True)], "u8")
        if text.startswith("ZeroSized:"):
            ty = text[10:].strip()
            mo = re.search(r"\{closure@[^}]*\}", ty)
            if mo:
                return Agg("closure", mo.group(0), [])
            mo = re.match(r"fn\(.*\{(.*)\}$", ty)
            if mo:
                return FnItem(mo.group(1))
            return Agg(ty, None, [])
        mo = re.match(r"(-?[0-9.eE+]+)(f32|f64)$", text)
        if mo:
            raise Unsupported("float constant")
        # named constant / promoted / static
        name = text
        if ":" in name and not name.startswith("<") and "::" not in name.split(":")[0]:
            pass
        mo = re.search(r"::(promoted\[\d+\])$", name)
        if mo and fr is not None and name not in self.program.funcs:
            name = fr.func.name + "::" + mo.group(1)
        if name in self.const_cache:
            return self.const_cache[name]
        segs = strip_generics(name)
        if len(segs) >= 2 and segs[-2] in ENUMS and segs[-1] in ENUMS[segs[-2]]:
            return Agg(segs[-2], segs[-1], [])
        mo = re.match(r"\{alloc\d+: &(?:mut )?([A-Za-z_][A-Za-z0-9_:]*)\}$", name)
        if mo:
            # reference to a static item (lazy_static unit struct, ...)
            key = "static:" + mo.group(1)
            if key not in self.const_cache:
                self.const_cache[key] = new_ref(Agg(mo.group(1).split("::")[-1], None, []))
            return self.const_cache[key]
        f = self.program.funcs.get(name)
        if f is None:
            # `const path::NAME` may be printed with a type suffix or trimmed path
            cands = [n for n in self.program.funcs if n.endswith("::" + name) or name.endswith("::" + n)]
            if len(cands) == 1:
                f = self.program.funcs[cands[0]]
        if f is not None and f.kind == "const":
            val = self.run(f, [])
            self.const_cache[name] = val
            return val
        m = self.ex.models.const(self, name)
        if m is not None:
            return m
        mo = re.match(r"(?:core|std)::num::<impl (u8|u16|u32|u64|usize|i8|i16|i32|i64|isize)>::(MAX|MIN)$", name)
        if mo:
            ty, which = mo.group(1), mo.group(2)
            bits = INT_BITS[ty]
            if ty in SIGNED:
                v = (1 << (bits - 1)) - 1 if which == "MAX" else (1 << bits) - (1 << (bits - 1))     # two's complement bit pattern
            else:
                v = (1 << bits) - 1 if which == "MAX" else 0
            return mk_int(v, ty)
        if f is None and re.match(r"(?:[A-Za-z_][A-Za-z0-9_]*::)*[A-Z][A-Za-z0-9]*$", name) and name.split("::")[-1] in UNIT_STRUCTS:
            return Agg(name.split("::")[-1], None, [])
        if f is None and re.match(r"(?:[A-Za-z_][A-Za-z0-9_]*::)*PhantomData::<.*>$", name):
            return Agg("PhantomData", None, [])
        if f is None and re.match(r"(?:<.*>::)?(?:[A-Za-z_][A-Za-z0-9_]*::)*[A-Za-z_][A-Za-z0-9_]*$", name):
            # a named constant of a foreign crate: unknown value (any use of it in arithmetic is refused later)
            return Opaque("const " + name)
        raise Unsupported("constant %r" % text)

    # -- rvalues -------------------------------------------------------------------------------
    def rvalue(self, fr, rv, dest_ty=None):
        k = rv[0]
        if k == "use":
            return self.operand(fr, rv[1])
        if k == "ref":
            loc = self.place_loc(fr, rv[2])
            v = loc.get()
            # a reference to an unsized place (str / slice) is the fat pointer itself
            if rv[2].proj and rv[2].proj[-1][0] == "deref" and isinstance(v, (Str, Slice)):
                return v
            return Ref(loc, rv[1])
        if k == "rawref":
            return Ref(self.place_loc(fr, rv[2]), rv[1])
        if k == "binop":
            return self.binop(rv[1], self.operand(fr, rv[2]), self.operand(fr, rv[3]))
        if k == "unop":
            return self.unop(rv[1], self.operand(fr, rv[2]))
        if k == "discriminant":
            v = self.place_loc(fr, rv[1]).get()
            d = self.discriminant(v)
            ty = (dest_ty or "").strip()
            if ty in INT_BITS and ty != d.ty and d.concrete:
                # the discriminant has the enum's repr type (`Ordering` is an i8: Less = 255)
                d = mk_int(d.v & ((1 << INT_BITS[ty]) - 1), ty)
            return d
        if k == "len":
            v = self.place_loc(fr, rv[1]).get()
            return mk_int(len(v.items), "usize")
        if k == "copyforderef":
            return self.place_loc(fr, rv[1]).get()
        if k == "cast":
            return self.cast(self.operand(fr, rv[1]), rv[2], rv[3])
        if k == "repeat":
            v = self.operand(fr, rv[1])
            n = rv[2]
            mo = re.match(r"(?:const )?(\d+)(?:_usize)?$", n)
            if not mo:
                raise Unsupported("repeat count %r" % n)
            return Slice([clone_value(v) for _ in range(int(mo.group(1)))])
        if k == "agg":
            return self.aggregate(fr, rv, dest_ty)
        raise Unsupported("rvalue %r" % (rv,))

    def aggregate(self, fr, rv, dest_ty):
        kind, path, fields = rv[1], rv[2], rv[3]
        if kind == "tuple":
            if not fields:
                return UNIT
            return Agg("tuple", None, [self.operand(fr, f) for f in fields])
        if kind == "array":
            return Slice([self.operand(fr, f) for f in fields])
        if kind == "closure":
            return Agg("closure", path, [self.operand(fr, f[1]) for f in fields])
        segs = strip_generics(path)
        vals = [self.operand(fr, f[1] if kind == "struct" else f) for f in fields]
        if len(segs) >= 2 and segs[-2] in ENUMS and segs[-1] in ENUMS[segs[-2]]:
            return Agg(segs[-2], segs[-1], vals)
        if len(segs) == 1 and dest_ty:
            # variants of enums of another crate are printed without their enum (`_1 = Cram;`): the local's type names it
            tsegs = strip_generics(dest_ty)
            if tsegs and tsegs[-1] in ENUMS and segs[0] in ENUMS[tsegs[-1]]:
                return Agg(tsegs[-1], segs[0], vals)
        return Agg(segs[-1] if segs else path, None, vals)

    def discriminant(self, v):
        if isinstance(v, SymOpt):
            p = v.present
            if p.concrete:
                return mk_int(1 if p.v else 0, "isize")
            return mk_int(z3.If(p.v, z3.BitVecVal(1, 64), z3.BitVecVal(0, 64)), "isize")
        if isinstance(v, Agg) and v.variant is not None and v.ty in ENUMS:
            return mk_int(variant_index(v.ty, v.variant) & ((1 << 64) - 1), "isize")     # negative discriminants (Ordering::Less = -1) in two's complement
        if isinstance(v, SymEnum):
            return v.disc
        raise Unsupported("discriminant of %r" % (v,))

    def cast(self, v, ty, kind):
        if kind == "IntToInt":
            if isinstance(v, SBool):
                if v.concrete:
                    return mk_int(1 if v.v else 0, ty)
                return mk_int(z3.If(v.v, z3.BitVecVal(1, INT_BITS[ty]), z3.BitVecVal(0, INT_BITS[ty])), ty)
            if not isinstance(v, SInt):
                raise Unsupported("IntToInt of %r" % (v,))
            fb, tb = INT_BITS[v.ty], INT_BITS[ty]
            if v.concrete:
                x = to_signed(v.v, fb) if v.ty in SIGNED else v.v
                return mk_int(x, ty)
            if tb == fb:
                r = v.v
            elif tb < fb:
                r = z3.Extract(tb - 1, 0, v.v)
            elif v.ty in SIGNED:
                r = z3.SignExt(tb - fb, v.v)
            else:
                r = z3.ZeroExt(tb - fb, v.v)
            out = mk_int(r, ty)
            if ty == "char" and v.ty == "u8" and not out.concrete:
                out.width = None
            return out
        if kind.startswith("PointerCoercion") or kind in ("PtrToPtr", "Transmute", "Subtype"):
            if kind.startswith("PointerCoercion(Unsize"):
                if isinstance(v, Ref):
                    inner = v.loc.get()
                    if isinstance(inner, Slice):
                        return inner
                    if isinstance(inner, VecBuf):
                        return v
                return v
            return v
        raise Unsupported("cast %s" % kind)

    def unop(self, name, a):
        if name == "Not":
            if isinstance(a, SBool):
                return mk_bool((not a.v) if a.concrete else z3.Not(a.v))
            if a.concrete:
                return mk_int(~a.v, a.ty)
            return mk_int(~a.v, a.ty)
        if name == "Neg":
            if a.concrete:
                return mk_int(-to_signed(a.v, INT_BITS[a.ty]), a.ty)
            return mk_int(-a.v, a.ty)
        if name == "PtrMetadata":
            if isinstance(a, Str):
                return mk_int(sum(self.cwidth(c) for c in a.chars), "usize")
            if isinstance(a, Slice):
                return mk_int(len(a.items), "usize")
            return UNIT
        raise Unsupported("unop %s" % name)

    def binop(self, name, a, b):
        if isinstance(a, SBool) and isinstance(b, SBool):
            if name in ("Eq", "Ne"):
                if a.concrete and b.concrete:
                    r = a.v == b.v
                    return SBool(r if name == "Eq" else not r)
                r = a.z() == b.z()
                return mk_bool(r if name == "Eq" else z3.Not(r))
            if name in ("BitAnd", "BitOr", "BitXor"):
                if a.concrete and b.concrete:
                    return SBool({"BitAnd": a.v and b.v, "BitOr": a.v or b.v, "BitXor": a.v != b.v}[name])
                f = {"BitAnd": z3.And, "BitOr": z3.Or, "BitXor": z3.Xor}[name]
                return mk_bool(f(a.z(), b.z()))
            raise Unsupported("bool binop %s" % name)
        if not (isinstance(a, SInt) and isinstance(b, SInt)):
            raise Unsupported("binop %s on %r, %r" % (name, a, b))
        if a.ty == "nat" or b.ty == "nat":
            raise Unsupported("MIR arithmetic on a modelled duration/instant")
        ty = a.ty
        bits = INT_BITS[ty]
        signed = ty in SIGNED
        mask = (1 << bits) - 1
        conc = a.concrete and b.concrete
        if name in ("Eq", "Ne", "Lt", "Le", "Gt", "Ge"):
            if conc:
                x, y = (to_signed(a.v, bits), to_signed(b.v, bits)) if signed else (a.v, b.v)
                return SBool({"Eq": x == y, "Ne": x != y, "Lt": x < y, "Le": x <= y, "Gt": x > y, "Ge": x >= y}[name])
            x, y = a.z(), b.z()
            if name == "Eq":
                return mk_bool(x == y)
            if name == "Ne":
                return mk_bool(x != y)
            if signed:
                return mk_bool({"Lt": x < y, "Le": x <= y, "Gt": x > y, "Ge": x >= y}[name])
            return mk_bool({"Lt": z3.ULT(x, y), "Le": z3.ULE(x, y), "Gt": z3.UGT(x, y), "Ge": z3.UGE(x, y)}[name])
        base = name.replace("WithOverflow", "").replace("Unchecked", "")
        if base in ("Shl", "Shr"):
            sh_bits = INT_BITS[b.ty]
            if conc:
                s = b.v % bits
                if base == "Shl":
                    r = mk_int(a.v << s, ty)
                else:
                    r = mk_int((to_signed(a.v, bits) >> s) if signed else (a.v >> s), ty)
                return r
            bz = b.z()
            if sh_bits < bits:
                bz = z3.ZeroExt(bits - sh_bits, bz)
            elif sh_bits > bits:
                bz = z3.Extract(bits - 1, 0, bz)
            bz = bz & (bits - 1)
            if base == "Shl":
                return mk_int(a.z() << bz, ty)
            return mk_int((a.z() >> bz) if signed else z3.LShR(a.z(), bz), ty)
        if conc:
            x, y = (to_signed(a.v, bits), to_signed(b.v, bits)) if signed else (a.v, b.v)
            if base == "Add":
                full = x + y
            elif base == "Sub":
                full = x - y
            elif base == "Mul":
                full = x * y
            elif base == "Div":
                if y == 0:
                    raise Panic("division by zero")
                full = abs(x) // abs(y) * (1 if (x >= 0) == (y >= 0) else -1)
            elif base == "Rem":
                if y == 0:
                    raise Panic("remainder by zero")
                full = abs(x) % abs(y) * (1 if x >= 0 else -1)
            elif base == "BitAnd":
                full = a.v & b.v
            elif base == "BitOr":
                full = a.v | b.v
            elif base == "BitXor":
                full = a.v ^ b.v
            else:
                raise Unsupported("binop %s" % name)
            res = mk_int(full, ty)
            if name.endswith("WithOverflow"):
                lo, hi = (-(1 << (bits - 1)), (1 << (bits - 1)) - 1) if signed else (0, mask)
                return Agg("tuple", None, [res, SBool(not (lo <= full <= hi))])
            return res
        x, y = a.z(), b.z()
        if base == "Add":
            r = x + y
            ovf = z3.Not(z3.BVAddNoOverflow(x, y, signed)) if not signed else z3.Or(z3.Not(z3.BVAddNoOverflow(x, y, True)), z3.Not(z3.BVAddNoUnderflow(x, y)))
        elif base == "Sub":
            r = x - y
            ovf = z3.ULT(x, y) if not signed else z3.Or(z3.Not(z3.BVSubNoOverflow(x, y)), z3.Not(z3.BVSubNoUnderflow(x, y, True)))
        elif base == "Mul":
            r = x * y
            ovf = z3.Not(z3.BVMulNoOverflow(x, y, signed))
            if signed:
                ovf = z3.Or(ovf, z3.Not(z3.BVMulNoUnderflow(x, y)))
        elif base == "BitAnd":
            r, ovf = x & y, False
        elif base == "BitOr":
            r, ovf = x | y, False
        elif base == "BitXor":
            r, ovf = x ^ y, False
        elif base in ("Div", "Rem"):
            if self.decide(y == 0):
                raise Panic("division by zero")
            if base == "Div":
                r = (x / y) if signed else z3.UDiv(x, y)
            else:
                r = z3.SRem(x, y) if signed else z3.URem(x, y)
            ovf = False
        else:
            raise Unsupported("binop %s" % name)
        res = mk_int(r, ty)
        if name.endswith("WithOverflow"):
            return Agg("tuple", None, [res, mk_bool(ovf)])
        return res

    # -- helpers used by the models ------------------------------------------------------------
    def cwidth(self, ch):
        """concrete UTF-8 width of a char value (forks if it is symbolic without a fixed width)"""
        if ch.concrete:
            v = ch.v
            return 1 if v < 0x80 else 2 if v < 0x800 else 3 if v < 0x10000 else 4
        if ch.width:
            return ch.width
        z = ch.z()
        i = self.choose([z3.ULT(z, 0x80), z3.And(z3.UGE(z, 0x80), z3.ULT(z, 0x800)),
                         z3.And(z3.UGE(z, 0x800), z3.ULT(z, 0x10000)), z3.UGE(z, 0x10000)])
        ch.width = i + 1
        return i + 1

    def fresh_name(self, base):
        self.fresh += 1
        return "%s!%d" % (base, self.fresh)


class SymEnum:
    """enum value with a symbolic discriminant (field-less variants only)"""

    def __init__(self, ty, disc):
        self.ty = ty
        self.disc = disc


_PROGRAM_CACHE = {}


def load_program(mir_path, src_root):
    key = (mir_path, src_root)
    if key not in _PROGRAM_CACHE:
        with open(mir_path) as fh:
            _PROGRAM_CACHE[key] = Program(fh.read(), src_root)
    return _PROGRAM_CACHE[key]
