"""Contract models of the std / core / alloc functions that the interpreted scrut functions call.

Every model is a few lines that restate the documented behaviour of the std function over the
executor's value representation (concrete shapes, symbolic contents).  They are the trusted base of
E2 and are validated on every run by pushing concrete inputs through both the interpreter and the
natively compiled function (`validate_concrete`)."""
import re

import z3

from mir_exec import (MapBuf, SymEnum, SymOpt, UNIT, Agg, FnItem, Opaque, Panic, Ref, SBool, SInt, Slice, Str, StringBuf,
                      Unsupported, VecBuf, clone_value, deep_clone, mk_bool, mk_int, new_ref, INT_BITS, SIGNED,
                      to_signed, Loc, cell_loc, Cell)

# ---------------------------------------------------------------------------------------------
# small helpers


def some(v):
    return Agg("Option", "Some", [v])


def none():
    return Agg("Option", "None", [])


def ok(v):
    return Agg("Result", "Ok", [v])


def err(v):
    return Agg("Result", "Err", [v])


def deref(v):
    """strip references down to the value"""
    while isinstance(v, Ref):
        v = v.loc.get()
    return v


def as_str(v):
    v = deref(v)
    if isinstance(v, Str):
        return v
    if isinstance(v, StringBuf):
        return Str(v.chars)
    if isinstance(v, Agg) and v.ty == "Cow":
        return as_str(v.fields[0])
    raise Unsupported("expected a string, got %r" % (v,))


def as_items(v):
    v = deref(v)
    if isinstance(v, (Slice, VecBuf)):
        return list(v.items)
    if isinstance(v, Agg) and v.ty == "Cow":
        return as_items(v.fields[0])
    raise Unsupported("expected a slice, got %r" % (v,))


def usize(n):
    return mk_int(n, "usize")


def conc(v, what="value"):
    v = deref(v)
    if isinstance(v, (SInt, SBool)) and v.concrete:
        return v.v
    raise Unsupported("symbolic %s where a concrete one is needed" % what)


def char_eq(a, b):
    if a.concrete and b.concrete:
        return a.v == b.v
    return z3.simplify(a.z() == b.z())


def z_and(conds):
    cs = [c for c in conds if c is not True]
    if any(c is False for c in cs):
        return False
    if not cs:
        return True
    return z3.simplify(z3.And(cs)) if len(cs) > 1 else cs[0]


def z_or(conds):
    cs = [c for c in conds if c is not False]
    if any(c is True for c in cs):
        return True
    if not cs:
        return False
    return z3.simplify(z3.Or(cs)) if len(cs) > 1 else cs[0]


def z_not(c):
    if isinstance(c, bool):
        return not c
    return z3.simplify(z3.Not(c))


def sbool(c):
    return mk_bool(c)


_RANGE_CACHE = {}
WIDTH_SPAN = {1: (0, 0x7f), 2: (0x80, 0x7ff), 3: (0x800, 0xffff), 4: (0x10000, 0x10ffff)}


def in_ranges(ch, ranges):
    """char value in any of the inclusive ranges (python ints)"""
    if ch.concrete:
        return any(lo <= ch.v <= hi for lo, hi in ranges)
    z = ch.z()
    key = (z.get_id(), tuple(ranges), ch.width if ch.ty == "char" else None)
    hit = _RANGE_CACHE.get(key)
    if hit is not None:
        return hit[1]
    if ch.ty == "char" and ch.width:
        wlo, whi = WIDTH_SPAN[ch.width]
        ranges = [(max(lo, wlo), min(hi, whi)) for lo, hi in ranges if hi >= wlo and lo <= whi]
    r = z_or([(z == lo) if lo == hi else z3.And(z3.UGE(z, lo), z3.ULE(z, hi)) for lo, hi in ranges])
    if len(_RANGE_CACHE) > 200000:
        _RANGE_CACHE.clear()
    _RANGE_CACHE[key] = (z, r)   # keep z alive so the ast id is not reused
    return r


WHITESPACE = [(9, 13), (0x20, 0x20), (0x85, 0x85), (0xA0, 0xA0), (0x1680, 0x1680), (0x2000, 0x200A),
              (0x2028, 0x2029), (0x202F, 0x202F), (0x205F, 0x205F), (0x3000, 0x3000)]


def is_whitespace(ch):
    return in_ranges(ch, WHITESPACE)


def str_eq(ctx, a, b):
    """equality of two Str values → python bool or z3 Bool"""
    if len(a.chars) != len(b.chars):
        # equal byte strings have equal char sequences, so different char counts ⇒ different
        return False
    conds = []
    for x, y in zip(a.chars, b.chars):
        if ctx.cwidth(x) != ctx.cwidth(y):
            return False
        conds.append(char_eq(x, y))
    return z_and(conds)


def str_byte_len(ctx, s):
    return sum(ctx.cwidth(c) for c in s.chars)


def byte_to_char_index(ctx, s, off, what="byte index"):
    """map a concrete byte offset to a char index; Panic if not a boundary / out of range"""
    pos = 0
    for i, c in enumerate(s.chars):
        if pos == off:
            return i
        pos += ctx.cwidth(c)
        if pos > off:
            raise Panic("%s %d is not a char boundary" % (what, off))
    if pos == off:
        return len(s.chars)
    raise Panic("%s %d is out of range of a string of %d bytes" % (what, off, pos))


def utf8_bytes(ctx, ch):
    """UTF-8 encoding of a char value → list of u8 SInts"""
    w = ctx.cwidth(ch)
    if ch.concrete:
        return [SInt(b, "u8") for b in chr(ch.v).encode("utf-8", "surrogatepass")]
    z = ch.z()

    def bits(hi, lo):
        return z3.ZeroExt(8 - (hi - lo + 1), z3.Extract(hi, lo, z))
    if w == 1:
        return [mk_int(z3.Extract(7, 0, z), "u8")]
    if w == 2:
        return [mk_int(bits(10, 6) | 0xC0, "u8"), mk_int(bits(5, 0) | 0x80, "u8")]
    if w == 3:
        return [mk_int(bits(15, 12) | 0xE0, "u8"), mk_int(bits(11, 6) | 0x80, "u8"), mk_int(bits(5, 0) | 0x80, "u8")]
    return [mk_int(bits(20, 18) | 0xF0, "u8"), mk_int(bits(17, 12) | 0x80, "u8"), mk_int(bits(11, 6) | 0x80, "u8"),
            mk_int(bits(5, 0) | 0x80, "u8")]


def str_as_bytes(ctx, s):
    out = []
    for c in s.chars:
        out += utf8_bytes(ctx, c)
    return Slice(out, "u8")


def bytes_to_str(ctx, items):
    """decode u8 items as UTF-8 (forks on the lead-byte class); returns Str or None if invalid"""
    chars = []
    i = 0
    n = len(items)
    while i < n:
        b = items[i]
        if b.concrete:
            v = b.v
            cls = 1 if v < 0x80 else 2 if 0xC2 <= v <= 0xDF else 3 if 0xE0 <= v <= 0xEF else 4 if 0xF0 <= v <= 0xF4 else 0
        else:
            z = b.z()
            cls = [1, 2, 3, 4, 0][ctx.choose([z3.ULT(z, 0x80), z3.And(z3.UGE(z, 0xC2), z3.ULE(z, 0xDF)),
                                              z3.And(z3.UGE(z, 0xE0), z3.ULE(z, 0xEF)),
                                              z3.And(z3.UGE(z, 0xF0), z3.ULE(z, 0xF4)),
                                              z3.Or(z3.And(z3.UGE(z, 0x80), z3.ULT(z, 0xC2)), z3.UGT(z, 0xF4))])]
        if cls == 0 or i + cls > n:
            return None
        if cls == 1:
            chars.append(mk_int(z3.ZeroExt(24, b.z()), "char") if not b.concrete else SInt(b.v, "char"))
            if not chars[-1].concrete:
                chars[-1].width = 1
            i += 1
            continue
        cont = items[i + 1:i + cls]
        for k, c in enumerate(cont):
            lo, hi = 0x80, 0xBF
            if k == 0 and cls == 3:
                # E0: A0..BF, ED: 80..9F
                if b.concrete:
                    lo, hi = (0xA0, 0xBF) if b.v == 0xE0 else (0x80, 0x9F) if b.v == 0xED else (0x80, 0xBF)
                else:
                    j = ctx.choose([b.z() == 0xE0, b.z() == 0xED, z3.And(b.z() != 0xE0, b.z() != 0xED)])
                    lo, hi = [(0xA0, 0xBF), (0x80, 0x9F), (0x80, 0xBF)][j]
            if k == 0 and cls == 4:
                if b.concrete:
                    lo, hi = (0x90, 0xBF) if b.v == 0xF0 else (0x80, 0x8F) if b.v == 0xF4 else (0x80, 0xBF)
                else:
                    j = ctx.choose([b.z() == 0xF0, b.z() == 0xF4, z3.And(b.z() != 0xF0, b.z() != 0xF4)])
                    lo, hi = [(0x90, 0xBF), (0x80, 0x8F), (0x80, 0xBF)][j]
            okc = (lo <= c.v <= hi) if c.concrete else z3.And(z3.UGE(c.z(), lo), z3.ULE(c.z(), hi))
            if not ctx.decide(okc):
                return None
        zs = [z3.ZeroExt(24, x.z()) for x in [b] + list(cont)]
        if cls == 2:
            cp = ((zs[0] & 0x1F) << 6) | (zs[1] & 0x3F)
        elif cls == 3:
            cp = ((zs[0] & 0x0F) << 12) | ((zs[1] & 0x3F) << 6) | (zs[2] & 0x3F)
        else:
            cp = ((zs[0] & 0x07) << 18) | ((zs[1] & 0x3F) << 12) | ((zs[2] & 0x3F) << 6) | (zs[3] & 0x3F)
        ch = mk_int(cp, "char")
        if not ch.concrete:
            ch.width = cls
        chars.append(ch)
        i += cls
    return Str(chars)


def utf8_chunks(ctx, items):
    """<[u8]>::utf8_chunks: → list of (valid chars, invalid bytes): each chunk is a maximal valid stretch followed by the maximal prefix of an
    ill-formed sequence (1..3 bytes; empty only in the last chunk) — forks on byte classes like bytes_to_str"""
    out, chars, i, n = [], [], 0, len(items)

    def in_range(c, lo, hi):
        return (lo <= c.v <= hi) if c.concrete else z3.And(z3.UGE(c.z(), lo), z3.ULE(c.z(), hi))
    while i < n:
        b = items[i]
        if b.concrete:
            v = b.v
            cls = 1 if v < 0x80 else 2 if 0xC2 <= v <= 0xDF else 3 if 0xE0 <= v <= 0xEF else 4 if 0xF0 <= v <= 0xF4 else 0
        else:
            z = b.z()
            cls = [1, 2, 3, 4, 0][ctx.choose([z3.ULT(z, 0x80), z3.And(z3.UGE(z, 0xC2), z3.ULE(z, 0xDF)), z3.And(z3.UGE(z, 0xE0), z3.ULE(z, 0xEF)),
                                              z3.And(z3.UGE(z, 0xF0), z3.ULE(z, 0xF4)), z3.Or(z3.And(z3.UGE(z, 0x80), z3.ULT(z, 0xC2)), z3.UGT(z, 0xF4))])]
        if cls == 1:
            ch = SInt(b.v, "char") if b.concrete else mk_int(z3.ZeroExt(24, b.z()), "char")
            if not ch.concrete:
                ch.width = 1
            chars.append(ch)
            i += 1
            continue
        bad = 1 if cls == 0 else None
        if bad is None:
            for k in range(cls - 1):
                if i + 1 + k >= n:
                    bad = k + 1           # the sequence is cut off by the end of the input
                    break
                c = items[i + 1 + k]
                lo, hi = 0x80, 0xBF
                if k == 0 and cls == 3:
                    j = (0 if b.v == 0xE0 else 1 if b.v == 0xED else 2) if b.concrete else ctx.choose([b.z() == 0xE0, b.z() == 0xED, z3.And(b.z() != 0xE0, b.z() != 0xED)])
                    lo, hi = [(0xA0, 0xBF), (0x80, 0x9F), (0x80, 0xBF)][j]
                if k == 0 and cls == 4:
                    j = (0 if b.v == 0xF0 else 1 if b.v == 0xF4 else 2) if b.concrete else ctx.choose([b.z() == 0xF0, b.z() == 0xF4, z3.And(b.z() != 0xF0, b.z() != 0xF4)])
                    lo, hi = [(0x90, 0xBF), (0x80, 0x8F), (0x80, 0xBF)][j]
                if not ctx.decide(in_range(c, lo, hi)):
                    bad = k + 1
                    break
        if bad is not None:
            out.append((chars, list(items[i:i + bad])))
            chars = []
            i += bad
            continue
        zs = [z3.ZeroExt(24, x.z()) for x in items[i:i + cls]]
        cp = (((zs[0] & 0x1F) << 6) | (zs[1] & 0x3F)) if cls == 2 else \
             (((zs[0] & 0x0F) << 12) | ((zs[1] & 0x3F) << 6) | (zs[2] & 0x3F)) if cls == 3 else \
             (((zs[0] & 0x07) << 18) | ((zs[1] & 0x3F) << 12) | ((zs[2] & 0x3F) << 6) | (zs[3] & 0x3F))
        ch = mk_int(cp, "char")
        if not ch.concrete:
            ch.width = cls
        chars.append(ch)
        i += cls
    if chars:
        out.append((chars, []))
    return out


def ite(ctx, cond, a, b):
    """value-level if-then-else; forks only when the two values cannot be merged structurally"""
    if isinstance(cond, SBool):
        cond = cond.v
    if cond is True:
        return a
    if cond is False:
        return b
    if isinstance(a, SInt) and isinstance(b, SInt) and a.ty == b.ty:
        return mk_int(z3.If(cond, a.z(), b.z()), a.ty)
    if isinstance(a, SBool) and isinstance(b, SBool):
        return mk_bool(z3.If(cond, a.z(), b.z()))
    if isinstance(a, SymEnum) and isinstance(b, SymEnum) and a.ty == b.ty:
        return SymEnum(a.ty, ite(ctx, cond, a.disc, b.disc))
    if isinstance(a, SymOpt) or isinstance(b, SymOpt):
        a2, b2 = to_symopt(a), to_symopt(b)
        return SymOpt(ite(ctx, cond, a2.present, b2.present), ite(ctx, cond, a2.fields[0], b2.fields[0]))
    if isinstance(a, Agg) and isinstance(b, Agg) and a.ty == b.ty and a.variant == b.variant and len(a.fields) == len(b.fields):
        return Agg(a.ty, a.variant, [ite(ctx, cond, x, y) for x, y in zip(a.fields, b.fields)])
    if a is b:
        return a
    return a if ctx.decide(cond) else b


def to_symopt(o):
    if isinstance(o, SymOpt):
        return o
    if o.variant == "Some":
        return SymOpt(SBool(True), o.fields[0])
    return SymOpt(SBool(False), None)


def opt_present(o):
    """presence of an Option value as python bool / z3 Bool"""
    if isinstance(o, SymOpt):
        return o.present.v
    return o.variant in ("Some", "Ok")


def merge_payload(ctx, cond, a, b):
    if a is None:
        return b
    if b is None:
        return a
    return ite(ctx, cond, a, b)


# ---------------------------------------------------------------------------------------------
# iterators


class It:
    def next(self, ctx):
        raise Unsupported("next on %s" % type(self).__name__)

    def next_back(self, ctx):
        raise Unsupported("next_back on %s" % type(self).__name__)


class SeqIt(It):
    """iterator over a python list of already-built values (Chars, slice::Iter, vec::IntoIter, ...)"""

    def __init__(self, items):
        self.items = list(items)
        self.i = 0
        self.j = len(self.items)

    def next(self, ctx):
        if self.i >= self.j:
            return None
        v = self.items[self.i]
        self.i += 1
        return v

    def next_back(self, ctx):
        if self.i >= self.j:
            return None
        self.j -= 1
        return self.items[self.j]

    def remaining(self):
        return self.items[self.i:self.j]


class RevIt(It):
    def __init__(self, inner):
        self.inner = inner

    def next(self, ctx):
        return self.inner.next_back(ctx)

    def next_back(self, ctx):
        return self.inner.next(ctx)


class EnumerateIt(It):
    def __init__(self, inner):
        self.inner = inner
        self.n = 0

    def next(self, ctx):
        v = self.inner.next(ctx)
        if v is None:
            return None
        r = Agg("tuple", None, [usize(self.n), v])
        self.n += 1
        return r


class SkipIt(It):
    def __init__(self, inner, n):
        self.inner = inner
        self.n = n

    def next(self, ctx):
        while self.n > 0:
            self.n -= 1
            if self.inner.next(ctx) is None:
                return None
        return self.inner.next(ctx)


class TakeIt(It):
    def __init__(self, inner, n):
        self.inner = inner
        self.n = n

    def next(self, ctx):
        if self.n <= 0:
            return None
        self.n -= 1
        return self.inner.next(ctx)


class MapIt(It):
    def __init__(self, inner, f):
        self.inner = inner
        self.f = f

    def next(self, ctx):
        v = self.inner.next(ctx)
        if v is None:
            return None
        return ctx.call_callable(self.f, [v])

    def next_back(self, ctx):
        v = self.inner.next_back(ctx)
        if v is None:
            return None
        return ctx.call_callable(self.f, [v])


class FilterIt(It):
    def __init__(self, inner, f):
        self.inner = inner
        self.f = f

    def next(self, ctx):
        while True:
            v = self.inner.next(ctx)
            if v is None:
                return None
            keep = ctx.call_callable(self.f, [new_ref(v)])
            if ctx.decide(keep):
                return v


class FilterMapIt(It):
    def __init__(self, inner, f):
        self.inner = inner
        self.f = f

    def next(self, ctx):
        while True:
            v = self.inner.next(ctx)
            if v is None:
                return None
            r = ctx.call_callable(self.f, [v])
            if r.variant == "Some":
                return r.fields[0]


class ChainIt(It):
    def __init__(self, a, b):
        self.a = a
        self.b = b

    def next(self, ctx):
        if self.a is not None:
            v = self.a.next(ctx)
            if v is not None:
                return v
            self.a = None
        return self.b.next(ctx)


class PeekableIt(It):
    def __init__(self, inner):
        self.inner = inner
        self.peeked = None
        self.has = False

    def next(self, ctx):
        if self.has:
            self.has = False
            return self.peeked
        return self.inner.next(ctx)

    def peek(self, ctx):
        if not self.has:
            self.peeked = self.inner.next(ctx)
            self.has = True
        return self.peeked


def to_iter(ctx, v):
    """IntoIterator::into_iter"""
    if isinstance(v, It):
        return v
    if isinstance(v, VecBuf):
        return SeqIt(v.items)
    if isinstance(v, MapBuf):
        return SeqIt([Agg("tuple", None, [k, x]) for k, x in v.entries])
    if isinstance(v, Slice):
        # arrays by value yield elements; &[T] yields references
        return SeqIt(v.items)
    if isinstance(v, Ref):
        inner = v.loc.get()
        if isinstance(inner, MapBuf):
            return SeqIt([Agg("tuple", None, [new_ref(k), new_ref(x)]) for k, x in inner.entries])
        if isinstance(inner, (VecBuf, Slice)):
            return SeqIt([new_ref(x) for x in inner.items])
        if isinstance(inner, It):
            return inner
    if isinstance(v, Agg) and v.ty == "Option":
        return SeqIt(v.fields[:1] if v.variant == "Some" else [])
    if isinstance(v, Agg) and v.ty in ("Range",):
        a, b = v.fields
        return SeqIt([usize(i) for i in range(conc(a), conc(b))])
    if isinstance(v, Agg) and v.ty not in ("tuple", "Option", "Result"):
        return v          # a user type that implements Iterator: IntoIterator is the identity
    raise Unsupported("into_iter on %r" % (v,))


def drain(ctx, it, limit=10000):
    out = []
    while True:
        v = it.next(ctx)
        if v is None:
            return out
        out.append(v)
        if len(out) > limit:
            raise Unsupported("iterator does not terminate")


# ---------------------------------------------------------------------------------------------
# formatting


def render_int_decimal(ctx, v):
    if not v.concrete:
        if v.ty in SIGNED:
            # sign decided (path split), the magnitude rendered as the unsigned value of the same width (MIN included: 0 - MIN = 2^(bits-1))
            uty = "u" + v.ty[1:]
            if ctx.decide(v.z() < 0):
                return [SInt(ord("-"), "char")] + render_int_decimal(ctx, mk_int(0 - v.z(), uty))
            return render_int_decimal(ctx, mk_int(v.z(), uty))
        bits = INT_BITS[v.ty]
        z = v.z()
        maxd = len(str((1 << bits) - 1))
        opts = []
        for k in range(1, maxd + 1):
            lo = 10 ** (k - 1) if k > 1 else 0
            conds = [z3.UGE(z, lo)] if k > 1 else []
            if 10 ** k <= (1 << bits) - 1:
                conds.append(z3.ULT(z, 10 ** k))
            opts.append(z3.And(conds) if conds else True)
        k = ctx.choose(opts) + 1
        out = []
        for p in range(k):
            d = z3.URem(z3.UDiv(z, z3.BitVecVal(10 ** (k - 1 - p), bits)), z3.BitVecVal(10, bits))
            d32 = z3.ZeroExt(32 - bits, d) if bits < 32 else z3.Extract(31, 0, d)
            ch = mk_int(d32 + 48, "char")
            if not ch.concrete:
                ch.width = 1
            out.append(ch)
        return out
    x = to_signed(v.v, INT_BITS[v.ty]) if v.ty in SIGNED else v.v
    return [SInt(ord(c), "char") for c in str(x)]


def hex_digit(nib, upper=False):
    """4-bit z3 value → char SInt"""
    z = z3.ZeroExt(28, nib)
    base = 55 if upper else 87
    ch = mk_int(z3.If(z3.ULT(z, 10), z + 48, z + base), "char")
    if not ch.concrete:
        ch.width = 1
    return ch


def render_display(ctx, v):
    v = deref(v)
    if isinstance(v, (Str, StringBuf)):
        return list(v.chars)
    if isinstance(v, SInt):
        if v.ty == "char":
            return [v]
        return render_int_decimal(ctx, v)
    if isinstance(v, SBool):
        return [SInt(ord(c), "char") for c in ("true" if conc(v) else "false")]
    if isinstance(v, Agg) and v.ty == "Cow":
        return render_display(ctx, v.fields[0])
    if isinstance(v, Agg) and v.ty:
        # a Display impl of the crate: run its MIR against a Formatter that collects the text
        fn = ctx.program.resolve_call("<%s as Display>::fmt" % v.ty)
        if fn is None:
            raise Unsupported("Display of %r" % (v,))
        f = Agg("Formatter", None, [StringBuf([])])
        r = ctx.call(fn, [new_ref(v), new_ref(f, True)])
        if not (isinstance(r, Agg) and r.variant == "Ok"):
            raise Unsupported("Display impl of %s returned %r" % (v.ty, r))
        return list(f.fields[0].chars)
    raise Unsupported("Display of %r" % (v,))


def debug_char(ctx, ch):
    """char::escape_debug as <str as Debug> uses it (double quote escaped, single quote not, grapheme extenders escaped)"""
    lit = lambda t: [SInt(ord(c), "char") for c in t]
    if not ch.concrete:
        # symbolic characters: the ASCII cases are decided one by one; anything else needs the Unicode tables
        for c0, esc in (('"', '\\"'), ("\\", "\\\\"), ("\n", "\\n"), ("\r", "\\r"), ("\t", "\\t"), ("\0", "\\0")):
            if ctx.decide(char_eq(ch, SInt(ord(c0), "char"))):
                return lit(esc)
        if ctx.decide(z3.And(z3.UGE(ch.z(), 0x20), z3.ULE(ch.z(), 0x7e))):
            return [ch]
        raise Unsupported("Debug formatting of a symbolic non-ASCII / control character")
    import unicodedata
    c0 = chr(ch.v)
    table = {'"': '\\"', "\\": "\\\\", "\n": "\\n", "\r": "\\r", "\t": "\\t", "\0": "\\0"}
    if c0 in table:
        return lit(table[c0])
    extend = unicodedata.category(c0) in ("Mn", "Me") or ch.v in (0x200c, 0x200d) or 0xe0020 <= ch.v <= 0xe007f
    if extend or not c0.isprintable():
        return lit("\\u{%x}" % ch.v)
    return [ch]


def debug_str(ctx, v):
    out = [SInt(ord('"'), "char")]
    for ch in as_str(v).chars:
        out += debug_char(ctx, ch)
    return out + [SInt(ord('"'), "char")]


def render_arg(ctx, arg, flags, width):
    kind, val = arg.variant, arg.fields[0]
    fill = flags & 0x1FFFFF
    zero_pad = bool(flags & (1 << 24))
    align = (flags >> 29) & 3
    if kind == "display":
        chars = render_display(ctx, val)
    elif kind in ("lower_hex", "upper_hex"):
        v = deref(val)
        bits = INT_BITS[v.ty]
        if v.concrete:
            chars = [SInt(ord(c), "char") for c in (("%x" if kind == "lower_hex" else "%X") % v.v)]
        else:
            # number of digits depends on the value: fork on the position of the highest non-zero nibble
            nibs = [z3.Extract(4 * k + 3, 4 * k, v.z()) for k in reversed(range(bits // 4))]
            opts = []
            for k in range(len(nibs)):
                opts.append(z3.And([n == 0 for n in nibs[:k]] + [nibs[k] != 0]))
            opts.append(z3.And([n == 0 for n in nibs]))
            i = ctx.choose(opts)
            use = nibs[i:] if i < len(nibs) else nibs[-1:]
            chars = [hex_digit(n, kind == "upper_hex") for n in use]
    elif kind == "debug":
        v = deref(val)
        if isinstance(v, SInt) and v.ty != "char":
            chars = render_int_decimal(ctx, v)
        elif isinstance(v, Agg) and v.variant and not v.fields:
            chars = [SInt(ord(c), "char") for c in v.variant]        # derived Debug of a field-less variant: its name
        elif isinstance(v, (Str, StringBuf)):
            chars = debug_str(ctx, v)
        else:
            raise Unsupported("Debug formatting of %r" % (v,))
    else:
        raise Unsupported("format trait %s" % kind)
    if width is not None and len(chars) < width:
        pad = width - len(chars)
        if zero_pad and kind != "display":
            chars = [SInt(48, "char")] * pad + chars
        elif isinstance(deref(val), SInt) and deref(val).ty != "char" and align == 3:
            chars = [SInt(fill, "char")] * pad + chars
        elif align in (0, 3):
            chars = chars + [SInt(fill, "char")] * pad
        elif align == 1:
            chars = [SInt(fill, "char")] * pad + chars
        else:
            chars = [SInt(fill, "char")] * (pad // 2) + chars + [SInt(fill, "char")] * (pad - pad // 2)
    return chars


def render_arguments(ctx, a):
    """fmt::Arguments (template bytes + args) → list of char SInts"""
    a = deref(a)
    if a.variant == "str":
        return list(as_str(a.fields[0]).chars)
    tmpl = [conc(b) for b in as_items(a.fields[0])]
    args = as_items(a.fields[1])
    out = []
    i = 0
    arg_index = 0
    while True:
        n = tmpl[i]
        i += 1
        if n == 0:
            break
        if n < 0x80:
            out += [SInt(ord(c), "char") for c in bytes(tmpl[i:i + n]).decode("utf-8")]
            i += n
        elif n == 0x80:
            ln = tmpl[i] | (tmpl[i + 1] << 8)
            i += 2
            out += [SInt(ord(c), "char") for c in bytes(tmpl[i:i + ln]).decode("utf-8")]
            i += ln
        else:
            flags, width, prec = 0x20 | (3 << 29), None, None
            if n & 1:
                flags = tmpl[i] | (tmpl[i + 1] << 8) | (tmpl[i + 2] << 16) | (tmpl[i + 3] << 24)
                i += 4
            if n & 2:
                width = tmpl[i] | (tmpl[i + 1] << 8)
                i += 2
            if n & 4:
                prec = tmpl[i] | (tmpl[i + 1] << 8)
                i += 2
            if n & 8:
                arg_index = tmpl[i] | (tmpl[i + 1] << 8)
                i += 2
            if n & 16 or n & 32 or prec is not None:
                raise Unsupported("dynamic width / precision in format string")
            out += render_arg(ctx, deref(args[arg_index]), flags, width)
            arg_index += 1
    return out


# ---------------------------------------------------------------------------------------------
# the table


class Models:
    def __init__(self):
        self.table = []   # (compiled regex, handler(ctx, match, args))
        self.overrides = {}
        self.used = {}
        register_all(self)

    def add(self, pattern, handler):
        self.table.append((re.compile("^(?:%s)$" % pattern), handler))

    def override(self, fname):
        return self.overrides.get(fname)

    def const(self, ctx, name):
        return None

    @staticmethod
    def normalize(name):
        name = re.sub(r"'[a-z_][a-z0-9_]*\b(?!')", "", name)   # lifetimes
        name = re.sub(r"\s+", " ", name)
        name = name.replace("< ", "<").replace(" >", ">").replace("& ", "&").replace("&mut  ", "&mut ")
        name = name.replace("::<>", "").replace("<>", "").replace("<, ", "<")
        name = re.sub(r"\b(?:std|core|alloc)::(?:string|vec|option|result|borrow|boxed|cmp|rc|sync|path|time|collections(?:::btree_map|::hash_map|::btree|::hash)?)::(?=[A-Z])", "", name)
        name = re.sub(r"\b(?:std|alloc)::str::<impl str>", "core::str::<impl str>", name)
        name = re.sub(r"^str::<impl str>", "core::str::<impl str>", name)
        name = re.sub(r"^slice::<impl \[", "core::slice::<impl [", name)
        name = re.sub(r"\b(?:std|alloc)::slice::<impl \[", "core::slice::<impl [", name)
        return name.strip()

    def has_model(self, fname):
        name = self.normalize(fname)
        return any(rx.match(name) for rx, _h in self.table)

    # Option methods whose model understands a symbolic-presence option (SymOpt); every other `Option::…` model
    # gets the option decided (path split) first, so that no model can mistake a SymOpt for `None`
    SYMOPT_AWARE = re.compile(r"::(?:is_some|is_none|or|or_else::<.*>|unwrap_or|unwrap_or_default|filter::<.*>|is_some_and::<.*>)$"
                              r"|^<Option<.*> as (?:PartialEq|Clone)>::")

    @staticmethod
    def decide_symopt(ctx, v):
        def fix(o):
            here = ctx.decide(o.present.v if o.present.concrete else o.present.z())
            return Agg("Option", "Some", [o.fields[0]]) if here else Agg("Option", "None", [])
        if isinstance(v, SymOpt):
            return fix(v)
        if isinstance(v, Ref):
            t = v.loc.get()
            if isinstance(t, SymOpt):
                v.loc.set(fix(t))
        return v

    def call(self, ctx, fname, args):
        name = self.normalize(fname)
        if name.startswith(("Option::<", "<Option<")) and not self.SYMOPT_AWARE.search(name):
            args = [self.decide_symopt(ctx, x) for x in args]
        for rx, h in self.table:
            mo = rx.match(name)
            if mo:
                self.used[rx.pattern] = self.used.get(rx.pattern, 0) + 1
                return h(ctx, mo, args)
        raise Unsupported("no model for std function `%s`" % name)


def register_all(M):
    T = r"(?:<.*>|[^:]+?)"  # a type

    # ---- str -----------------------------------------------------------------------------
    M.add(r"core::str::<impl str>::chars", lambda c, m, a: SeqIt(as_str(a[0]).chars))
    def char_indices(c, m, a):
        out, pos = [], 0
        for ch in as_str(a[0]).chars:
            out.append(Agg("tuple", None, [usize(pos), ch]))
            pos += c.cwidth(ch)
        return SeqIt(out)
    M.add(r"core::str::<impl str>::char_indices", char_indices)
    M.add(r"core::str::<impl str>::len", lambda c, m, a: usize(str_byte_len(c, as_str(a[0]))))
    M.add(r"core::str::<impl str>::is_empty", lambda c, m, a: SBool(len(as_str(a[0]).chars) == 0))
    M.add(r"core::str::<impl str>::as_bytes", lambda c, m, a: str_as_bytes(c, as_str(a[0])))
    M.add(r"core::str::<impl str>::as_str|String::as_str|<String as AsRef<str>>::as_ref|<str as AsRef<str>>::as_ref|<String as Borrow<str>>::borrow",
          lambda c, m, a: as_str(a[0]))

    def trim_end(c, m, a):
        s = list(as_str(a[0]).chars)
        while s and c.decide(is_whitespace(s[-1])):
            s.pop()
        return Str(s)

    def trim_start(c, m, a):
        s = list(as_str(a[0]).chars)
        while s and c.decide(is_whitespace(s[0])):
            s.pop(0)
        return Str(s)
    def trim_matches_char(where):
        def f(c, m, a):
            s = list(as_str(a[0]).chars)
            ch = deref(a[1])
            if where in ("start", "both"):
                while s and c.decide(char_eq(s[0], ch)):
                    s.pop(0)
            if where in ("end", "both"):
                while s and c.decide(char_eq(s[-1], ch)):
                    s.pop()
            return Str(s)
        return f
    def str_matches_char(c, m, a):
        ch = deref(a[1])
        return SeqIt([Str([x]) for x in as_str(a[0]).chars if c.decide(char_eq(x, ch))])
    M.add(r"core::str::<impl str>::matches::<char>", str_matches_char)
    M.add(r"<(?:core::str::|std::str::)?Matches<.*> as Iterator>::count", lambda c, m, a: usize(len(deref(a[0]).items) if hasattr(deref(a[0]), "items") else sum(1 for _ in iter(lambda: deref(a[0]).next(c), None))))
    M.add(r"core::str::<impl str>::trim_start_matches::<char>", trim_matches_char("start"))
    M.add(r"core::str::<impl str>::trim_end_matches::<char>", trim_matches_char("end"))
    M.add(r"core::str::<impl str>::trim_matches::<char>", trim_matches_char("both"))
    M.add(r"core::str::<impl str>::trim_end", trim_end)
    M.add(r"core::str::<impl str>::trim_start", trim_start)
    M.add(r"core::str::<impl str>::trim", lambda c, m, a: trim_end(c, m, [trim_start(c, m, a)]))

    def str_index(c, m, a):
        s = as_str(a[0])
        r = deref(a[1])
        total = str_byte_len(c, s)
        kind = r.ty
        if kind == "Range":
            lo, hi = conc(r.fields[0], "range start"), conc(r.fields[1], "range end")
        elif kind == "RangeFrom":
            lo, hi = conc(r.fields[0], "range start"), total
        elif kind == "RangeTo":
            lo, hi = 0, conc(r.fields[0], "range end")
        elif kind == "RangeFull":
            lo, hi = 0, total
        elif kind == "RangeInclusive":
            lo, hi = conc(r.fields[0]), conc(r.fields[1]) + 1
        else:
            raise Unsupported("str index by %s" % kind)
        if lo > hi:
            raise Panic("slice index starts at %d but ends at %d" % (lo, hi))
        i = byte_to_char_index(c, s, lo, "start byte index")
        j = byte_to_char_index(c, s, hi, "end byte index")
        return Str(s.chars[i:j])
    M.add(r"<str as (?:std::ops::)?Index<.*>>::index|<String as (?:std::ops::)?Index<.*>>::index|core::str::traits::<impl (?:std::ops::)?Index<.*> for str>::index", str_index)

    def str_eq_model(c, m, a):
        return sbool(str_eq(c, as_str(a[0]), as_str(a[1])))
    M.add(r"<&?&?(?:str|String) as PartialEq(?:<&?&?(?:str|String)>)?>::eq|core::str::traits::<impl PartialEq for str>::eq|<String as PartialEq<&?str>>::eq|<str as PartialEq<String>>::eq", str_eq_model)
    M.add(r"<&?&?(?:str|String) as PartialEq(?:<&?&?(?:str|String)>)?>::ne", lambda c, m, a: sbool(z_not(str_eq(c, as_str(a[0]), as_str(a[1])))))

    def starts_with(c, m, a):
        s = as_str(a[0])
        p = deref(a[1])
        if isinstance(p, SInt):
            return sbool(False if not s.chars else char_eq(s.chars[0], p))
        if isinstance(p, (Str, StringBuf)) or (isinstance(p, Agg) and p.ty == "Cow"):
            p = as_str(p)
            if len(p.chars) > len(s.chars):
                return sbool(False)
            return sbool(str_eq(c, Str(s.chars[:len(p.chars)]), p))
        raise Unsupported("starts_with pattern %r" % (p,))

    def ends_with(c, m, a):
        s = as_str(a[0])
        p = deref(a[1])
        if isinstance(p, SInt):
            return sbool(False if not s.chars else char_eq(s.chars[-1], p))
        p = as_str(p)
        if len(p.chars) > len(s.chars):
            return sbool(False)
        if not p.chars:
            return sbool(True)
        return sbool(str_eq(c, Str(s.chars[-len(p.chars):]), p))
    M.add(r"core::str::<impl str>::starts_with::<.*>", starts_with)
    M.add(r"core::str::<impl str>::ends_with::<.*>", ends_with)

    def strip_prefix(c, m, a):
        s = as_str(a[0])
        r = starts_with(c, m, a)
        if c.decide(r):
            p = deref(a[1])
            k = 1 if isinstance(p, SInt) else len(as_str(p).chars)
            return some(Str(s.chars[k:]))
        return none()

    def strip_suffix(c, m, a):
        s = as_str(a[0])
        r = ends_with(c, m, a)
        if c.decide(r):
            p = deref(a[1])
            k = 1 if isinstance(p, SInt) else len(as_str(p).chars)
            return some(Str(s.chars[:len(s.chars) - k]))
        return none()
    M.add(r"core::str::<impl str>::strip_prefix::<.*>", strip_prefix)
    M.add(r"core::str::<impl str>::strip_suffix::<.*>", strip_suffix)

    def str_lines(c, m, a):
        s = as_str(a[0])
        out, cur = [], []
        for ch in s.chars:
            if c.decide(char_eq(ch, SInt(10, "char"))):
                if cur and c.decide(char_eq(cur[-1], SInt(13, "char"))):
                    cur.pop()
                out.append(Str(cur))
                cur = []
            else:
                cur.append(ch)
        if cur:
            out.append(Str(cur))
        return SeqIt(out)
    M.add(r"core::str::<impl str>::lines", str_lines)

    def str_split_char(c, m, a):
        s = as_str(a[0])
        sep = deref(a[1])
        out, cur = [], []
        for ch in s.chars:
            if c.decide(char_eq(ch, sep)):
                out.append(Str(cur))
                cur = []
            else:
                cur.append(ch)
        out.append(Str(cur))
        return SeqIt(out)
    M.add(r"core::str::<impl str>::split::<char>", str_split_char)

    def str_replace(c, m, a):
        hay = list(as_str(a[0]).chars)
        pat = deref(a[1])
        pat = [pat] if isinstance(pat, SInt) else list(as_str(pat).chars)
        to = list(as_str(a[2]).chars)
        if not pat:
            raise Unsupported("str::replace with an empty pattern")
        out = []
        i = 0
        n, k = len(hay), len(pat)
        while i < n:
            if i + k <= n:
                hit = z_and([char_eq(x, y) for x, y in zip(hay[i:i + k], pat)])
                if c.decide(hit):
                    out.extend(to)
                    i += k
                    continue
            out.append(hay[i])
            i += 1
        return StringBuf(out)
    M.add(r"core::str::<impl str>::replace::<.*>", str_replace)

    def str_parse(c, m, a):
        ty = m.group("ty")
        s = as_str(a[0])
        if not all(ch.concrete for ch in s.chars):
            class _M:
                def group(self, k):
                    return ty
            return M.from_str_radix(c, _M(), [s, mk_int(10, "u32")])
        text = "".join(chr(ch.v) for ch in s.chars)
        if re.fullmatch(r"[+-]?[0-9]+", text) and not (text.startswith("-") and ty.startswith("u")):
            v = int(text)
            bits = INT_BITS[ty]
            lo, hi = (-(1 << (bits - 1)), (1 << (bits - 1)) - 1) if ty in SIGNED else (0, (1 << bits) - 1)
            if lo <= v <= hi:
                return ok(mk_int(v, ty))
        return err(Opaque("ParseIntError"))
    M.add(r"core::str::<impl str>::parse::<(?P<ty>usize|u8|u16|u32|u64|i32|i64|isize)>", str_parse)
    def str_split_at(c, m, a):
        # byte index → the two halves (panics off a character boundary or past the end, like std)
        s_ = as_str(a[0])
        idx = a[1]
        pos = 0
        for k, ch in enumerate(list(s_.chars) + [None]):
            if c.decide(char_eq(idx, usize(pos)) if not idx.concrete else idx.v == pos):
                return Agg("tuple", None, [Str(list(s_.chars[:k])), Str(list(s_.chars[k:]))])
            if ch is None:
                break
            pos += c.cwidth(ch)
        raise Panic("byte index is not a char boundary / out of bounds of the string")
    M.add(r"core::str::<impl str>::split_at", str_split_at)
    M.add(r"core::str::<impl str>::repeat", lambda c, m, a: StringBuf(list(as_str(a[0]).chars) * conc(a[1], "repeat count")))

    def to_string(c, m, a):
        v = deref(a[0])
        return StringBuf(render_display(c, v))
    M.add(r"<(?:str|String|char|&str) as ToString>::to_string|<str as ToOwned>::to_owned|<String as From<&str>>::from|<&str as Into<String>>::into|<String as Clone>::clone|<String as From<&String>>::from|<String as ToOwned>::to_owned|<String as From<char>>::from", to_string)
    M.add(r"<(?:usize|u8|u16|u32|u64|i32|i64|isize) as ToString>::to_string", to_string)
    # ToString of a crate type = its Display impl (blanket impl in std)
    M.add(r"<(?:[a-z_0-9]+::)*[A-Z][A-Za-z0-9]*(?:<.*>)? as ToString>::to_string", lambda c, m, a: StringBuf(render_display(c, a[0])))
    M.add(r"<String as From<String>>::from|<String as Into<String>>::into|<&str as Into<&str>>::into", lambda c, m, a: a[0])

    # ---- char ----------------------------------------------------------------------------
    M.add(r"char::methods::<impl char>::is_whitespace", lambda c, m, a: sbool(is_whitespace(deref(a[0]))))
    M.add(r"char::methods::<impl char>::is_ascii_digit", lambda c, m, a: sbool(in_ranges(deref(a[0]), [(48, 57)])))
    M.add(r"char::methods::<impl char>::is_ascii", lambda c, m, a: sbool(in_ranges(deref(a[0]), [(0, 127)])))
    CH = r"char::methods::<impl char>::"
    M.add(CH + r"is_control", lambda c, m, a: sbool(in_ranges(deref(a[0]), [(0, 0x1f), (0x7f, 0x9f)])))
    M.add(CH + r"is_ascii_control", lambda c, m, a: sbool(in_ranges(deref(a[0]), [(0, 0x1f), (0x7f, 0x7f)])))
    M.add(CH + r"is_ascii_alphabetic", lambda c, m, a: sbool(in_ranges(deref(a[0]), [(65, 90), (97, 122)])))
    M.add(CH + r"is_ascii_alphanumeric", lambda c, m, a: sbool(in_ranges(deref(a[0]), [(48, 57), (65, 90), (97, 122)])))
    M.add(CH + r"is_ascii_lowercase", lambda c, m, a: sbool(in_ranges(deref(a[0]), [(97, 122)])))
    M.add(CH + r"is_ascii_uppercase", lambda c, m, a: sbool(in_ranges(deref(a[0]), [(65, 90)])))
    M.add(CH + r"is_ascii_hexdigit", lambda c, m, a: sbool(in_ranges(deref(a[0]), [(48, 57), (65, 70), (97, 102)])))
    M.add(CH + r"is_ascii_whitespace", lambda c, m, a: sbool(in_ranges(deref(a[0]), [(9, 10), (12, 13), (32, 32)])))
    M.add(CH + r"is_ascii_graphic", lambda c, m, a: sbool(in_ranges(deref(a[0]), [(33, 126)])))
    M.add(CH + r"is_ascii_punctuation", lambda c, m, a: sbool(in_ranges(deref(a[0]), [(33, 47), (58, 64), (91, 96), (123, 126)])))
    M.add(CH + r"len_utf8", lambda c, m, a: usize(c.cwidth(deref(a[0]))))
    M.add(r"<char as PartialEq>::eq", lambda c, m, a: sbool(char_eq(deref(a[0]), deref(a[1]))))
    INTS = r"(?:usize|u8|u16|u32|u64|i8|i16|i32|i64|isize|bool)"
    M.add(r"<&?&?" + INTS + r" as PartialEq(?:<&?&?" + INTS + r">)?>::eq", lambda c, m, a: sbool(M.elem_eq(c, deref(deref(a[0])), deref(deref(a[1])))))
    M.add(r"<&?&?" + INTS + r" as PartialEq(?:<&?&?" + INTS + r">)?>::ne", lambda c, m, a: sbool(z_not(M.elem_eq(c, deref(deref(a[0])), deref(deref(a[1]))))))
    M.add(r"<char as PartialEq>::ne", lambda c, m, a: sbool(z_not(char_eq(deref(a[0]), deref(a[1])))))

    def encode_utf8(c, m, a):
        return str_as_bytes_str(c, deref(a[0]))

    def str_as_bytes_str(c, ch):
        return Str([ch])
    M.add(r"char::methods::<impl char>::encode_utf8", encode_utf8)

    def char_from_u8(c, m, a):
        b = deref(a[0])
        return c.cast(b, "char", "IntToInt")
    M.add(r"<char as From<u8>>::from", char_from_u8)

    # ---- String --------------------------------------------------------------------------
    M.add(r"String::new|String::with_capacity", lambda c, m, a: StringBuf())

    def string_push(c, m, a):
        deref(a[0]).chars.append(deref(a[1]))
        return UNIT

    def string_push_str(c, m, a):
        deref(a[0]).chars.extend(as_str(a[1]).chars)
        return UNIT
    M.add(r"String::push", string_push)
    M.add(r"String::push_str", string_push_str)
    M.add(r"String::len", lambda c, m, a: usize(str_byte_len(c, as_str(a[0]))))
    M.add(r"String::is_empty", lambda c, m, a: SBool(len(as_str(a[0]).chars) == 0))
    M.add(r"<String as Deref>::deref", lambda c, m, a: as_str(a[0]))
    M.add(r"String::as_bytes", lambda c, m, a: str_as_bytes(c, as_str(a[0])))
    M.add(r"String::into_bytes|<String as Into<Vec<u8>>>::into|<Vec<u8> as From<String>>::from", lambda c, m, a: VecBuf(str_as_bytes(c, as_str(a[0])).items, "u8"))

    def string_add(c, m, a):
        s = deref(a[0])
        s.chars.extend(as_str(a[1]).chars)
        return s
    M.add(r"<String as Add<&str>>::add", string_add)

    def from_utf8(c, m, a):
        items = as_items(a[0])
        s = bytes_to_str(c, items)
        if s is None:
            return err(Opaque("FromUtf8Error"))
        return ok(StringBuf(s.chars))
    M.add(r"String::from_utf8", from_utf8)

    def str_from_utf8(c, m, a):
        s = bytes_to_str(c, as_items(a[0]))
        return err(Opaque("Utf8Error")) if s is None else ok(s)
    M.add(r"core::str::from_utf8|std::str::from_utf8|from_utf8|str::from_utf8", str_from_utf8)
    M.add(r"core::slice::<impl \[u8\]>::utf8_chunks|core::str::lossy::<impl \[u8\]>::utf8_chunks",
          lambda c, m, a: SeqIt([Agg("Utf8Chunk", None, [Str(v), Slice(inv, "u8")]) for v, inv in utf8_chunks(c, as_items(a[0]))]))
    M.add(r"(?:core::str::lossy::|std::str::)?Utf8Chunk::valid", lambda c, m, a: deref(a[0]).fields[0])
    M.add(r"(?:core::str::lossy::|std::str::)?Utf8Chunk::invalid", lambda c, m, a: deref(a[0]).fields[1])

    def from_utf8_lossy(c, m, a):
        items = as_items(a[0])
        s = bytes_to_str(c, items)
        if s is None:
            # invalid UTF-8: the result contains U+FFFD replacement characters. Approximation (stated in the evidence):
            # one U+FFFD per undecodable byte, valid ASCII bytes kept — only meaningful for equality tests against
            # text that contains no U+FFFD.
            out = []
            for b in items:
                if b.concrete and b.v < 0x80:
                    out.append(SInt(b.v, "char"))
                else:
                    out.append(SInt(0xFFFD, "char"))
            return Agg("Cow", "Owned", [StringBuf(out)])
        return Agg("Cow", "Borrowed", [s])
    M.add(r"String::from_utf8_lossy", from_utf8_lossy)

    # ---- Vec / slices ----------------------------------------------------------------------
    M.add(r"Vec::<.*>::new|Vec::<.*>::with_capacity", lambda c, m, a: VecBuf())

    def vec_push(c, m, a):
        deref(a[0]).items.append(a[1])
        return UNIT
    M.add(r"Vec::<.*>::push", vec_push)
    M.add(r"Vec::<.*>::len|core::slice::<impl \[.*\]>::len", lambda c, m, a: usize(len(as_items(a[0]))))
    M.add(r"Vec::<.*>::is_empty|core::slice::<impl \[.*\]>::is_empty", lambda c, m, a: SBool(len(as_items(a[0])) == 0))
    M.add(r"<Vec<.*> as Deref>::deref|Vec::<.*>::as_slice|<Vec<.*> as AsRef<\[.*\]>>::as_ref", lambda c, m, a: Slice(as_items(a[0])))
    M.add(r"<Vec<.*> as DerefMut>::deref_mut|Vec::<.*>::as_mut_slice", lambda c, m, a: deref(a[0]))      # in-place algorithms work on the buffer itself
    M.add(r"<\[.*\] as ToOwned>::to_owned|<Vec<.*> as ToOwned>::to_owned|core::slice::<impl \[.*\]>::to_vec|<Vec<.*> as Clone>::clone|<Vec<.*> as From<&\[.*\]>>::from|<&\[.*\] as Into<Vec<.*>>>::into",
          lambda c, m, a: VecBuf([deep_clone(x) for x in as_items(a[0])]))
    M.add(r"core::slice::<impl \[.*\]>::into_vec::<.*>", lambda c, m, a: VecBuf(as_items(deref_box(a[0]))))

    def deref_box(v):
        if isinstance(v, Agg) and v.ty == "Box":
            from mir_exec import box_ref
            return box_ref(v)
        return v

    def vec_extend(c, m, a):
        v = deref(a[0])
        src = a[1]
        if isinstance(src, (Slice, VecBuf)) or isinstance(deref(src), (Slice, VecBuf)):
            v.items.extend(as_items(src))
        else:
            v.items.extend(deref(x) if isinstance(x, Ref) and isinstance(deref(x), SInt) else x for x in drain(c, to_iter(c, src)))
        return UNIT
    M.add(r"<Vec<.*> as Extend<.*>>::extend::<.*>|Vec::<.*>::extend_from_slice", vec_extend)

    def vec_append(c, m, a):
        v, o = deref(a[0]), deref(a[1])
        v.items.extend(o.items)
        o.items = []
        return UNIT
    M.add(r"Vec::<.*>::append", vec_append)

    def vec_clear(c, m, a):
        deref(a[0]).items = []
        return UNIT
    M.add(r"Vec::<.*>::clear", vec_clear)

    def index_usize(c, m, a):
        holder = deref(a[0])
        idx = deref(a[1])
        if isinstance(idx, Agg):
            items = as_items(holder)
            n = len(items)
            if idx.ty == "Range":
                lo, hi = conc(idx.fields[0], "range start"), conc(idx.fields[1], "range end")
            elif idx.ty == "RangeFrom":
                lo, hi = conc(idx.fields[0], "range start"), n
            elif idx.ty == "RangeTo":
                lo, hi = 0, conc(idx.fields[0], "range end")
            elif idx.ty == "RangeFull":
                lo, hi = 0, n
            else:
                raise Unsupported("slice index by %s" % idx.ty)
            if lo > hi:
                raise Panic("slice index starts at %d but ends at %d" % (lo, hi))
            if hi > n:
                raise Panic("range end index %d out of range for slice of length %d" % (hi, n))
            return Slice(items[lo:hi], getattr(holder, "elem", None))
        i = conc(idx, "index")
        items = as_items(holder)
        if i >= len(items):
            raise Panic("index out of bounds: the len is %d but the index is %d" % (len(items), i))
        if isinstance(holder, VecBuf):
            def setter(val, holder=holder, i=i):
                holder.items[i] = val
            return Ref(Loc(lambda holder=holder, i=i: holder.items[i], setter, "vecidx"))
        return new_ref(items[i])
    M.add(r"<Vec<.*> as (?:std::ops::)?Index(?:Mut)?<.*>>::index(?:_mut)?|<\[.*\] as (?:std::ops::)?Index(?:Mut)?<.*>>::index(?:_mut)?|core::slice::index::<impl (?:std::ops::)?Index<.*> for \[.*\]>::index", index_usize)

    def slice_get(c, m, a):
        items = as_items(a[0])
        i = conc(a[1], "index")
        return some(new_ref(items[i])) if i < len(items) else none()
    M.add(r"core::slice::<impl \[.*\]>::get::<usize>", slice_get)
    M.add(r"core::slice::<impl \[.*\]>::first", lambda c, m, a: some(new_ref(as_items(a[0])[0])) if as_items(a[0]) else none())
    M.add(r"core::slice::<impl \[.*\]>::last", lambda c, m, a: some(new_ref(as_items(a[0])[-1])) if as_items(a[0]) else none())
    M.add(r"core::slice::<impl \[.*\]>::iter|<&\[.*\] as IntoIterator>::into_iter|<&Vec<.*> as IntoIterator>::into_iter", lambda c, m, a: SeqIt([new_ref(x) for x in as_items(a[0])]))
    M.add(r"<Vec<.*> as IntoIterator>::into_iter|<\[.*; \d+\] as IntoIterator>::into_iter", lambda c, m, a: SeqIt(as_items(a[0])))

    def slice_windows(c, m, a):
        items = as_items(a[0])
        k = conc(a[1], "window size")
        return SeqIt([Slice(items[i:i + k]) for i in range(0, max(0, len(items) - k + 1))])
    M.add(r"core::slice::<impl \[.*\]>::windows", slice_windows)

    def elem_eq(c, x, y):
        x, y = deref(x), deref(y)
        if isinstance(x, SInt) and isinstance(y, SInt):
            return char_eq(x, y)
        if isinstance(x, SBool) and isinstance(y, SBool):
            return (x.v == y.v) if x.concrete and y.concrete else z3.simplify(x.z() == y.z())
        if isinstance(x, (Str, StringBuf)) and isinstance(y, (Str, StringBuf)):
            return str_eq(c, as_str(x), as_str(y))
        if isinstance(x, (Slice, VecBuf)) and isinstance(y, (Slice, VecBuf)):
            if len(x.items) != len(y.items):
                return False
            return z_and([elem_eq(c, p, q) for p, q in zip(x.items, y.items)])
        if isinstance(x, SymOpt) or isinstance(y, SymOpt):
            # an option whose presence is symbolic: equal ⇔ both absent, or both present with equal payloads
            if not (isinstance(x, Agg) and isinstance(y, Agg)):
                raise Unsupported("equality of %r and %r" % (x, y))
            sx, sy = to_symopt(x), to_symopt(y)
            both = z_and([sx.present.v, sy.present.v])
            neither = z_and([z_not(sx.present.v), z_not(sy.present.v)])
            inner = elem_eq(c, sx.fields[0], sy.fields[0]) if sx.fields[0] is not None and sy.fields[0] is not None else False
            return z_or([neither, z_and([both, inner])])
        if isinstance(x, MapBuf) and isinstance(y, MapBuf):
            # keys are pairwise distinct in each map: equal ⇔ same size and every entry of x is an entry of y
            if len(x.entries) != len(y.entries):
                return False
            return z_and([z_or([z_and([elem_eq(c, k, k2), elem_eq(c, v, v2)]) for k2, v2 in y.entries]) for k, v in x.entries])
        if isinstance(x, SymEnum) or isinstance(y, SymEnum):
            from mir_exec import variant_index
            dx = x.disc if isinstance(x, SymEnum) else mk_int(variant_index(x.ty, x.variant), "isize")
            dy = y.disc if isinstance(y, SymEnum) else mk_int(variant_index(y.ty, y.variant), "isize")
            return char_eq(dx, dy)
        if isinstance(x, Agg) and isinstance(y, Agg):
            if x.variant != y.variant or len(x.fields) != len(y.fields):
                return False
            return z_and([elem_eq(c, p, q) for p, q in zip(x.fields, y.fields)])
        if x is UNIT and y is UNIT:
            return True
        raise Unsupported("equality of %r and %r" % (x, y))
    M.elem_eq = elem_eq

    def ordering_is_le(c, o):
        """Ordering value → python bool `not Greater` (forking on symbolic discriminants is left to the comparison that produced it)"""
        o = deref(o)
        if isinstance(o, Agg) and o.variant in ("Less", "Equal", "Greater"):
            return o.variant != "Greater"
        if isinstance(o, SInt):
            return c.decide(o.z() <= 0) if not o.concrete else (o.v if o.v < 128 else o.v - 256) <= 0
        raise Unsupported("Ordering %r" % (o,))

    def slice_sort_by(c, m, a):
        # stable insertion sort driven by the closure (the std sort is stable)
        v = deref(a[0])
        items = v.items
        out = []
        for x in items:
            pos = len(out)
            while pos > 0 and not ordering_is_le(c, c.call_callable(a[1], [new_ref(out[pos - 1]), new_ref(x)])):
                pos -= 1
            out.insert(pos, x)
        items[:] = out
        return UNIT
    M.add(r"core::slice::<impl \[.*\]>::sort_by::<.*>|core::slice::<impl \[.*\]>::sort_unstable_by::<.*>", slice_sort_by)

    def slice_sort(c, m, a):
        v = deref(a[0])
        if not all(isinstance(deref(x), (Str, StringBuf)) and all(ch.concrete for ch in as_str(x).chars) for x in v.items):
            raise Unsupported("sort of non-text / symbolic elements")
        v.items.sort(key=lambda x: [ch.v for ch in as_str(x).chars])
        return UNIT
    M.add(r"core::slice::<impl \[.*\]>::sort|core::slice::<impl \[.*\]>::sort_unstable", slice_sort)

    def text_cmp(c, m, a):
        x, y = as_str(deref(a[0])), as_str(deref(a[1]))
        if not all(ch.concrete for ch in x.chars + y.chars):
            raise Unsupported("ordering of symbolic text")
        kx, ky = [ch.v for ch in x.chars], [ch.v for ch in y.chars]
        return Agg("Ordering", "Less" if kx < ky else "Greater" if kx > ky else "Equal", [])
    M.add(r"<(?:String|str|&str|PathBuf|(?:std::path::)?Path|&(?:std::path::)?Path|&PathBuf) as Ord>::cmp|<(?:String|str|PathBuf) as PartialOrd>::partial_cmp", text_cmp)

    def opt_text_cmp(c, m, a):
        # Option<T>: None < Some(_); two Some compare by their payload (text only)
        x, y = deref(a[0]), deref(a[1])
        if x.variant != "Some" or y.variant != "Some":
            rank = lambda o: 1 if o.variant == "Some" else 0
            return Agg("Ordering", "Less" if rank(x) < rank(y) else "Greater" if rank(x) > rank(y) else "Equal", [])
        return text_cmp(c, m, [x.fields[0], y.fields[0]])
    M.add(r"<Option<(?:String|&str|PathBuf)> as Ord>::cmp", opt_text_cmp)

    def range_contains(c, m, a):
        r, x = deref(a[0]), deref(a[1])
        lo, hi = deref(r.fields[0]), deref(r.fields[1])
        signed = x.ty in SIGNED
        ge = (x.z() >= lo.z()) if signed else z3.UGE(x.z(), lo.z())
        if m.group(0).find("RangeInclusive") >= 0:
            up = (x.z() <= hi.z()) if signed else z3.ULE(x.z(), hi.z())
        else:
            up = (x.z() < hi.z()) if signed else z3.ULT(x.z(), hi.z())
        return sbool(z3.simplify(z3.And(ge, up)))
    M.add(r"(?:std::ops::|core::ops::)?Range(?:Inclusive)?::<(?:u8|u16|u32|u64|usize|i8|i16|i32|i64|isize|char)>::contains::<.*>", range_contains)
    M.add(r"core::bool::<impl bool>::then_some::<.*>", lambda c, m, a: some(a[1]) if c.decide(a[0].v if a[0].concrete else a[0].z()) else none())
    M.add(r"core::bool::<impl bool>::then::<.*>", lambda c, m, a: some(c.call_callable(a[1], [])) if c.decide(a[0].v if a[0].concrete else a[0].z()) else none())
    M.add(r"<(?:std::cmp::)?Ordering as PartialEq>::eq", lambda c, m, a: SBool(deref(a[0]).variant == deref(a[1]).variant))
    M.add(r"<(?:std::cmp::)?Ordering as PartialEq>::ne", lambda c, m, a: SBool(deref(a[0]).variant != deref(a[1]).variant))

    def slice_contains(c, m, a):
        items = as_items(a[0])
        return sbool(z_or([elem_eq(c, x, a[1]) for x in items]))
    M.add(r"core::slice::<impl \[.*\]>::contains", slice_contains)

    def slice_eq(c, m, a):
        return sbool(elem_eq(c, Slice(as_items(a[0])), Slice(as_items(a[1]))))
    M.add(r"<&?&?\[.*\] as PartialEq(?:<.*>)?>::eq|core::slice::cmp::<impl PartialEq<.*> for \[.*\]>::eq|<Vec<.*> as PartialEq(?:<.*>)?>::eq|core::array::equality::<impl PartialEq<.*> for .*>::eq|<Cow<\[.*\]> as PartialEq<.*>>::eq", slice_eq)
    M.add(r"<&?&?\[.*\] as PartialEq(?:<.*>)?>::ne|core::slice::cmp::<impl PartialEq<.*> for \[.*\]>::ne", lambda c, m, a: sbool(z_not(elem_eq(c, Slice(as_items(a[0])), Slice(as_items(a[1]))))))

    def slice_starts_with(c, m, a):
        x, y = as_items(a[0]), as_items(a[1])
        if len(y) > len(x):
            return sbool(False)
        return sbool(elem_eq(c, Slice(x[:len(y)]), Slice(y)))
    M.add(r"core::slice::<impl \[.*\]>::starts_with", slice_starts_with)

    def slice_ends_with(c, m, a):
        x, y = as_items(a[0]), as_items(a[1])
        if len(y) > len(x):
            return sbool(False)
        if not y:
            return sbool(True)
        return sbool(elem_eq(c, Slice(x[len(x) - len(y):]), Slice(y)))
    M.add(r"core::slice::<impl \[.*\]>::ends_with", slice_ends_with)

    def slice_split(c, m, a):
        items = as_items(a[0])
        out, cur = [], []
        for x in items:
            if c.decide(c.call_callable(a[1], [new_ref(x)])):
                out.append(Slice(cur))
                cur = []
            else:
                cur.append(x)
        out.append(Slice(cur))
        return SeqIt(out)
    M.add(r"core::slice::<impl \[.*\]>::split::<.*>", slice_split)

    def slice_strip_suffix(c, m, a):
        x, y = as_items(a[0]), as_items(a[1])
        if len(y) <= len(x) and c.decide(elem_eq(c, Slice(x[len(x) - len(y):]), Slice(y)) if y else True):
            return some(Slice(x[:len(x) - len(y)]))
        return none()

    def slice_strip_prefix(c, m, a):
        x, y = as_items(a[0]), as_items(a[1])
        if len(y) <= len(x) and c.decide(elem_eq(c, Slice(x[:len(y)]), Slice(y)) if y else True):
            return some(Slice(x[len(y):]))
        return none()
    M.add(r"core::slice::<impl \[.*\]>::strip_suffix::<.*>", slice_strip_suffix)
    M.add(r"core::slice::<impl \[.*\]>::strip_prefix::<.*>", slice_strip_prefix)

    def slice_concat(c, m, a):
        out = []
        for part in as_items(a[0]):
            out.extend(as_items(part))
        return VecBuf(out)
    M.add(r"core::slice::<impl \[.*\]>::concat::<.*>|<\[.*\] as std::slice::Concat<.*>>::concat", slice_concat)

    def slice_join(c, m, a):
        parts = as_items(a[0])
        sep = deref(a[1])
        if isinstance(sep, (Str, StringBuf)) or (parts and isinstance(deref(parts[0]), (Str, StringBuf))):
            out = []
            for i, p in enumerate(parts):
                if i:
                    out.extend(as_str(sep).chars)
                out.extend(as_str(p).chars)
            return StringBuf(out)
        out = []
        for i, p in enumerate(parts):
            if i:
                out.extend(as_items(sep) if isinstance(sep, (Slice, VecBuf)) else [sep])
            out.extend(as_items(p))
        return VecBuf(out)
    M.add(r"core::slice::<impl \[.*\]>::join::<.*>", slice_join)

    # ---- Cow -------------------------------------------------------------------------------
    def cow_from(c, m, a):
        v = a[0]
        if isinstance(deref(v), (VecBuf, StringBuf)) and not isinstance(v, Ref):
            return Agg("Cow", "Owned", [v])
        if isinstance(deref(v), StringBuf):
            return Agg("Cow", "Borrowed", [as_str(v)])
        if isinstance(deref(v), VecBuf):
            return Agg("Cow", "Borrowed", [Slice(as_items(v))])
        return Agg("Cow", "Borrowed", [v])
    M.add(r"<Cow<.*> as From<.*>>::from|<.* as Into<Cow<.*>>>::into", cow_from)

    def cow_deref(c, m, a):
        v = deref(a[0]).fields[0]
        v = deref(v)
        if isinstance(v, StringBuf):
            return as_str(v)
        if isinstance(v, VecBuf):
            return Slice(v.items)
        return v
    M.add(r"<Cow<.*> as Deref>::deref|<Cow<.*> as AsRef<.*>>::as_ref", cow_deref)

    def cow_into_owned(c, m, a):
        v = deref(deref(a[0]).fields[0])
        if isinstance(v, Str):
            return StringBuf(v.chars)
        if isinstance(v, Slice):
            return VecBuf(v.items)
        return v
    M.add(r"Cow::<.*>::into_owned|<Cow<.*> as ToString>::to_string|<Cow<str> as Into<String>>::into|<Cow<\[.*\]> as Into<Vec<.*>>>::into", cow_into_owned)

    # ---- Option / Result ---------------------------------------------------------------------
    def opt_map(c, m, a):
        o = deref(a[0]) if isinstance(a[0], Ref) else a[0]
        if o.variant in ("Some", "Ok"):
            return Agg(o.ty, o.variant, [c.call_callable(a[1], [o.fields[0]])])
        return o
    M.add(r"Option::<.*>::map::<.*>|Result::<.*>::map::<.*>", opt_map)

    def opt_filter(c, m, a):
        o = deref(a[0]) if isinstance(a[0], Ref) else a[0]
        if isinstance(o, SymOpt):
            # presence symbolic: on the branch where it is present the predicate sees the payload
            if not c.decide(o.present.v if o.present.concrete else o.present.z()):
                return none()
            o = some(o.fields[0])
        if o.variant != "Some":
            return o
        keep = c.call_callable(a[1], [new_ref(o.fields[0])])
        return o if c.decide(keep) else none()
    M.add(r"Option::<.*>::filter::<.*>", opt_filter)

    def opt_is_some_and(c, m, a):
        o = deref(a[0]) if isinstance(a[0], Ref) else a[0]
        if isinstance(o, SymOpt):
            if not c.decide(o.present.v if o.present.concrete else o.present.z()):
                return SBool(False)
            o = some(o.fields[0])
        if o.variant != "Some":
            return SBool(False)
        return c.call_callable(a[1], [o.fields[0]])
    M.add(r"Option::<.*>::is_some_and::<.*>", opt_is_some_and)

    def res_map_err(c, m, a):
        o = a[0]
        if o.variant == "Err":
            return err(c.call_callable(a[1], [o.fields[0]]))
        return o
    M.add(r"Result::<.*>::map_err::<.*>", res_map_err)

    def opt_and_then(c, m, a):
        o = a[0]
        if o.variant in ("Some", "Ok"):
            return c.call_callable(a[1], [o.fields[0]])
        return o
    M.add(r"Option::<.*>::and_then::<.*>|Result::<.*>::and_then::<.*>", opt_and_then)
    M.add(r"Option::<.*>::is_some|Result::<.*>::is_ok", lambda c, m, a: sbool(opt_present(deref(a[0]))))
    M.add(r"Option::<.*>::is_none|Result::<.*>::is_err", lambda c, m, a: sbool(z_not(opt_present(deref(a[0])))))

    def opt_unwrap(c, m, a):
        o = a[0]
        if o.variant in ("Some", "Ok"):
            return o.fields[0]
        raise Panic("called `unwrap()` / `expect()` on a `%s` value" % o.variant)
    M.add(r"Option::<.*>::unwrap|Option::<.*>::expect|Result::<.*>::unwrap|Result::<.*>::expect", opt_unwrap)
    def opt_unwrap_or(c, m, a):
        o = a[0]
        if isinstance(o, SymOpt):
            return merge_payload(c, o.present.v, o.fields[0], a[1])
        return o.fields[0] if o.variant in ("Some", "Ok") else a[1]
    M.add(r"Option::<.*>::unwrap_or|Result::<.*>::unwrap_or", opt_unwrap_or)
    M.add(r"Option::<.*>::unwrap_or_else::<.*>", lambda c, m, a: a[0].fields[0] if a[0].variant == "Some" else c.call_callable(a[1], []))
    def opt_or(c, m, a):
        x, y = a[0], a[1]
        if isinstance(x, SymOpt) or isinstance(y, SymOpt):
            x, y = to_symopt(x), to_symopt(y)
            return SymOpt(sbool(z_or([x.present.v, y.present.v])), merge_payload(c, x.present.v, x.fields[0], y.fields[0]))
        return x if x.variant == "Some" else y

    def opt_or_else(c, m, a):
        x = a[0]
        if isinstance(x, SymOpt):
            if x.present.concrete:
                return x if x.present.v else c.call_callable(a[1], [])
            y = c.call_callable(a[1], [])
            return opt_or(c, m, [x, y])
        return x if x.variant == "Some" else c.call_callable(a[1], [])
    def opt_unwrap_or_default(c, m, a):
        o = a[0]
        if isinstance(o, SymOpt):
            o = some(o.fields[0]) if c.decide(o.present.v if o.present.concrete else o.present.z()) else none()
        if o.variant in ("Some", "Ok"):
            return o.fields[0]
        t = m.group("t")
        if t.endswith("Duration"):
            return Agg("Duration", None, [mk_int(0, "nat")])
        if t.startswith("String"):
            return StringBuf()
        if t.startswith("Vec"):
            return VecBuf()
        if t in INT_BITS:
            return mk_int(0, t)
        if t == "bool":
            return SBool(False)
        if t.startswith("Option"):
            return none()
        impl = c.program.resolve_call("<%s as Default>::default" % t)
        if impl is not None:
            return c.call(impl, [])
        raise Unsupported("unwrap_or_default for %s" % t)
    M.add(r"Option::<(?P<t>.*)>::unwrap_or_default", opt_unwrap_or_default)
    M.add(r"Result::<(?P<t>.*), [^<>]*(?:<[^<>]*>)?>::unwrap_or_default", opt_unwrap_or_default)
    M.add(r"Option::<.*>::or", opt_or)
    M.add(r"Option::<.*>::or_else::<.*>", opt_or_else)
    M.add(r"Option::<.*>::ok_or::<.*>", lambda c, m, a: ok(a[0].fields[0]) if a[0].variant == "Some" else err(a[1]))
    M.add(r"Option::<.*>::ok_or_else::<.*>", lambda c, m, a: ok(a[0].fields[0]) if a[0].variant == "Some" else err(c.call_callable(a[1], [])))
    M.add(r"Option::<.*>::map_or::<.*>", lambda c, m, a: c.call_callable(a[2], [a[0].fields[0]]) if a[0].variant == "Some" else a[1])
    M.add(r"Option::<.*>::as_ref|Option::<.*>::as_deref", lambda c, m, a: some(new_ref(deref(a[0]).fields[0])) if deref(a[0]).variant == "Some" else none())
    M.add(r"Option::<.*>::copied|Option::<.*>::cloned", lambda c, m, a: some(deep_clone(deref(a[0].fields[0]))) if a[0].variant == "Some" else none())
    M.add(r"Result::<.*>::ok", lambda c, m, a: some(a[0].fields[0]) if a[0].variant == "Ok" else none())
    M.add(r"<Option<.*> as Clone>::clone", lambda c, m, a: deep_clone(deref(a[0])))

    def try_branch(c, m, a):
        o = a[0]
        if o.variant in ("Some", "Ok"):
            return Agg("ControlFlow", "Continue", [o.fields[0]])
        return Agg("ControlFlow", "Break", [Agg(o.ty, o.variant, list(o.fields))])
    M.add(r"<(?:Option|Result|std::result::Result|std::option::Option)<.*> as Try>::branch", try_branch)

    def from_residual(c, m, a):
        r = a[0]
        if r.ty == "Option":
            return none()
        e = r.fields[0]
        return err(e)
    M.add(r"<(?:Option|Result|std::result::Result|std::option::Option)<.*> as FromResidual<.*>>::from_residual", from_residual)
    M.add(r"<(?:BTreeMap|HashMap)<.*> as From<\[.*; \d+\]>>::from", lambda c, m, a: M.map_from_array(c, m, a))
    M.add(r"<.* as From<.*>>::from", lambda c, m, a: a[0])   # generic From (error conversion etc.): identity on payload

    # ---- Iterator adaptors -------------------------------------------------------------------
    def it_of(v):
        v = deref(v)
        if isinstance(v, Agg) and v.ty == "Range":
            return SeqIt([usize(i) for i in range(conc(v.fields[0]), conc(v.fields[1]))])
        if not isinstance(v, It):
            raise Unsupported("not an iterator: %r" % (v,))
        return v

    def it_next(c, m, a):
        v = it_of(a[0]).next(c)
        return none() if v is None else some(v)

    def it_next_back(c, m, a):
        v = it_of(a[0]).next_back(c)
        return none() if v is None else some(v)
    IT = r"<.* as (?:Iterator|DoubleEndedIterator|IntoIterator)>"
    M.add(IT + r"::next", it_next)
    M.add(IT + r"::next_back", it_next_back)

    def it_fold(c, m, a):
        it = it_of(a[0])
        acc = a[1]
        while True:
            v = it.next(c)
            if v is None:
                return acc
            acc = c.call_callable(a[2], [acc, v])
    M.add(IT + r"::fold::<.*>", it_fold)

    def it_max(c, m, a):
        it = it_of(a[0])
        best = None
        while True:
            v = it.next(c)
            if v is None:
                break
            if best is None:
                best = v
            else:
                x, y = deref(best), deref(v)
                from mir_exec import SIGNED as _SG
                if isinstance(x, SInt) and x.ty in _SG:
                    best = mk_int(z3.simplify(z3.If(y.z() >= x.z(), y.z(), x.z())), x.ty) if not (x.concrete and y.concrete) else \
                        (v if (y.v - (1 << INT_BITS[y.ty]) if y.v >= 1 << (INT_BITS[y.ty] - 1) else y.v) >= (x.v - (1 << INT_BITS[x.ty]) if x.v >= 1 << (INT_BITS[x.ty] - 1) else x.v) else best)
                else:
                    best = usize_max(c, None, [best, v])
        return none() if best is None else some(best)
    M.add(IT + r"::max", it_max)
    M.add(IT + r"::into_iter", lambda c, m, a: to_iter(c, a[0]))
    M.add(IT + r"::by_ref", lambda c, m, a: a[0])
    M.add(IT + r"::rev", lambda c, m, a: RevIt(it_of(a[0])))
    M.add(IT + r"::enumerate", lambda c, m, a: EnumerateIt(it_of(a[0])))
    M.add(IT + r"::skip", lambda c, m, a: SkipIt(it_of(a[0]), conc(a[1], "skip count")))
    M.add(IT + r"::take", lambda c, m, a: TakeIt(it_of(a[0]), conc(a[1], "take count")))
    M.add(IT + r"::map::<.*>", lambda c, m, a: MapIt(it_of(a[0]), a[1]))
    M.add(IT + r"::filter::<.*>", lambda c, m, a: FilterIt(it_of(a[0]), a[1]))
    M.add(IT + r"::filter_map::<.*>", lambda c, m, a: FilterMapIt(it_of(a[0]), a[1]))
    M.add(IT + r"::chain::<.*>", lambda c, m, a: ChainIt(it_of(a[0]), to_iter(c, a[1])))
    class FlattenIt(It):
        def __init__(self, inner):
            self.inner = inner
            self.cur = None

        def next(self, ctx):
            while True:
                if self.cur is not None:
                    v = self.cur.next(ctx)
                    if v is not None:
                        return v
                    self.cur = None
                nxt = self.inner.next(ctx)
                if nxt is None:
                    return None
                self.cur = to_iter(ctx, nxt)
    M.add(IT + r"::flatten", lambda c, m, a: FlattenIt(it_of(a[0])))
    M.add(IT + r"::peekable", lambda c, m, a: PeekableIt(it_of(a[0])))
    M.add(IT + r"::copied::<.*>|" + IT + r"::cloned::<.*>|" + IT + r"::copied|" + IT + r"::cloned", lambda c, m, a: MapIt(it_of(a[0]), lambda c2, args: deep_clone(deref(args[0]))))
    def it_nth(c, m, a):
        it = it_of(a[0])
        n = conc(a[1], "nth index")
        v = None
        for _ in range(n + 1):
            v = it.next(c)
            if v is None:
                return none()
        return some(v)
    M.add(IT + r"::nth", it_nth)
    M.add(IT + r"::count", lambda c, m, a: usize(len(drain(c, it_of(a[0])))))
    M.add(IT + r"::last", lambda c, m, a: (lambda xs: some(xs[-1]) if xs else none())(drain(c, it_of(a[0]))))

    def it_position(c, m, a):
        it = it_of(a[0])
        i = 0
        while True:
            v = it.next(c)
            if v is None:
                return none()
            if c.decide(c.call_callable(a[1], [v])):
                return some(usize(i))
            i += 1
    M.add(IT + r"::position::<.*>", it_position)

    def it_any(c, m, a):
        it = it_of(a[0])
        while True:
            v = it.next(c)
            if v is None:
                return SBool(False)
            if c.decide(c.call_callable(a[1], [v])):
                return SBool(True)
    M.add(IT + r"::any::<.*>", it_any)

    def it_all(c, m, a):
        it = it_of(a[0])
        while True:
            v = it.next(c)
            if v is None:
                return SBool(True)
            if not c.decide(c.call_callable(a[1], [v])):
                return SBool(False)
    M.add(IT + r"::all::<.*>", it_all)

    def it_for_each(c, m, a):
        for v in drain(c, it_of(a[0])):
            c.call_callable(a[1], [v])
        return UNIT
    M.add(IT + r"::for_each::<.*>", it_for_each)

    def it_collect(c, m, a):
        target = m.group("t")
        xs = drain(c, it_of(a[0]))
        if re.match(r"(?:std::result::)?Result<Vec<", target):
            # first Err wins (short-circuit), otherwise Ok(vec of the payloads)
            vals = []
            for x in xs:
                x = deref(x)
                if x.variant == "Err":
                    return err(x.fields[0])
                vals.append(x.fields[0])
            return ok(VecBuf(vals))
        if target.startswith("String"):
            out = []
            for x in xs:
                x = deref(x)
                if isinstance(x, SInt):
                    out.append(x)
                else:
                    out.extend(as_str(x).chars)
            return StringBuf(out)
        if target.startswith("Vec"):
            return VecBuf(xs)
        if target.startswith("BTreeMap") or target.startswith("HashMap"):
            mp = MapBuf()
            holder = new_ref(mp, True)
            for kv in xs:
                M.map_insert(c, m, [holder, kv.fields[0], kv.fields[1]])
            return mp
        raise Unsupported("collect into %s" % target)
    M.add(IT + r"::collect::<(?P<t>.*)>", it_collect)

    def it_flatten_collect(c, m, a):
        raise Unsupported("flatten")
    M.add(r"<std::iter::Peekable<.*>>::peek|Peekable::<.*>::peek", lambda c, m, a: (lambda v: none() if v is None else some(new_ref(v)))(it_of(a[0]).peek(c)))
    M.add(r"Chars::as_str", lambda c, m, a: Str(it_of(a[0]).remaining()))

    def closure_call(c, m, a):
        args = a[1]
        args = list(args.fields) if isinstance(args, Agg) and args.ty == "tuple" else ([] if args is UNIT else [args])
        f0 = a[0]
        if (deref(f0) if isinstance(f0, Ref) else f0) is None:
            # a closure that captures nothing is a zero-sized value the MIR never assigns: its type in the call's name identifies the body
            mo = re.search(r"\{closure@[^}]*\}", m.group(0))
            if mo and mo.group(0) in c.program.closures:
                f0 = Agg("closure", mo.group(0), [])
        return c.call_callable(f0, args)
    M.add(r"<\{closure@.*\} as Fn(?:Once|Mut)?<.*>>::call(?:_once|_mut)?|<&(?:mut )?\{closure@.*\} as Fn(?:Once|Mut)?<.*>>::call(?:_once|_mut)?|<[A-Z][A-Za-z0-9]* as Fn(?:Once|Mut)?<.*>>::call(?:_once|_mut)?", closure_call)

    # ---- fmt ---------------------------------------------------------------------------------
    M.add(r"core::fmt::rt::Argument::new_display::<.*>", lambda c, m, a: Agg("FmtArg", "display", [a[0]]))
    M.add(r"core::fmt::rt::Argument::new_debug::<.*>", lambda c, m, a: Agg("FmtArg", "debug", [a[0]]))
    M.add(r"core::fmt::rt::Argument::new_lower_hex::<.*>", lambda c, m, a: Agg("FmtArg", "lower_hex", [a[0]]))
    M.add(r"core::fmt::rt::Argument::new_upper_hex::<.*>", lambda c, m, a: Agg("FmtArg", "upper_hex", [a[0]]))
    M.add(r"Arguments::new::<\d+, \d+>", lambda c, m, a: Agg("Arguments", "tmpl", [a[0], a[1]]))
    M.add(r"Arguments::from_str|Arguments::from_str_nonconst", lambda c, m, a: Agg("Arguments", "str", [a[0]]))
    M.add(r"format|std::fmt::format|alloc::fmt::format", lambda c, m, a: StringBuf(render_arguments(c, a[0])))

    def formatter_write_fmt(c, m, a):
        f = deref(a[0])
        if not (isinstance(f, Agg) and f.ty == "Formatter"):
            raise Unsupported("write_fmt on %r" % (f,))
        f.fields[0].chars.extend(render_arguments(c, a[1]))
        return ok(UNIT)
    M.add(r"Formatter::write_fmt|Formatter::<>::write_fmt|std::fmt::Formatter::write_fmt|core::fmt::Formatter::write_fmt", formatter_write_fmt)

    def formatter_write_str(c, m, a):
        f = deref(a[0])
        if not (isinstance(f, Agg) and f.ty == "Formatter"):
            raise Unsupported("write_str on %r" % (f,))
        f.fields[0].chars.extend(as_str(a[1]).chars)
        return ok(UNIT)
    M.add(r"Formatter::write_str|<Formatter as Write>::write_str|std::fmt::Formatter::write_str", formatter_write_str)
    M.add(r"must_use::<.*>", lambda c, m, a: a[0])

    # ---- misc ----------------------------------------------------------------------------------
    M.add(r"<.* as Deref>::deref", lambda c, m, a: deref(a[0]) if not isinstance(deref(a[0]), (VecBuf, StringBuf)) else (as_str(a[0]) if isinstance(deref(a[0]), StringBuf) else Slice(as_items(a[0]))))
    M.add(r"<(?:usize|u8|u16|u32|u64|i32|i64|isize|bool|char) as Clone>::clone", lambda c, m, a: deref(a[0]))
    M.add(r"<&.* as Clone>::clone", lambda c, m, a: deref(a[0]) if isinstance(a[0], Ref) and isinstance(deref(a[0]), (Str, Slice)) else a[0].loc.get())
    M.add(r"std::mem::drop::<.*>|core::mem::drop::<.*>", lambda c, m, a: (getattr(M, "on_drop", None) or (lambda c2, v: None))(c, a[0]) or UNIT)
    M.add(r"std::mem::forget::<.*>|core::mem::forget::<.*>", lambda c, m, a: UNIT)      # the value never dies

    def process_exit(c, m, a):
        from mir_exec import Panic
        raise Panic("std::process::exit(%s): the process ends here, nothing is dropped" % (a[0],))
    M.add(r"std::process::exit|exit", process_exit)

    def box_new_uninit(c, m, a):
        return Agg("Box", None, [Agg("Unique", None, [new_ref(None, True)])])

    def box_into_vec(c, m, a):
        cellv = a[0].fields[0].fields[0].loc.get()
        arr = cellv.fields[1].fields[0].fields[0]
        return VecBuf(list(arr.items))
    M.add(r"Box::<\[.*; \d+\]>::new_uninit", box_new_uninit)
    M.add(r"std::boxed::box_assume_init_into_vec_unsafe::<.*>", box_into_vec)

    def box_new(c, m, a):
        from mir_exec import mk_box
        return mk_box(a[0])
    M.add(r"Box::<.*>::new|alloc::boxed::box_new::<.*>|std::boxed::box_new::<.*>", box_new)

    def usize_max(c, m, a):
        x, y = deref(a[0]), deref(a[1])
        if x.concrete and y.concrete:
            return x if x.v >= y.v else y
        return mk_int(z3.If(z3.UGE(x.z(), y.z()), x.z(), y.z()), x.ty)

    def usize_min(c, m, a):
        x, y = deref(a[0]), deref(a[1])
        if x.concrete and y.concrete:
            return x if x.v <= y.v else y
        return mk_int(z3.If(z3.ULE(x.z(), y.z()), x.z(), y.z()), x.ty)
    _I = r"(?:usize|u8|u16|u32|u64|i8|i16|i32|i64|isize)"
    M.add(r"<&?" + _I + r" as (Add|Sub|Mul|Div|Rem|BitAnd|BitOr|BitXor)(?:<&?" + _I + r">)?>::(?:add|sub|mul|div|rem|bitand|bitor|bitxor)",
          lambda c, m, a: c.binop(m.group(1), deref(deref(a[0])), deref(deref(a[1]))))
    M.add(r"<usize as Ord>::max|std::cmp::max::<usize>|core::cmp::Ord::max", usize_max)

    def sat_sub(c, m, a):
        x, y = deref(a[0]), deref(a[1])
        if x.concrete and y.concrete:
            return mk_int(max(0, x.v - y.v), x.ty)
        return mk_int(z3.If(z3.UGE(x.z(), y.z()), x.z() - y.z(), z3.BitVecVal(0, INT_BITS[x.ty])), x.ty)
    M.add(r"core::num::<impl (?:usize|u8|u16|u32|u64)>::saturating_sub", sat_sub)
    M.add(r"<usize as Ord>::min|std::cmp::min::<usize>", usize_min)

    def from_str_radix(c, m, a):
        ty = m.group("ty")
        s = as_str(a[0])
        radix = conc(a[1], "radix")
        bits = INT_BITS[ty]
        if not s.chars:
            return err(Opaque("ParseIntError(empty)"))
        acc = None
        chars = list(s.chars)
        first = chars[0]
        if c.decide(char_eq(first, SInt(ord("+"), "char"))):
            chars = chars[1:]
            if not chars:
                return err(Opaque("ParseIntError(invalid digit)"))
        elif ty in SIGNED and c.decide(char_eq(first, SInt(ord("-"), "char"))):
            raise Unsupported("negative from_str_radix")
        total = z3.BitVecVal(0, bits + 8)
        for ch in chars:
            ranges = [(48, 48 + min(radix, 10) - 1)]
            if radix > 10:
                ranges += [(97, 97 + radix - 11), (65, 65 + radix - 11)]
            if not c.decide(in_ranges(ch, ranges)):
                return err(Opaque("ParseIntError(invalid digit)"))
            z = z3.ZeroExt(bits + 8 - 32, z3.Extract(31, 0, ch.z())) if bits + 8 >= 32 else z3.Extract(bits + 7, 0, ch.z())
            digit = z3.If(z3.ULE(z, 57), z - 48, z3.If(z3.ULE(z, 90), z - 55, z - 87))
            total = total * radix + digit
        total = z3.simplify(total)
        limit = (1 << (bits - 1)) - 1 if ty in SIGNED else (1 << bits) - 1
        if len(chars) * (radix - 1).bit_length() >= bits:
            if c.decide(z3.UGT(total, limit)):
                return err(Opaque("ParseIntError(overflow)"))
        return ok(mk_int(z3.Extract(bits - 1, 0, total), ty))
    M.add(r"core::num::<impl (?P<ty>u8|u16|u32|u64|usize|i32|i64)>::from_str_radix", from_str_radix)
    M.from_str_radix = from_str_radix

    def regex_escape(c, m, a):
        out = []
        meta = [ord(x) for x in "\\.+*?()|[]{}^$#&-~"]
        for ch in as_str(a[0]).chars:
            is_meta = (ch.v in meta) if ch.concrete else z_or([ch.z() == x for x in meta])
            if c.decide(is_meta):
                out.append(SInt(92, "char"))
            out.append(ch)
        return StringBuf(out)
    M.add(r"regex::escape", regex_escape)

    # ---- maps --------------------------------------------------------------------------------
    MAP = r"(?:BTreeMap|HashMap)"
    M.add(MAP + r"::<.*>::new", lambda c, m, a: MapBuf())

    def map_insert(c, m, a):
        mp = deref(a[0])
        k, v = a[1], a[2]
        for e in mp.entries:
            if c.decide(M.elem_eq(c, e[0], k)):
                old = e[1]
                e[1] = v
                return some(old)
        mp.entries.append([k, v])
        return none()
    M.add(MAP + r"::<.*>::insert", map_insert)
    M.map_insert = map_insert
    M.add(r"<" + MAP + r"<.*> as Clone>::clone", lambda c, m, a: deep_clone(deref(a[0])))
    def ordered_entries(m, mp):
        """iteration order: a BTreeMap yields its entries by ascending key — reproduced when every key is concrete text (symbolic keys keep the
        insertion order: only order-insensitive uses are decided faithfully then)"""
        es = list(deref(mp).entries)
        if "BTreeMap" in m.group(0):
            keys = [deref(k) for k, _v in es]
            if all(isinstance(k, (Str, StringBuf)) and all(ch.concrete for ch in k.chars) for k in keys):
                es.sort(key=lambda e: [ch.v for ch in deref(e[0]).chars])
        return es
    M.add(r"<" + MAP + r"<.*> as IntoIterator>::into_iter", lambda c, m, a: SeqIt([Agg("tuple", None, [k, v]) for k, v in ordered_entries(m, a[0])]))
    M.add(r"<&" + MAP + r"<.*> as IntoIterator>::into_iter|" + MAP + r"::<.*>::iter", lambda c, m, a: SeqIt([Agg("tuple", None, [new_ref(k), new_ref(v)]) for k, v in ordered_entries(m, a[0])]))

    def map_from_array(c, m, a):
        mp = MapBuf()
        for it in as_items(a[0]):
            k, v = deref(it).fields
            map_insert(c, m, [new_ref(mp, True), k, v])
        return mp
    M.map_from_array = map_from_array
    M.add(MAP + r"::<.*>::is_empty", lambda c, m, a: SBool(len(deref(a[0]).entries) == 0))
    M.add(MAP + r"::<.*>::len", lambda c, m, a: usize(len(deref(a[0]).entries)))

    def map_get(c, m, a):
        mp = deref(a[0])
        for e in mp.entries:
            if c.decide(M.elem_eq(c, e[0], a[1])):
                return some(new_ref(e[1]))
        return none()
    M.add(MAP + r"::<.*>::get::<.*>", map_get)
    def map_remove(c, m, a):
        mp = deref(a[0])
        for i, e in enumerate(mp.entries):
            if c.decide(M.elem_eq(c, e[0], a[1])):
                del mp.entries[i]
                return some(e[1])
        return none()
    M.add(MAP + r"::<.*>::remove::<.*>", map_remove)

    def map_clear(c, m, a):
        deref(a[0]).entries[:] = []
        return UNIT
    M.add(MAP + r"::<.*>::clear", map_clear)
    M.add(MAP + r"::<.*>::contains_key::<.*>", lambda c, m, a: sbool(map_get(c, m, a).variant == "Some"))

    def map_extend(c, m, a):
        mp = deref(a[0])
        for kv in drain(c, to_iter(c, a[1])):
            map_insert(c, m, [a[0], kv.fields[0], kv.fields[1]])
        return UNIT
    M.add(r"<" + MAP + r"<.*> as Extend<.*>>::extend::<.*>", map_extend)

    # ---- Duration (value = Agg("Duration", [nanoseconds as a mathematical integer])) -----------------
    def dur(n):
        return Agg("Duration", None, [n if isinstance(n, SInt) else mk_int(n, "nat")])
    M.dur = dur

    def to_nat(v):
        if v.concrete:
            return mk_int(v.v, "nat")
        return mk_int(z3.BV2Int(v.z()), "nat")
    M.add(r"Duration::from_secs", lambda c, m, a: dur(mk_int(to_nat(a[0]).z() * 1000000000, "nat")))
    M.add(r"Duration::from_millis", lambda c, m, a: dur(mk_int(to_nat(a[0]).z() * 1000000, "nat")))
    M.add(r"Duration::is_zero", lambda c, m, a: sbool(char_eq(deref(a[0]).fields[0], mk_int(0, "nat"))))
    M.add(r"Duration::as_secs", lambda c, m, a: mk_int(z3.Int2BV(deref(a[0]).fields[0].z() / 1000000000, 64), "u64"))
    nz = lambda a: deref(a).fields[0].z()
    M.add(r"Duration::subsec_nanos", lambda c, m, a: mk_int(z3.Int2BV(nz(a[0]) % 1000000000, 32), "u32"))
    M.add(r"Duration::subsec_micros", lambda c, m, a: mk_int(z3.Int2BV((nz(a[0]) % 1000000000) / 1000, 32), "u32"))
    M.add(r"Duration::subsec_millis", lambda c, m, a: mk_int(z3.Int2BV((nz(a[0]) % 1000000000) / 1000000, 32), "u32"))
    M.add(r"Duration::as_millis", lambda c, m, a: mk_int(z3.Int2BV(nz(a[0]) / 1000000, 128), "u128"))
    M.add(r"Duration::as_nanos", lambda c, m, a: mk_int(z3.Int2BV(nz(a[0]), 128), "u128"))
    M.add(r"Duration::new", lambda c, m, a: dur(mk_int(to_nat(a[0]).z() * 1000000000 + to_nat(a[1]).z(), "nat")))
    M.add(r"Duration::from_micros", lambda c, m, a: dur(mk_int(to_nat(a[0]).z() * 1000, "nat")))
    M.add(r"Duration::from_nanos", lambda c, m, a: dur(mk_int(to_nat(a[0]).z(), "nat")))

    def dur_cmp(c, m, a):
        x, y = deref(a[0]).fields[0], deref(a[1]).fields[0]
        if c.decide(x.z() < y.z()):
            return Agg("Ordering", "Less", [])
        if c.decide(x.z() == y.z()):
            return Agg("Ordering", "Equal", [])
        return Agg("Ordering", "Greater", [])
    M.add(r"<Duration as Ord>::cmp", dur_cmp)
    M.add(r"<Duration as PartialOrd>::partial_cmp", lambda c, m, a: some(dur_cmp(c, m, a)))
    M.add(r"<Duration as PartialEq>::eq", lambda c, m, a: sbool(char_eq(deref(a[0]).fields[0], deref(a[1]).fields[0])))

    def bool_cmp(c, m, a):
        x, y = deref(a[0]), deref(a[1])
        xv, yv = x.z(), y.z()
        if c.decide(z3.And(z3.Not(xv), yv)):
            return Agg("Ordering", "Less", [])
        if c.decide(xv == yv):
            return Agg("Ordering", "Equal", [])
        return Agg("Ordering", "Greater", [])
    M.add(r"<bool as Ord>::cmp", bool_cmp)
    M.add(r"<bool as PartialOrd>::partial_cmp", lambda c, m, a: some(bool_cmp(c, m, a)))

    def opt_eq(c, m, a):
        x, y = deref(a[0]), deref(a[1])
        if isinstance(x, SymOpt) or isinstance(y, SymOpt):
            x, y = to_symopt(x), to_symopt(y)
            both = z_and([x.present.v, y.present.v])
            neither = z_and([z_not(x.present.v), z_not(y.present.v)])
            inner = M.elem_eq(c, x.fields[0], y.fields[0]) if x.fields[0] is not None and y.fields[0] is not None else False
            return sbool(z_or([neither, z_and([both, inner])]))
        return sbool(M.elem_eq(c, x, y))
    M.add(r"<(?:BTreeMap|HashMap)<.*> as PartialEq>::eq", lambda c, m, a: sbool(M.elem_eq(c, a[0], a[1])))
    M.add(r"<(?:BTreeMap|HashMap)<.*> as PartialEq>::ne", lambda c, m, a: sbool(z_not(M.elem_eq(c, a[0], a[1]))))
    M.add(r"<Option<.*> as PartialEq>::eq", opt_eq)
    M.add(r"<Option<.*> as PartialEq>::ne", lambda c, m, a: sbool(z_not(opt_eq(c, m, a).v)))

    M.add(r"<Option<.*> as Default>::default", lambda c, m, a: none())
    M.add(r"<" + MAP + r"<.*> as Default>::default", lambda c, m, a: MapBuf())
    M.add(r"<Vec<.*> as Default>::default", lambda c, m, a: VecBuf())
    M.add(r"<String as Default>::default", lambda c, m, a: StringBuf())
    M.add(r"<bool as Default>::default", lambda c, m, a: SBool(False))
    M.add(r"<(usize|u8|u16|u32|u64|i32|i64|isize) as Default>::default", lambda c, m, a: mk_int(0, m.group(1)))

    # more std contracts (kept in their own module); registered before the last resorts so that those stay last
    from mir_models_extra import register_extra
    register_extra(M, it_of, to_iter, drain)

    # last resorts: structural clone for owned values
    M.add(r"<.* as ToOwned>::to_owned|<.* as Clone>::clone", lambda c, m, a: deep_clone(deref(a[0])))

    # ---- errors (opaque) ---------------------------------------------------------------------
    M.add(r"anyhow::__private::format_err|anyhow::error::<impl anyhow::Error>::msg::<.*>|anyhow::Error::msg::<.*>|anyhow::__private::must_use", lambda c, m, a: Opaque("anyhow::Error"))
    M.add(r"<Result<.*> as anyhow::Context<.*>>::context::<.*>", lambda c, m, a: a[0] if a[0].variant == "Ok" else err(Opaque("anyhow::Error(context)")))
    M.add(r"<Result<.*> as anyhow::Context<.*>>::with_context::<.*>", lambda c, m, a: a[0] if a[0].variant == "Ok" else err(Opaque("anyhow::Error(context)")))
    M.add(r"<Option<.*> as anyhow::Context<.*>>::context::<.*>", lambda c, m, a: ok(a[0].fields[0]) if a[0].variant == "Some" else err(Opaque("anyhow::Error(context)")))
