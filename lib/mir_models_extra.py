"""More std contract models (strings, iterators, Option/Result, Vec/slices, integers, chars).  They exist so that a *changed* scrut
that starts using another std function is still decided instead of ending UNDECIDED; each follows the documented contract of the
function.  Text searches fork per position (short texts only); anything that would need a symbolic length raises Unsupported."""
import z3

from mir_exec import (INT_BITS, SIGNED, UNIT, Agg, Ref, SBool, SInt, Slice, Str, StringBuf, SymOpt, Unsupported, VecBuf, mk_bool, mk_int, new_ref)
from mir_models import (It, MapIt, SeqIt, as_items, as_str, char_eq, deref, err, in_ranges, none, ok, sbool, some, str_as_bytes, z_and, z_not, z_or)


def usize(n):
    return mk_int(n, "usize")


def conc(v, what="value"):
    v = deref(v)
    if not v.concrete:
        raise Unsupported("symbolic %s where a concrete one is needed" % what)
    return v.v


class TakeWhileIt(It):
    def __init__(self, inner, f):
        self.inner, self.f, self.done = inner, f, False

    def next(self, ctx):
        if self.done:
            return None
        v = self.inner.next(ctx)
        if v is None:
            return None
        if ctx.decide(ctx.call_callable(self.f, [new_ref(v)])):
            return v
        self.done = True
        return None


class SkipWhileIt(It):
    def __init__(self, inner, f):
        self.inner, self.f, self.started = inner, f, False

    def next(self, ctx):
        while True:
            v = self.inner.next(ctx)
            if v is None:
                return None
            if self.started or not ctx.decide(ctx.call_callable(self.f, [new_ref(v)])):
                self.started = True
                return v


class MapWhileIt(It):
    def __init__(self, inner, f):
        self.inner, self.f, self.done = inner, f, False

    def next(self, ctx):
        if self.done:
            return None
        v = self.inner.next(ctx)
        if v is None:
            return None
        r = ctx.call_callable(self.f, [v])
        if r.variant == "Some":
            return r.fields[0]
        self.done = True
        return None


class ZipIt(It):
    def __init__(self, x, y):
        self.x, self.y = x, y

    def next(self, ctx):
        p = self.x.next(ctx)
        if p is None:
            return None
        q = self.y.next(ctx)
        if q is None:
            return None
        return Agg("tuple", None, [p, q])


class StepByIt(It):
    def __init__(self, inner, n):
        self.inner, self.n, self.first = inner, n, True

    def next(self, ctx):
        if self.first:
            self.first = False
            return self.inner.next(ctx)
        v = None
        for _ in range(self.n):
            v = self.inner.next(ctx)
            if v is None:
                return None
        return v


def register_extra(M, it_of, to_iter, drain):
    IT = r"<.* as (?:Iterator|DoubleEndedIterator|IntoIterator)>"
    S = r"core::str::<impl str>::"
    dec = lambda c, x: c.decide(x.v if isinstance(x, SBool) else x)

    # ---- str: searching ---------------------------------------------------------------------------------------------------
    def needle_of(c, p):
        p = deref(p)
        if isinstance(p, SInt):
            return [p]
        return list(as_str(p).chars)

    def match_at(hay, i, needle):
        if i + len(needle) > len(hay):
            return False
        return z_and([char_eq(hay[i + k], needle[k]) for k in range(len(needle))])

    def byte_off(c, chars, i):
        return sum(c.cwidth(ch) for ch in chars[:i])

    def find_first(c, hay, needle, positions):
        for i in positions:
            f = match_at(hay, i, needle)
            if f is not False and dec(c, f):
                return i
        return None

    def s_contains(c, m, a):
        hay, needle = list(as_str(a[0]).chars), needle_of(c, a[1])
        return sbool(z_or([match_at(hay, i, needle) for i in range(len(hay) - len(needle) + 1)] or [len(needle) == 0]))
    M.add(S + r"contains::<(?:char|&str|&String|&&str)>", s_contains)

    def s_find(c, m, a):
        hay, needle = list(as_str(a[0]).chars), needle_of(c, a[1])
        i = find_first(c, hay, needle, range(len(hay) - len(needle) + 1))
        return none() if i is None else some(usize(byte_off(c, hay, i)))
    M.add(S + r"find::<(?:char|&str|&String)>", s_find)

    def s_rfind(c, m, a):
        hay, needle = list(as_str(a[0]).chars), needle_of(c, a[1])
        i = find_first(c, hay, needle, range(len(hay) - len(needle), -1, -1))
        return none() if i is None else some(usize(byte_off(c, hay, i)))
    M.add(S + r"rfind::<(?:char|&str|&String)>", s_rfind)

    def s_split_once(c, m, a):
        hay, needle = list(as_str(a[0]).chars), needle_of(c, a[1])
        i = find_first(c, hay, needle, range(len(hay) - len(needle) + 1))
        return none() if i is None else some(Agg("tuple", None, [Str(hay[:i]), Str(hay[i + len(needle):])]))
    M.add(S + r"split_once::<(?:char|&str)>", s_split_once)

    def s_rsplit_once(c, m, a):
        hay, needle = list(as_str(a[0]).chars), needle_of(c, a[1])
        i = find_first(c, hay, needle, range(len(hay) - len(needle), -1, -1))
        return none() if i is None else some(Agg("tuple", None, [Str(hay[:i]), Str(hay[i + len(needle):])]))
    M.add(S + r"rsplit_once::<(?:char|&str)>", s_rsplit_once)

    def split_all(c, hay, needle, limit=None):
        out, cur, i = [], [], 0
        while i < len(hay):
            if (limit is None or len(out) + 1 < limit) and needle and match_at(hay, i, needle) is not False and dec(c, match_at(hay, i, needle)):
                out.append(Str(cur))
                cur = []
                i += len(needle)
            else:
                cur.append(hay[i])
                i += 1
        out.append(Str(cur))
        return out
    M.add(S + r"split::<(?:&str|&String)>", lambda c, m, a: SeqIt(split_all(c, list(as_str(a[0]).chars), needle_of(c, a[1]))))
    M.add(S + r"splitn::<(?:char|&str)>", lambda c, m, a: SeqIt(split_all(c, list(as_str(a[0]).chars), needle_of(c, a[2]), conc(a[1], "splitn count"))))

    def s_split_ws(c, m, a):
        from mir_models import is_whitespace
        out, cur = [], []
        for ch in as_str(a[0]).chars:
            if dec(c, is_whitespace(ch)):
                if cur:
                    out.append(Str(cur))
                cur = []
            else:
                cur.append(ch)
        if cur:
            out.append(Str(cur))
        return SeqIt(out)
    M.add(S + r"split_whitespace|" + S + r"split_ascii_whitespace", s_split_ws)
    M.add(S + r"bytes", lambda c, m, a: SeqIt(list(str_as_bytes(c, as_str(a[0])).items)))

    def case_map(upper):
        def f(c, m, a):
            out = []
            for ch in as_str(a[0]).chars:
                if ch.concrete:
                    t = chr(ch.v).upper() if upper else chr(ch.v).lower()
                    out += [SInt(ord(x), "char") for x in t] if len(t.encode()) == len(chr(ch.v).encode()) or ch.v < 128 else [ch]
                elif c.cwidth(ch) == 1:
                    lo, hi, d = (97, 122, -32) if upper else (65, 90, 32)
                    out.append(mk_int(z3.If(z3.And(z3.UGE(ch.z(), lo), z3.ULE(ch.z(), hi)), ch.z() + d, ch.z()), "char"))
                    out[-1].width = 1
                else:
                    raise Unsupported("case mapping of a symbolic non-ASCII character")
            return StringBuf(out)
        return f
    M.add(S + r"to_uppercase|" + S + r"to_ascii_uppercase", case_map(True))
    M.add(S + r"to_lowercase|" + S + r"to_ascii_lowercase", case_map(False))

    def s_is_char_boundary(c, m, a):
        chars, idx = list(as_str(a[0]).chars), deref(a[1])
        bounds = [0]
        for ch in chars:
            bounds.append(bounds[-1] + c.cwidth(ch))
        if idx.concrete:
            return SBool(idx.v in bounds)
        return sbool(z_or([idx.z() == b for b in bounds]))
    M.add(S + r"is_char_boundary", s_is_char_boundary)

    def s_eq_ignore_case(c, m, a):
        x, y = case_map(False)(c, m, [a[0]]), case_map(False)(c, m, [a[1]])
        if len(x.chars) != len(y.chars):
            return SBool(False)
        return sbool(z_and([char_eq(p, q) for p, q in zip(x.chars, y.chars)]))
    M.add(S + r"eq_ignore_ascii_case", s_eq_ignore_case)

    # ---- iterator adaptors / consumers --------------------------------------------------------------------------------------
    def it_find(c, m, a):
        it = it_of(a[0])
        while True:
            v = it.next(c)
            if v is None:
                return none()
            if dec(c, c.call_callable(a[1], [new_ref(v)])):
                return some(v)
    M.add(IT + r"::find::<.*>", it_find)

    def it_rfind(c, m, a):
        it = it_of(a[0])
        while True:
            v = it.next_back(c)
            if v is None:
                return none()
            if dec(c, c.call_callable(a[1], [new_ref(v)])):
                return some(v)
    M.add(IT + r"::rfind::<.*>", it_rfind)

    def it_rposition(c, m, a):
        xs = drain(c, it_of(a[0]))
        for i in range(len(xs) - 1, -1, -1):
            if dec(c, c.call_callable(a[1], [xs[i]])):
                return some(usize(i))
        return none()
    M.add(IT + r"::rposition::<.*>", it_rposition)
    M.add(IT + r"::find_map::<.*>", lambda c, m, a: next((r for r in (c.call_callable(a[1], [v]) for v in drain(c, it_of(a[0]))) if r.variant == "Some"), none()))
    M.add(IT + r"::take_while::<.*>", lambda c, m, a: TakeWhileIt(it_of(a[0]), a[1]))
    M.add(IT + r"::skip_while::<.*>", lambda c, m, a: SkipWhileIt(it_of(a[0]), a[1]))
    M.add(IT + r"::map_while::<.*>", lambda c, m, a: MapWhileIt(it_of(a[0]), a[1]))
    M.add(IT + r"::zip::<.*>", lambda c, m, a: ZipIt(it_of(a[0]), to_iter(c, a[1])))
    M.add(IT + r"::step_by", lambda c, m, a: StepByIt(it_of(a[0]), conc(a[1], "step")))

    def it_flat_map(c, m, a):
        out = []
        for v in drain(c, it_of(a[0])):
            out += drain(c, to_iter(c, c.call_callable(a[1], [v])))
        return SeqIt(out)
    M.add(IT + r"::flat_map::<.*>", it_flat_map)

    def fold_ints(c, xs, op):
        xs = [deref(x) for x in xs]
        acc = xs[0]
        for x in xs[1:]:
            acc = op(acc, x)
        return acc

    def int_min(x, y):
        if x.concrete and y.concrete:
            sx = x.v - (1 << INT_BITS[x.ty]) if x.ty in SIGNED and x.v >= 1 << (INT_BITS[x.ty] - 1) else x.v
            sy = y.v - (1 << INT_BITS[y.ty]) if y.ty in SIGNED and y.v >= 1 << (INT_BITS[y.ty] - 1) else y.v
            return x if sx <= sy else y
        le = (x.z() <= y.z()) if x.ty in SIGNED else z3.ULE(x.z(), y.z())
        return mk_int(z3.If(le, x.z(), y.z()), x.ty)

    def it_min(c, m, a):
        xs = drain(c, it_of(a[0]))
        return some(fold_ints(c, xs, int_min)) if xs else none()
    M.add(IT + r"::min", it_min)

    def it_sum(c, m, a):
        xs = [deref(x) for x in drain(c, it_of(a[0]))]
        ty = m.group("t") if m.groupdict().get("t") else (xs[0].ty if xs else "usize")
        acc = mk_int(0, ty)
        for x in xs:
            acc = c.binop("Add", acc, x)
        return acc
    M.add(IT + r"::sum::<(?P<t>usize|u8|u16|u32|u64|i32|i64|isize)>", it_sum)
    M.add(r"<(?P<t>usize|u8|u16|u32|u64|i32|i64|isize) as Sum<&?(?:usize|u8|u16|u32|u64|i32|i64|isize)>>::sum::<.*>", it_sum)

    def by_key(pick_max):
        def f(c, m, a):
            xs = drain(c, it_of(a[0]))
            if not xs:
                return none()
            best, bk = xs[0], deref(c.call_callable(a[1], [new_ref(xs[0])]))
            for x in xs[1:]:
                k = deref(c.call_callable(a[1], [new_ref(x)]))
                if not (isinstance(k, SInt) and isinstance(bk, SInt)):
                    raise Unsupported("max_by_key / min_by_key on a non-integer key")
                ge = (k.z() >= bk.z()) if k.ty in SIGNED else z3.UGE(k.z(), bk.z())
                lt = z3.Not(ge)
                if dec(c, ge if pick_max else lt):      # max_by_key returns the last maximum, min_by_key the first minimum
                    best, bk = x, k
            return some(best)
        return f
    M.add(IT + r"::max_by_key::<.*>", by_key(True))
    M.add(IT + r"::min_by_key::<.*>", by_key(False))

    # ---- Option / Result ---------------------------------------------------------------------------------------------------------
    def concrete_opt(c, o):
        o = deref(o) if isinstance(o, Ref) else o
        if isinstance(o, SymOpt):
            return some(o.fields[0]) if c.decide(o.present.v if o.present.concrete else o.present.z()) else none()
        return o
    M.add(r"Option::<.*>::map_or_else::<.*>", lambda c, m, a: (lambda o: c.call_callable(a[2], [o.fields[0]]) if o.variant == "Some" else c.call_callable(a[1], []))(concrete_opt(c, a[0])))
    M.add(r"Option::<.*>::and::<.*>", lambda c, m, a: (lambda o: a[1] if o.variant == "Some" else none())(concrete_opt(c, a[0])))
    M.add(r"Option::<.*>::xor", lambda c, m, a: (lambda o, p: o if (o.variant == "Some") != (p.variant == "Some") and o.variant == "Some" else (p if (o.variant == "Some") != (p.variant == "Some") else none()))(concrete_opt(c, a[0]), concrete_opt(c, a[1])))
    M.add(r"Option::<.*>::zip::<.*>", lambda c, m, a: (lambda o, p: some(Agg("tuple", None, [o.fields[0], p.fields[0]])) if o.variant == "Some" and p.variant == "Some" else none())(concrete_opt(c, a[0]), concrete_opt(c, a[1])))

    def opt_take(c, m, a):
        r = a[0]
        old = concrete_opt(c, r.loc.get())
        r.loc.set(none())
        return old
    M.add(r"Option::<.*>::take", opt_take)

    def opt_replace(c, m, a):
        r = a[0]
        old = concrete_opt(c, r.loc.get())
        r.loc.set(some(a[1]))
        return old
    M.add(r"Option::<.*>::replace", opt_replace)
    M.add(r"Option::<.*>::is_none_or::<.*>", lambda c, m, a: (lambda o: SBool(True) if o.variant != "Some" else c.call_callable(a[1], [o.fields[0]]))(concrete_opt(c, a[0])))
    M.add(r"Option::<.*>::inspect::<.*>", lambda c, m, a: a[0])
    M.add(r"Option::<Option<.*>>::flatten", lambda c, m, a: (lambda o: concrete_opt(c, o.fields[0]) if o.variant == "Some" else none())(concrete_opt(c, a[0])))

    def opt_get_or_insert_with(c, m, a):
        r = a[0]
        o = concrete_opt(c, r.loc.get())
        if o.variant != "Some":
            o = some(c.call_callable(a[1], []))
            r.loc.set(o)
        holder = r.loc.get()
        from mir_exec import Loc

        def setter(v, holder=holder):
            holder.fields[0] = v
        return Ref(Loc(lambda holder=holder: holder.fields[0], setter, "Option payload"), True)
    M.add(r"Option::<.*>::get_or_insert_with::<.*>", opt_get_or_insert_with)
    M.add(r"Result::<.*>::err", lambda c, m, a: some(a[0].fields[0]) if a[0].variant == "Err" else none())
    M.add(r"Result::<.*>::unwrap_or_else::<.*>", lambda c, m, a: a[0].fields[0] if a[0].variant == "Ok" else c.call_callable(a[1], [a[0].fields[0]]))
    M.add(r"Result::<.*>::map_or::<.*>", lambda c, m, a: c.call_callable(a[2], [a[0].fields[0]]) if a[0].variant == "Ok" else a[1])
    M.add(r"Result::<.*>::is_ok_and::<.*>", lambda c, m, a: c.call_callable(a[1], [a[0].fields[0]]) if a[0].variant == "Ok" else SBool(False))
    M.add(r"Result::<.*>::is_err_and::<.*>", lambda c, m, a: c.call_callable(a[1], [a[0].fields[0]]) if a[0].variant == "Err" else SBool(False))
    M.add(r"Result::<.*>::or_else::<.*>", lambda c, m, a: a[0] if a[0].variant == "Ok" else c.call_callable(a[1], [a[0].fields[0]]))

    # ---- Vec / slices ---------------------------------------------------------------------------------------------------------------
    V = r"Vec::<.*>::"
    SL = r"core::slice::<impl \[.*\]>::"

    def vec_insert(c, m, a):
        v = deref(a[0])
        i = conc(a[1], "insert index")
        if i > len(v.items):
            from mir_exec import Panic
            raise Panic("insertion index (is %d) should be <= len (is %d)" % (i, len(v.items)))
        v.items.insert(i, a[2])
        return UNIT
    M.add(V + r"insert", vec_insert)

    def vec_remove(c, m, a):
        v = deref(a[0])
        i = conc(a[1], "remove index")
        if i >= len(v.items):
            from mir_exec import Panic
            raise Panic("removal index (is %d) should be < len (is %d)" % (i, len(v.items)))
        return v.items.pop(i)
    M.add(V + r"remove", vec_remove)

    def vec_swap_remove(c, m, a):
        v = deref(a[0])
        i = conc(a[1], "swap_remove index")
        if i >= len(v.items):
            from mir_exec import Panic
            raise Panic("swap_remove index (is %d) should be < len (is %d)" % (i, len(v.items)))
        x = v.items[i]
        v.items[i] = v.items[-1]
        v.items.pop()
        return x
    M.add(V + r"swap_remove", vec_swap_remove)

    def vec_retain(c, m, a):
        v = deref(a[0])
        v.items[:] = [x for x in v.items if dec(c, c.call_callable(a[1], [new_ref(x)]))]
        return UNIT
    M.add(V + r"retain::<.*>", vec_retain)

    def map_retain(c, m, a):
        mp = deref(a[0])
        mp.entries[:] = [e for e in mp.entries if dec(c, c.call_callable(a[1], [new_ref(e[0]), new_ref(e[1], True)]))]
        return UNIT
    M.add(r"(?:BTreeMap|HashMap)::<.*>::retain::<.*>", map_retain)

    def vec_dedup_by(c, m, a):
        # removes every element for which same_bucket(&mut it, &mut last kept) holds
        v = deref(a[0])
        kept = []
        for x in v.items:
            if kept and dec(c, c.call_callable(a[1], [new_ref(x, True), new_ref(kept[-1], True)])):
                continue
            kept.append(x)
        v.items[:] = kept
        return UNIT
    M.add(V + r"dedup_by::<.*>", vec_dedup_by)

    def vec_truncate(c, m, a):
        v = deref(a[0])
        del v.items[conc(a[1], "truncate length"):]
        return UNIT
    M.add(V + r"truncate", vec_truncate)

    def vec_pop(c, m, a):
        v = deref(a[0])
        return some(v.items.pop()) if v.items else none()
    M.add(V + r"pop", vec_pop)
    M.add(V + r"first|" + SL + r"first", lambda c, m, a: (lambda xs: some(new_ref(xs[0])) if xs else none())(as_items(a[0])))
    M.add(V + r"last|" + SL + r"last", lambda c, m, a: (lambda xs: some(new_ref(xs[-1])) if xs else none())(as_items(a[0])))
    M.add(V + r"reserve|" + V + r"reserve_exact|" + V + r"shrink_to_fit", lambda c, m, a: UNIT)

    def vec_split_off(c, m, a):
        v = deref(a[0])
        i = conc(a[1], "split_off index")
        tail = v.items[i:]
        del v.items[i:]
        return VecBuf(tail)
    M.add(V + r"split_off", vec_split_off)

    def vec_resize(c, m, a):
        v = deref(a[0])
        n = conc(a[1], "resize length")
        from mir_exec import clone_value
        while len(v.items) < n:
            v.items.append(clone_value(a[2]))
        del v.items[n:]
        return UNIT
    M.add(V + r"resize", vec_resize)

    def vec_dedup(c, m, a):
        v = deref(a[0])
        out = []
        for x in v.items:
            if out and dec(c, M.elem_eq(c, out[-1], x)):
                continue
            out.append(x)
        v.items[:] = out
        return UNIT
    M.add(V + r"dedup", vec_dedup)
    M.add(V + r"contains", lambda c, m, a: sbool(z_or([M.elem_eq(c, x, a[1]) for x in as_items(a[0])])))

    def vec_drain(c, m, a):
        v = deref(a[0])
        r = deref(a[1])
        lo = conc(r.fields[0], "range start") if r.ty in ("Range", "RangeFrom") else 0
        hi = conc(r.fields[1], "range end") if r.ty == "Range" else (conc(r.fields[0], "range end") if r.ty == "RangeTo" else len(v.items))
        out = v.items[lo:hi]
        del v.items[lo:hi]
        return SeqIt(out)
    M.add(V + r"drain::<.*>", vec_drain)

    def sl_get_mut(c, m, a):
        xs = as_items(a[0])
        i = conc(a[1], "index")
        return some(new_ref(xs[i], True)) if i < len(xs) else none()
    M.add(SL + r"get_mut::<usize>", sl_get_mut)
    M.add(SL + r"chunks", lambda c, m, a: (lambda xs, n: SeqIt([Slice(xs[i:i + n]) for i in range(0, len(xs), n)]))(as_items(a[0]), conc(a[1], "chunk size")))

    def sl_split_at(c, m, a):
        xs = as_items(a[0])
        i = conc(a[1], "split index")
        if i > len(xs):
            from mir_exec import Panic
            raise Panic("mid > len")
        return Agg("tuple", None, [Slice(xs[:i]), Slice(xs[i:])])
    M.add(SL + r"split_at", sl_split_at)
    M.add(SL + r"split_first", lambda c, m, a: (lambda xs: some(Agg("tuple", None, [new_ref(xs[0]), Slice(xs[1:])])) if xs else none())(as_items(a[0])))
    M.add(SL + r"split_last", lambda c, m, a: (lambda xs: some(Agg("tuple", None, [new_ref(xs[-1]), Slice(xs[:-1])])) if xs else none())(as_items(a[0])))

    def sl_reverse(c, m, a):
        v = deref(a[0])
        v.items = list(v.items)[::-1]
        return UNIT
    M.add(SL + r"reverse", sl_reverse)

    def sl_swap(c, m, a):
        v = deref(a[0])
        xs = list(v.items)
        i, j = conc(a[1], "index"), conc(a[2], "index")
        xs[i], xs[j] = xs[j], xs[i]
        v.items = xs
        return UNIT
    M.add(SL + r"swap", sl_swap)

    def sl_fill(c, m, a):
        xs = deref(a[0]).items
        from mir_exec import clone_value
        xs[:] = [clone_value(a[1]) for _ in xs]
        return UNIT
    M.add(SL + r"fill", sl_fill)
    M.add(SL + r"repeat", lambda c, m, a: VecBuf(list(as_items(a[0])) * conc(a[1], "repeat count")))

    # ---- integers -------------------------------------------------------------------------------------------------------------------------
    INT = r"(?P<t>usize|u8|u16|u32|u64|i8|i16|i32|i64|isize)"
    NUM = r"core::num::<impl " + INT + r">::"

    def checked(op):
        def f(c, m, a):
            x, y = deref(a[0]), deref(a[1])
            ty = m.group("t")
            bits = INT_BITS[ty]
            signed = ty in SIGNED
            ext = z3.SignExt if signed else z3.ZeroExt
            wx, wy = ext(bits, x.z()), ext(bits, y.z())
            if op == "div":
                if dec(c, y.z() == 0):
                    return none()
                return some(c.binop("Div", x, y))
            wide = {"add": wx + wy, "sub": wx - wy, "mul": wx * wy}[op]
            lo = -(1 << (bits - 1)) if signed else 0
            hi = (1 << (bits - 1)) - 1 if signed else (1 << bits) - 1
            fits = z3.And(wide >= lo, wide <= hi) if signed else z3.And(z3.UGE(wide, lo) if lo else z3.BoolVal(True), z3.ULE(wide, hi)) if op != "sub" else (z3.UGE(x.z(), y.z()) if not signed else z3.And(wide >= lo, wide <= hi))
            if dec(c, z3.simplify(fits)):
                return some(mk_int(z3.simplify(z3.Extract(bits - 1, 0, wide)), ty))
            return none()
        return f
    for op in ("add", "sub", "mul", "div"):
        M.add(NUM + r"checked_%s" % op, checked(op))

    def wrapping(op):
        def f(c, m, a):
            x, y = deref(a[0]), deref(a[1])
            z = {"add": x.z() + y.z(), "sub": x.z() - y.z(), "mul": x.z() * y.z()}[op]
            return mk_int(z3.simplify(z), m.group("t"))
        return f
    for op in ("add", "sub", "mul"):
        M.add(NUM + r"wrapping_%s" % op, wrapping(op))

    def sat_add(c, m, a):
        x, y = deref(a[0]), deref(a[1])
        ty = m.group("t")
        if ty in SIGNED:
            raise Unsupported("signed saturating_add")
        bits = INT_BITS[ty]
        wide = z3.ZeroExt(1, x.z()) + z3.ZeroExt(1, y.z())
        return mk_int(z3.simplify(z3.If(z3.Extract(bits, bits, wide) == 1, z3.BitVecVal((1 << bits) - 1, bits), z3.Extract(bits - 1, 0, wide))), ty)
    M.add(NUM + r"saturating_add", sat_add)

    def abs_diff(c, m, a):
        x, y = deref(a[0]), deref(a[1])
        ty = m.group("t")
        ge = (x.z() >= y.z()) if ty in SIGNED else z3.UGE(x.z(), y.z())
        out_ty = {"i8": "u8", "i16": "u16", "i32": "u32", "i64": "u64", "isize": "usize"}.get(ty, ty)
        return mk_int(z3.simplify(z3.If(ge, x.z() - y.z(), y.z() - x.z())), out_ty)
    M.add(NUM + r"abs_diff", abs_diff)

    def int_pow(c, m, a):
        x, e = deref(a[0]), conc(a[1], "exponent")
        acc = mk_int(1, m.group("t"))
        for _ in range(e):
            acc = c.binop("Mul", acc, x)
        return acc
    M.add(NUM + r"pow", int_pow)

    def int_abs(c, m, a):
        x = deref(a[0])
        if dec(c, x.z() == z3.BitVecVal(1 << (INT_BITS[x.ty] - 1), INT_BITS[x.ty])):
            from mir_exec import Panic
            raise Panic("attempt to negate with overflow")
        return mk_int(z3.simplify(z3.If(x.z() < 0, -x.z(), x.z())), x.ty)
    M.add(r"core::num::<impl (?:i8|i16|i32|i64|isize)>::abs", int_abs)
    M.add(NUM + r"is_power_of_two", lambda c, m, a: sbool(z3.And(deref(a[0]).z() != 0, (deref(a[0]).z() & (deref(a[0]).z() - 1)) == 0)))

    def cmp_int(c, m, a):
        x, y = deref(deref(a[0])), deref(deref(a[1]))
        signed = x.ty in SIGNED
        lt = (x.z() < y.z()) if signed else z3.ULT(x.z(), y.z())
        if dec(c, lt):
            return Agg("Ordering", "Less", [])
        return Agg("Ordering", "Equal", []) if dec(c, x.z() == y.z()) else Agg("Ordering", "Greater", [])
    M.add(r"<&?" + INT + r" as Ord>::cmp", cmp_int)
    M.add(r"<&?" + INT + r" as PartialOrd>::partial_cmp", lambda c, m, a: some(cmp_int(c, m, a)))

    def rel(op):
        def f(c, m, a):
            x, y = deref(deref(a[0])), deref(deref(a[1]))
            s = x.ty in SIGNED
            e = {"lt": (x.z() < y.z()) if s else z3.ULT(x.z(), y.z()), "le": (x.z() <= y.z()) if s else z3.ULE(x.z(), y.z()),
                 "gt": (x.z() > y.z()) if s else z3.UGT(x.z(), y.z()), "ge": (x.z() >= y.z()) if s else z3.UGE(x.z(), y.z())}[op]
            return sbool(z3.simplify(e))
        return f
    for op in ("lt", "le", "gt", "ge"):
        M.add(r"<&?" + INT + r" as PartialOrd(?:<&?" + INT.replace("?P<t>", "?:") + r">)?>::%s" % op, rel(op))

    def int_clamp(c, m, a):
        x, lo, hi = deref(a[0]), deref(a[1]), deref(a[2])
        s = x.ty in SIGNED
        below = (x.z() < lo.z()) if s else z3.ULT(x.z(), lo.z())
        above = (x.z() > hi.z()) if s else z3.UGT(x.z(), hi.z())
        return mk_int(z3.simplify(z3.If(below, lo.z(), z3.If(above, hi.z(), x.z()))), x.ty)
    M.add(r"<" + INT + r" as Ord>::clamp", int_clamp)

    def generic_max(c, m, a):
        x, y = deref(a[0]), deref(a[1])
        s = x.ty in SIGNED
        ge = (y.z() >= x.z()) if s else z3.UGE(y.z(), x.z())
        return mk_int(z3.simplify(z3.If(ge, y.z(), x.z())), x.ty)
    M.add(r"std::cmp::max::<(?:u8|u16|u32|u64|i32|i64|isize)>|<(?:u8|u16|u32|u64|i32|i64|isize) as Ord>::max", generic_max)
    M.add(r"std::cmp::min::<(?:u8|u16|u32|u64|i32|i64|isize)>|<(?:u8|u16|u32|u64|i32|i64|isize) as Ord>::min", lambda c, m, a: int_min(deref(a[0]), deref(a[1])))

    # ---- u8 / char classes -----------------------------------------------------------------------------------------------------------------------
    U8 = r"core::num::<impl u8>::"
    CH = r"(?:core::)?char::methods::<impl char>::"
    cls = {"is_ascii_digit": [(48, 57)], "is_ascii_alphabetic": [(65, 90), (97, 122)], "is_ascii_alphanumeric": [(48, 57), (65, 90), (97, 122)],
           "is_ascii_whitespace": [(9, 10), (12, 13), (32, 32)], "is_ascii_control": [(0, 31), (127, 127)], "is_ascii_graphic": [(33, 126)],
           "is_ascii_punctuation": [(33, 47), (58, 64), (91, 96), (123, 126)], "is_ascii_uppercase": [(65, 90)], "is_ascii_lowercase": [(97, 122)],
           "is_ascii_hexdigit": [(48, 57), (65, 70), (97, 102)], "is_ascii": [(0, 127)]}
    for name, ranges in cls.items():
        M.add(U8 + name, lambda c, m, a, ranges=ranges: sbool(in_ranges(deref(a[0]), ranges)))
        if not M.has_model("char::methods::<impl char>::" + name):
            M.add(CH + name, lambda c, m, a, ranges=ranges: sbool(in_ranges(deref(a[0]), ranges)))

    def ascii_case(upper):
        def f(c, m, a):
            x = deref(a[0])
            lo, hi, d = (97, 122, -32) if upper else (65, 90, 32)
            if x.concrete:
                return mk_int(x.v + d if lo <= x.v <= hi else x.v, x.ty)
            r = mk_int(z3.simplify(z3.If(z3.And(z3.UGE(x.z(), lo), z3.ULE(x.z(), hi)), x.z() + d, x.z())), x.ty)
            if hasattr(x, "width"):
                try:
                    r.width = x.width
                except Exception:
                    pass
            return r
        return f
    M.add(U8 + r"to_ascii_lowercase|" + CH + r"to_ascii_lowercase", ascii_case(False))
    M.add(U8 + r"to_ascii_uppercase|" + CH + r"to_ascii_uppercase", ascii_case(True))

    def uni_class(pred_name):
        def f(c, m, a):
            x = deref(a[0])
            if x.concrete:
                return SBool(getattr(chr(x.v), pred_name)())
            if c.cwidth(x) == 1:
                rng = {"isalpha": [(65, 90), (97, 122)], "isalnum": [(48, 57), (65, 90), (97, 122)], "isnumeric": [(48, 57)],
                       "isupper": [(65, 90)], "islower": [(97, 122)]}[pred_name]
                return sbool(in_ranges(x, rng))
            raise Unsupported("Unicode class of a symbolic non-ASCII character")
        return f
    for rust, py in (("is_alphabetic", "isalpha"), ("is_alphanumeric", "isalnum"), ("is_numeric", "isnumeric"), ("is_uppercase", "isupper"), ("is_lowercase", "islower")):
        if not M.has_model("char::methods::<impl char>::" + rust):
            M.add(CH + rust, uni_class(py))

    def to_digit(c, m, a):
        x, radix = deref(a[0]), conc(a[1], "radix")
        for d in range(radix):
            ch = "0123456789abcdefghijklmnopqrstuvwxyz"[d]
            alts = [char_eq(x, SInt(ord(ch), "char"))] + ([char_eq(x, SInt(ord(ch.upper()), "char"))] if ch.isalpha() else [])
            if dec(c, z_or(alts)):
                return some(mk_int(d, "u32"))
        return none()
    M.add(CH + r"to_digit", to_digit)

    # ---- mem / String ------------------------------------------------------------------------------------------------------------------------------------
    def mem_swap(c, m, a):
        x, y = a[0].loc.get(), a[1].loc.get()
        a[0].loc.set(y)
        a[1].loc.set(x)
        return UNIT
    M.add(r"(?:std|core)::mem::swap::<.*>", mem_swap)

    def mem_replace(c, m, a):
        old = a[0].loc.get()
        a[0].loc.set(a[1])
        return old
    M.add(r"(?:std|core)::mem::replace::<.*>", mem_replace)

    def mem_take(c, m, a):
        old = a[0].loc.get()
        empty = VecBuf([]) if isinstance(old, VecBuf) else StringBuf([]) if isinstance(old, StringBuf) else none() if isinstance(old, Agg) and old.ty == "Option" else None
        if empty is None:
            if isinstance(old, SInt):
                empty = mk_int(0, old.ty)
            elif isinstance(old, SBool):
                empty = SBool(False)
            else:
                raise Unsupported("mem::take of %r" % (old,))
        a[0].loc.set(empty)
        return old
    M.add(r"(?:std|core)::mem::take::<.*>", mem_take)

    def char_pos(c, chars, byte_idx, what):
        pos = 0
        for i, ch in enumerate(chars):
            if pos == byte_idx:
                return i
            pos += c.cwidth(ch)
        if pos == byte_idx:
            return len(chars)
        from mir_exec import Panic
        raise Panic("%s: byte index %d is not a char boundary" % (what, byte_idx))

    def string_insert(c, m, a):
        s = deref(a[0])
        i = char_pos(c, s.chars, conc(a[1], "insert index"), "String::insert")
        s.chars[i:i] = [deref(a[2])] if isinstance(deref(a[2]), SInt) else list(as_str(a[2]).chars)
        return UNIT
    M.add(r"String::insert|String::insert_str", string_insert)
    M.add(r"String::pop", lambda c, m, a: (lambda s: some(s.chars.pop()) if s.chars else none())(deref(a[0])))

    def string_truncate(c, m, a):
        s = deref(a[0])
        n = conc(a[1], "truncate length")
        total = sum(c.cwidth(ch) for ch in s.chars)
        if n < total:
            del s.chars[char_pos(c, s.chars, n, "String::truncate"):]
        return UNIT
    M.add(r"String::truncate", string_truncate)

    def string_clear(c, m, a):
        deref(a[0]).chars[:] = []
        return UNIT
    M.add(r"String::clear", string_clear)

    def string_remove(c, m, a):
        s = deref(a[0])
        i = char_pos(c, s.chars, conc(a[1], "remove index"), "String::remove")
        if i >= len(s.chars):
            from mir_exec import Panic
            raise Panic("cannot remove a char from the end of a string")
        return s.chars.pop(i)
    M.add(r"String::remove", string_remove)

    def string_retain(c, m, a):
        s = deref(a[0])
        s.chars[:] = [ch for ch in s.chars if dec(c, c.call_callable(a[1], [ch]))]
        return UNIT
    M.add(r"String::retain::<.*>", string_retain)

    def string_extend(c, m, a):
        s = deref(a[0])
        for v in drain(c, to_iter(c, a[1])):
            v = deref(v)
            s.chars.extend([v] if isinstance(v, SInt) else list(as_str(v).chars))
        return UNIT
    M.add(r"String::extend::<.*>|<String as Extend<.*>>::extend::<.*>", string_extend)

    def string_from_iter(c, m, a):
        out = StringBuf([])
        string_extend(c, m, [new_ref(out, True), a[0]])
        return out
    M.add(r"<String as FromIterator<.*>>::from_iter::<.*>", string_from_iter)

    M.add(r"<Vec<.*> as FromIterator<.*>>::from_iter::<.*>", lambda c, m, a: VecBuf(list(drain(c, to_iter(c, a[0])))))

    def string_write_str(c, m, a):
        deref(a[0]).chars.extend(as_str(a[1]).chars)
        return ok(UNIT)
    M.add(r"<String as (?:std::fmt::|core::fmt::)?Write>::write_str", string_write_str)

    def string_write_fmt(c, m, a):
        from mir_models import render_arguments
        deref(a[0]).chars.extend(render_arguments(c, a[1]))
        return ok(UNIT)
    M.add(r"<String as (?:std::fmt::|core::fmt::)?Write>::write_fmt", string_write_fmt)

    def string_add_assign(c, m, a):
        deref(a[0]).chars.extend(as_str(a[1]).chars)
        return UNIT
    M.add(r"<String as AddAssign<&str>>::add_assign", string_add_assign)

    def string_split_off(c, m, a):
        s = deref(a[0])
        i = char_pos(c, s.chars, conc(a[1], "split_off index"), "String::split_off")
        tail = s.chars[i:]
        del s.chars[i:]
        return StringBuf(tail)
    M.add(r"String::split_off", string_split_off)
    M.add(r"<bool as Not>::not", lambda c, m, a: sbool(z_not(deref(a[0]).v if deref(a[0]).concrete else deref(a[0]).z())))

    def assign_op(op):
        def f(c, m, a):
            a[0].loc.set(c.binop(op, a[0].loc.get(), deref(a[1])))
            return UNIT
        return f
    for tr, op in (("AddAssign", "Add"), ("SubAssign", "Sub"), ("MulAssign", "Mul")):
        M.add(r"<" + INT.replace("?P<t>", "?:") + r" as " + tr + r"(?:<&?" + INT.replace("?P<t>", "?:") + r">)?>::[a-z_]+", assign_op(op))

    def int_from_str(c, m, a):
        ty = m.group("t")
        chars = list(as_str(a[0]).chars)
        if not all(ch.concrete for ch in chars):
            raise Unsupported("parse of symbolic text")
        text = "".join(chr(ch.v) for ch in chars)
        try:
            n = int(text, 10)
            if not text or not (text[0].isdigit() or (text[0] in "+-" and len(text) > 1)) or not text.lstrip("+-").isdigit() or (text[0] == "-" and ty not in SIGNED):
                raise ValueError
            bits = INT_BITS[ty]
            lo, hi = (-(1 << (bits - 1)), (1 << (bits - 1)) - 1) if ty in SIGNED else (0, (1 << bits) - 1)
            if not lo <= n <= hi:
                raise ValueError
        except ValueError:
            return err(Agg("ParseIntError", None, []))
        return ok(mk_int(n & ((1 << INT_BITS[ty]) - 1), ty))
    M.add(r"<" + INT + r" as FromStr>::from_str", int_from_str)
    M.add(S + r"parse::<" + INT + r">", int_from_str)

    def try_from_int(c, m, a):
        x = deref(a[0])
        ty = m.group("t")
        bits, sb = INT_BITS[ty], INT_BITS[x.ty]
        wide = z3.SignExt(64, x.z()) if x.ty in SIGNED else z3.ZeroExt(64, x.z())
        lo, hi = (-(1 << (bits - 1)), (1 << (bits - 1)) - 1) if ty in SIGNED else (0, (1 << bits) - 1)
        if dec(c, z3.simplify(z3.And(wide >= lo, wide <= hi))):
            val = z3.Extract(bits - 1, 0, wide) if bits <= sb + 64 else wide
            return ok(mk_int(z3.simplify(val), ty))
        return err(Agg("TryFromIntError", None, []))
    M.add(r"<" + INT + r" as TryFrom<(?:usize|u8|u16|u32|u64|i8|i16|i32|i64|isize)>>::try_from", try_from_int)
    M.add(r"<(?:usize|u8|u16|u32|u64|i8|i16|i32|i64|isize) as TryInto<" + INT + r">>::try_into", try_from_int)
