"""Parser for rustc's `-Zunpretty=mir` text (nightly 1.97): functions, locals, basic blocks,
statements, terminators, places, operands, rvalues.  Only what the symbolic executor needs; types
are kept as text."""
import re

BINOPS = {"Add", "Sub", "Mul", "Div", "Rem", "BitXor", "BitAnd", "BitOr", "Shl", "Shr", "Eq", "Lt", "Le",
          "Ne", "Ge", "Gt", "Cmp", "Offset", "AddWithOverflow", "SubWithOverflow", "MulWithOverflow",
          "AddUnchecked", "SubUnchecked", "MulUnchecked", "ShlUnchecked", "ShrUnchecked"}
UNOPS = {"Not", "Neg", "PtrMetadata", "discriminant", "Len", "CopyForDeref", "ShallowInitBox"}

OPEN = "([{<"
CLOSE = ")]}>"
PAIR = {")": "(", "]": "[", "}": "{", ">": "<"}


class ParseError(Exception):
    pass


def scan(s, i=0):
    """generator over (index, char, depth) that skips string/char literals; depth counts ([{<"""
    depth = 0
    n = len(s)
    while i < n:
        c = s[i]
        if c == '"':
            j = i + 1
            while j < n and s[j] != '"':
                j += 2 if s[j] == "\\" else 1
            i = j + 1
            continue
        if c == "'":
            # char literal or lifetime
            if i + 2 < n and s[i + 1] == "\\":
                j = s.index("'", i + 3)
                i = j + 1
                continue
            if i + 2 < n and s[i + 2] == "'":
                i += 3
                continue
            # multi-byte char literal e.g. '↦' (python str: single code point) handled above; lifetime:
            i += 1
            continue
        if c == "-" and i + 1 < n and s[i + 1] == ">":
            i += 2
            continue
        if c == "=" and i + 1 < n and s[i + 1] == ">":
            i += 2
            continue
        if c in OPEN:
            yield i, c, depth
            depth += 1
            i += 1
            continue
        if c in CLOSE:
            depth -= 1
            yield i, c, depth
            i += 1
            continue
        yield i, c, depth
        i += 1


def split_top(s, sep=","):
    """split at top-level occurrences of the single-char separator"""
    parts = []
    last = 0
    for i, c, d in scan(s):
        if c == sep and d == 0:
            parts.append(s[last:i].strip())
            last = i + 1
    tail = s[last:].strip()
    if tail or parts:
        parts.append(tail)
    return [p for p in parts if p != ""] if sep == "," else parts


def find_top(s, needle, start=0):
    """index of the first top-level occurrence of needle (a string), or -1"""
    L = len(needle)
    for i, c, d in scan(s):
        if i < start:
            continue
        if d == 0 and s.startswith(needle, i):
            return i
        # closing brackets are yielded with depth after decrement; openers before increment
    return -1


def match_close(s, i):
    """s[i] is an opener; return index of its matching closer"""
    want = None
    for j, c, d in scan(s, i):
        if want is None:
            want = d
            continue
        if c in CLOSE and d == want:
            return j
    raise ParseError("unbalanced: %r" % s)


# ---------------------------------------------------------------------------------------------
# AST (plain tuples / small classes)


class Place:
    __slots__ = ("local", "proj")

    def __init__(self, local, proj):
        self.local = local
        self.proj = proj  # list of ('deref',) ('field', n, ty) ('downcast', name) ('index', local) ('constindex', n, from_end) ('subslice', a, b, from_end)

    def __repr__(self):
        return "Place(_%d%s)" % (self.local, "".join("." + str(p) for p in self.proj))


def parse_place(s):
    s = s.strip()
    p, rest = _place(s)
    if rest.strip():
        raise ParseError("trailing in place %r: %r" % (s, rest))
    return p


def _place(s):
    s = s.lstrip()
    if s.startswith("("):
        j = match_close(s, 0)
        inner = s[1:j]
        rest = s[j + 1:]
        if inner.startswith("*"):
            base, r2 = _place(inner[1:])
            if r2.strip():
                raise ParseError("deref inner %r" % inner)
            base = Place(base.local, base.proj + [("deref",)])
        else:
            base, r2 = _place(inner)
            r2 = r2.lstrip()
            if r2.startswith("as "):
                base = Place(base.local, base.proj + [("downcast", r2[3:].strip())])
            elif r2.startswith("."):
                mo = re.match(r"\.(\d+)\s*:\s*(.*)$", r2, re.S)
                if not mo:
                    raise ParseError("field proj %r" % r2)
                base = Place(base.local, base.proj + [("field", int(mo.group(1)), mo.group(2).strip())])
            elif r2 == "":
                pass
            else:
                raise ParseError("place inner %r" % inner)
    else:
        mo = re.match(r"_(\d+)", s)
        if not mo:
            raise ParseError("place %r" % s)
        base = Place(int(mo.group(1)), [])
        rest = s[mo.end():]
    # postfix index projections
    while rest.startswith("["):
        j = match_close(rest, 0)
        idx = rest[1:j].strip()
        rest = rest[j + 1:]
        mo = re.match(r"_(\d+)$", idx)
        if mo:
            base = Place(base.local, base.proj + [("index", int(mo.group(1)))])
            continue
        mo = re.match(r"(-?)(\d+) of (\d+)$", idx)
        if mo:
            base = Place(base.local, base.proj + [("constindex", int(mo.group(2)), mo.group(1) == "-")])
            continue
        mo = re.match(r"(\d+)\.\.(-?)(\d*)$", idx)
        if mo:
            base = Place(base.local, base.proj + [("subslice", int(mo.group(1)), int(mo.group(3) or 0), mo.group(2) == "-" )])
            continue
        mo = re.match(r"(\d+):(-?)(\d*)$", idx)
        if mo:
            base = Place(base.local, base.proj + [("subslice", int(mo.group(1)), int(mo.group(3) or 0), mo.group(2) == "-")])
            continue
        raise ParseError("index proj %r" % idx)
    return base, rest


def parse_operand(s):
    s = s.strip()
    if s.startswith("no_retag "):
        s = s[9:].strip()
    if s.startswith("copy "):
        return ("copy", parse_place(s[5:]))
    if s.startswith("move "):
        return ("move", parse_place(s[5:]))
    if s.startswith("const "):
        return ("const", s[6:].strip())
    if re.match(r"[<A-Za-z_]", s):
        return ("fnitem", s)
    raise ParseError("operand %r" % s)


def parse_rvalue(s):
    s = s.strip()
    if s.startswith(("copy ", "move ", "const ", "no_retag ")):
        # maybe a cast:  <operand> as TYPE (Kind)
        k = find_top(s, " as ")
        if k >= 0 and s.endswith(")") and not s.startswith("const "):
            op = parse_operand(s[:k])
            rest = s[k + 4:]
            j = None
            for i, c, d in scan(rest):
                if c == "(" and d == 0:
                    j = i
            return ("cast", op, rest[:j].strip(), rest[j + 1:-1].strip())
        if s.startswith("const ") and s.endswith(")"):
            k = find_top(s, " as ")
            if k >= 0:
                rest = s[k + 4:]
                j = -1
                for i_, c_, d_ in scan(rest):
                    if c_ == "(" and d_ == 0:
                        j = i_
                kind = rest[j + 1:-1].strip()
                if j > 0 and re.match(r"[A-Za-z]+(\(.*\))?$", kind) and kind.split("(")[0] in (
                        "IntToInt", "PointerCoercion", "Transmute", "PtrToPtr", "IntToFloat", "FloatToInt",
                        "FnPtrToPtr", "PointerExposeProvenance", "PointerWithExposedProvenance", "Subtype"):
                    return ("cast", parse_operand(s[:k]), rest[:j].strip(), kind)
        return ("use", parse_operand(s))
    # cast of a function item: `<T as Trait>::f as fn(..) -> R (PointerCoercion(ReifyFnPointer(..), ..))`
    if s.endswith("))") and "ReifyFnPointer" in s:
        k = find_top(s, " as ")
        if k >= 0:
            return ("use", ("fnitem", s[:k].strip()))
    if s.startswith("&raw const "):
        return ("rawref", False, parse_place(s[11:]))
    if s.startswith("&raw mut "):
        return ("rawref", True, parse_place(s[9:]))
    if s.startswith("&mut "):
        return ("ref", True, parse_place(s[5:]))
    if s.startswith("&fake shallow "):
        return ("ref", False, parse_place(s[14:]))
    if s.startswith("&"):
        return ("ref", False, parse_place(s[1:]))
    if s == "()":
        return ("agg", "tuple", None, [])
    if s.startswith("("):
        j = match_close(s, 0)
        if j == len(s) - 1:
            return ("agg", "tuple", None, [parse_operand(x) for x in split_top(s[1:-1])])
    if s.startswith("["):
        inner = s[1:-1]
        k = find_top(inner, ";")
        if k >= 0:
            return ("repeat", parse_operand(inner[:k]), inner[k + 1:].strip())
        return ("agg", "array", None, [parse_operand(x) for x in split_top(inner)])
    mo = re.match(r"([A-Za-z]+)\(", s)
    if mo and s.endswith(")") and (mo.group(1) in BINOPS or mo.group(1) in UNOPS):
        name = mo.group(1)
        args = split_top(s[len(name) + 1:-1])
        if name in BINOPS:
            return ("binop", name, parse_operand(args[0]), parse_operand(args[1]))
        if name in ("discriminant", "Len", "CopyForDeref"):
            return (name.lower(), parse_place(args[0]))
        return ("unop", name, parse_operand(args[0]))
    # aggregates with a path
    if s.startswith("{closure@") or s.startswith("{coroutine@"):
        j = match_close(s, 0)
        path = s[:j + 1]
        rest = s[j + 1:].strip()
        fields = []
        if rest.startswith("{"):
            for f in split_top(rest[1:-1]):
                k = f.index(":")
                fields.append((f[:k].strip(), parse_operand(f[k + 1:])))
        return ("agg", "closure", path, fields)
    # struct with named fields: PATH { f: op, .. }
    k = find_top(s, " {")
    if k >= 0 and s.endswith("}"):
        path = s[:k].strip()
        fields = []
        for f in split_top(s[k + 2:-1]):
            c = f.index(":")
            fields.append((f[:c].strip(), parse_operand(f[c + 1:])))
        return ("agg", "struct", path, fields)
    # tuple struct / variant: PATH(op, ..)
    if s.endswith(")"):
        # find the opening paren of the final group
        depth_open = None
        for i, c, d in scan(s):
            if c == "(" and d == 0:
                depth_open = i
        if depth_open is not None and match_close(s, depth_open) == len(s) - 1:
            path = s[:depth_open].strip()
            return ("agg", "tuplestruct", path, [parse_operand(x) for x in split_top(s[depth_open + 1:-1])])
    # unit variant / unit struct
    if re.match(r"[<A-Za-z_{]", s):
        return ("agg", "unit", s, [])
    raise ParseError("rvalue %r" % s)


class Function:
    def __init__(self, name, params, ret, kind="fn"):
        self.name = name
        self.params = params   # [(local, type)]
        self.ret = ret
        self.kind = kind
        self.locals = {}       # n -> type text
        self.blocks = {}       # n -> (stmts, term)
        self.debug = {}        # name -> text
        self.src_line = None


def parse_targets(s):
    """`[return: bb1, unwind continue]` / `[success: bb3, unwind: bb9]` / `[0: bb1, otherwise: bb2]`"""
    out = {}
    s = s.strip()
    if s.startswith("["):
        s = s[1:-1]
    for part in split_top(s):
        part = part.strip()
        if part.startswith("unwind"):
            out["unwind"] = part[6:].strip(": ").strip()
            continue
        k = part.rindex(":")
        out[part[:k].strip()] = int(part[k + 1:].strip()[2:])
    return out


def parse_statement(line):
    """→ ('assign', Place, rvalue) | ('setdisc', Place, idx) | ('nop',) | terminators..."""
    s = line.strip()
    if s.endswith(";"):
        s = s[:-1]
    if s in ("return", "unreachable", "resume", "nop", "ConstEvalCounter") or s.startswith("terminate("):
        return (s.split("(")[0],)
    if s.startswith(("StorageLive(", "StorageDead(", "FakeRead(", "PlaceMention(", "AscribeUserType(", "Retag(",
                     "Coverage::", "Deinit(", "BackwardIncompatibleDropHint(")):
        return ("nop",)
    if s.startswith("assume("):
        return ("assume", parse_operand(s[7:-1]))
    if s.startswith("goto -> "):
        return ("goto", int(s[8:].strip()[2:]))
    if s.startswith("switchInt("):
        j = match_close(s, 9)
        op = parse_operand(s[10:j])
        t = parse_targets(s[j + 1:].strip()[2:].strip())
        other = t.pop("otherwise", None)
        t.pop("unwind", None)
        return ("switch", op, {int(k): v for k, v in t.items()}, other)
    if s.startswith("drop("):
        j = match_close(s, 4)
        t = parse_targets(s[j + 1:].strip()[2:].strip())
        return ("drop", parse_place(s[5:j]), t.get("return"))
    if s.startswith("assert("):
        j = match_close(s, 6)
        args = split_top(s[7:j])
        cond = args[0].strip()
        expected = True
        if cond.startswith("!"):
            expected = False
            cond = cond[1:]
        t = parse_targets(s[j + 1:].strip()[2:].strip())
        return ("assert", parse_operand(cond), expected, args[1] if len(args) > 1 else "", t.get("success"))
    if s.startswith("falseEdge") or s.startswith("falseUnwind"):
        mo = re.search(r"real: bb(\d+)", s)
        return ("goto", int(mo.group(1)))
    if s.startswith("discriminant("):
        j = match_close(s, 12)
        return ("setdisc", parse_place(s[13:j]), int(s[j + 1:].strip()[1:].strip()))
    k = find_top(s, " = ")
    if k < 0:
        raise ParseError("statement %r" % s)
    lhs, rhs = s[:k], s[k + 3:]
    arrow = -1
    start = 0
    while True:
        k2 = find_top(rhs, " -> ", start)
        if k2 < 0:
            break
        tail = rhs[k2 + 4:]
        if tail.startswith("[") or tail.startswith("unwind") or re.match(r"bb\d+$", tail.strip()):
            # `f(..) -> bbN` (one unlabelled successor): a diverging call whose only edge is the clean-up block
            arrow = k2
            break
        start = k2 + 1
    if arrow >= 0:
        call, targets = rhs[:arrow].strip(), rhs[arrow + 4:].strip()
        t = parse_targets(targets) if targets.startswith("[") else {"unwind": targets}
        # split FUNC(ARGS): last top-level paren group
        depth_open = None
        for i, c, d in scan(call):
            if c == "(" and d == 0:
                depth_open = i
        if depth_open is None or match_close(call, depth_open) != len(call) - 1:
            raise ParseError("call %r" % call)
        func = call[:depth_open].strip()
        args = [parse_operand(x) for x in split_top(call[depth_open + 1:-1])]
        return ("call", parse_place(lhs), func, args, t.get("return"))
    return ("assign", parse_place(lhs), parse_rvalue(rhs))


HEADER = re.compile(r"^(fn|const|static|static mut) (.*)$")


def parse_mir(text):
    """→ dict name -> Function; promoted consts are stored under their full name"""
    funcs = {}
    lines = text.split("\n")
    i = 0
    n = len(lines)
    while i < n:
        line = lines[i]
        if (line.startswith("fn ") or line.startswith("const ") or line.startswith("static ")) and line.rstrip().endswith("{"):
            head = line.rstrip()[:-1].strip()
            # collect body until a line that is exactly "}"
            j = i + 1
            while j < n and lines[j] != "}":
                j += 1
            body = lines[i + 1:j]
            try:
                f = parse_function(head, body)
                if f is not None:
                    funcs[f.name] = f
            except ParseError as e:
                funcs.setdefault("__errors__", []).append((head, str(e)))
            i = j + 1
            continue
        mo = re.match(r"(?:const|static|static mut) (.*?) = (const .*);$", line)
        if mo and not line.startswith(" "):
            k = find_top(mo.group(1), ": ")
            if k >= 0:
                f = Function(mo.group(1)[:k].strip(), [], mo.group(1)[k + 2:].strip(), kind="const")
                f.blocks[0] = [("assign", Place(0, []), ("use", parse_operand(mo.group(2)))), ("return",)]
                f.locals[0] = f.ret
                funcs[f.name] = f
        i += 1
    return funcs


def parse_function(head, body):
    if head.startswith("fn "):
        rest = head[3:]
        # name up to the top-level '(' that starts the parameter list
        k = None
        for i, c, d in scan(rest):
            if c == "(" and d == 0:
                k = i
                break
        name = rest[:k].strip()
        j = match_close(rest, k)
        params = []
        for p in split_top(rest[k + 1:j]):
            mo = re.match(r"_(\d+):\s*(.*)$", p, re.S)
            params.append((int(mo.group(1)), mo.group(2).strip()))
        ret = rest[j + 1:].strip()
        if ret.startswith("->"):
            ret = ret[2:].strip()
        f = Function(name, params, ret)
    else:
        mo = re.match(r"(const|static mut|static) (.*) =$", head, re.S)
        if not mo:
            return None
        rest = mo.group(2)
        k = find_top(rest, ": ")
        if k < 0:
            return None
        f = Function(rest[:k].strip(), [], rest[k + 2:].strip(), kind="const")
    cur = None
    stmts = []
    for raw in body:
        s = raw.strip()
        if not s or s.startswith("//"):
            continue
        if s.startswith("debug "):
            mo = re.match(r"debug (\S+) => (.*);$", s)
            if mo:
                f.debug[mo.group(1)] = mo.group(2)
            continue
        if s.startswith("scope ") or s == "}":
            if s == "}" and cur is not None and raw.startswith("    }"):
                cur = None
            continue
        mo = re.match(r"let (mut )?_(\d+): (.*);$", s)
        if mo and cur is None:
            f.locals[int(mo.group(2))] = mo.group(3)
            continue
        mo = re.match(r"bb(\d+)( \(cleanup\))?: \{$", s)
        if mo:
            cur = int(mo.group(1))
            f.blocks[cur] = []
            continue
        if cur is None:
            continue
        # strip trailing comments
        f.blocks[cur].append(parse_statement(s))
    for p, t in f.params:
        f.locals[p] = t
    f.locals[0] = f.ret
    return f


# ---------------------------------------------------------------------------------------------
# constants / literals


def unescape_rust(body, is_bytes=False):
    """contents of a Rust string / byte-string / char literal → list of code points (or bytes)"""
    out = []
    i = 0
    n = len(body)
    while i < n:
        c = body[i]
        if c != "\\":
            out.append(ord(c))
            i += 1
            continue
        e = body[i + 1]
        i += 2
        if e == "n":
            out.append(10)
        elif e == "r":
            out.append(13)
        elif e == "t":
            out.append(9)
        elif e == "0":
            out.append(0)
        elif e == "\\":
            out.append(92)
        elif e == "'":
            out.append(39)
        elif e == '"':
            out.append(34)
        elif e == "x":
            out.append(int(body[i:i + 2], 16))
            i += 2
        elif e == "u":
            j = body.index("}", i)
            out.append(int(body[i + 1:j], 16))
            i = j + 1
        elif e == "\n":
            while i < n and body[i] in " \t\n":
                i += 1
        else:
            raise ParseError("escape \\%s" % e)
    return out
