"""C04 — what each expectation kind matches, decided on the MIR of the rule implementations:
  equal / no-eol : make(e) then matches(line)   ⇔  line == e ++ "\\n"  /  line == e
  escaped        : matches(line) ⇔ trim_newlines(line) == stored bytes; make(e) stores the documented decoding of e
                   (\\t, \\xHH, \\\\, plain text) for every e whose backslashes only start documented sequences
  regex          : make(e) is executed on the MIR (rewrites, `format!` wrapper, handing the final pattern to the engine);
                   the engine itself is replaced by a small regex semantics (lib/miniregex.py) evaluated on a symbolic
                   line; spec: the whole line (final newline ignored) is in L(e)
  cram glob      : glob_to_regex_string(p) under the same regex semantics ⇔ reference glob semantics (? one char, * any run)
The `wildmatch` and `regex` engines themselves are outside (third-party code, input-dependent loops)."""
import itertools
import random

import z3

import e2
import miniregex
from common import Report, build_native, seed
from mir_exec import (Agg, Opaque, SBool, SInt, Slice, Str, StringBuf, Unsupported, VecBuf, find_method, load_program, new_ref)
from mir_models import (Models, as_items, as_str, bytes_to_str, char_eq, deref, err, ok, sbool, str_as_bytes, z_and, z_not, z_or)

NAT = None
NL = SInt(10, "u8")


def unbox_rule(v):
    """Result<Box<dyn Rule>> → rule value (Agg) or None on Err"""
    if v.variant != "Ok":
        return None
    b = v.fields[0]
    while isinstance(b, Agg) and b.ty == "Box":
        b = __import__('mir_exec').box_ref(b).loc.get()
    return b


def bytes_eq(a, b):
    if len(a) != len(b):
        return False
    return z_and([char_eq(x, y) for x, y in zip(a, b)])


def rule_driver(src_file, with_make=True):
    def drive(ctx, args):
        prog = ctx.program
        make = find_method(prog, src_file, "make")
        matches = find_method(prog, src_file, "matches")
        r = ctx.call(make, [args[0]])
        rule = unbox_rule(r)
        if rule is None:
            return Agg("tuple", None, [SBool(False), SBool(False)])
        m = ctx.call(matches, [new_ref(rule), args[1]])
        return Agg("tuple", None, [SBool(True), m])
    drive.__doc__ = "%s: make(expression) then matches(line)" % src_file
    return drive


def h_equal(kind, src_file, eol, max_e, max_l):
    def post(ctx, args, k, value):
        if k != "return":
            return False
        made, m = value.fields
        if not made.v:
            return False
        want = list(str_as_bytes(ctx, args[0]).items) + ([NL] if eol else [])
        spec = bytes_eq(want, list(args[1].items))
        return m.z() == (z3.BoolVal(spec) if isinstance(spec, bool) else spec) if not (m.concrete and isinstance(spec, bool)) else m.v == spec

    def judge(a, nk, nv):
        e, line = a[0], a[1]
        want = list(e.encode()) + ([10] if eol else [])
        if nk != "return" or "Ok" not in nv:
            return True, "%s rule %r: %s %r" % (kind, e, nk, nv), "%s:make-fails" % kind
        if nv["Ok"] != (want == line):
            return True, ("%s expectation %r %s line %r" % (kind, e, "matches" if nv["Ok"] else "does not match", bytes(line))), "%s:wrong-match" % kind
        return False, "", ""
    inputs = []
    for sh in e2.str_shapes(max_e):
        for n in range(0, max_l + 1):
            def setup(ctx, sh=sh, n=n):
                e = ctx.sym_str("e", sh)
                for ch in e.chars:
                    ctx.add(ch.z() != 10)     # an expression is one line of a test document
                return [e, ctx.sym_bytes("l", n)]
            inputs.append(("e-widths=%s line-bytes=%d" % (sh, n), setup))
    h = e2.Harness("%s_rule" % kind, rule_driver(src_file), inputs, post, native="rule_matches", judge=judge,
                   describe="%s: matches(line) ⇔ line == expression%s" % (kind, ' ++ "\\n"' if eol else ""),
                   bound="expressions: valid UTF-8 <= %d bytes without newline; lines: any <= %d bytes" % (max_e, max_l))
    h.kind = kind
    return h


# ---- escaped -------------------------------------------------------------------------------------------

HEX = "0123456789abcdefABCDEF"


def ref_decode_documented(ctx, chars):
    """documented escape sequences: \\t, \\xHH, \\\\ ; everything else literal.  Returns list of byte SInts, or None
    when the text contains a backslash that does not start a documented sequence (outside the claim)."""
    out = []
    i = 0
    n = len(chars)
    BS = SInt(92, "char")
    while i < n:
        c = chars[i]
        if ctx.decide(char_eq(c, BS)):
            if i + 1 >= n:
                return None
            d = chars[i + 1]
            if ctx.decide(char_eq(d, SInt(ord("t"), "char"))):
                out.append(SInt(9, "u8"))
                i += 2
            elif ctx.decide(char_eq(d, BS)):
                out.append(SInt(92, "u8"))
                i += 2
            elif ctx.decide(char_eq(d, SInt(ord("x"), "char"))):
                if i + 3 >= n:
                    return None
                h1, h2 = chars[i + 2], chars[i + 3]
                from mir_models import in_ranges
                for h in (h1, h2):
                    if not ctx.decide(in_ranges(h, [(48, 57), (97, 102), (65, 70)])):
                        return None

                def val(h):
                    z = z3.Extract(7, 0, h.z())
                    return z3.If(z3.ULE(z, 57), z - 48, z3.If(z3.ULE(z, 70), z - 55, z - 87))
                from mir_exec import mk_int
                out.append(mk_int(val(h1) * 16 + val(h2), "u8"))
                i += 4
            else:
                return None
        else:
            from mir_models import utf8_bytes
            out.extend(utf8_bytes(ctx, c))
            i += 1
    return out


def escaped_driver(ctx, args):
    """EscapedRule::make(expression) → stored bytes, next to the documented reference decoding"""
    prog = ctx.program
    make = find_method(prog, "rules/escaped.rs", "make")
    r = ctx.call(make, [args[0]])
    rule = unbox_rule(r)
    ref = ref_decode_documented(ctx, list(args[0].chars))
    if ref is None:
        return Agg("tuple", None, [SBool(False), Slice([]), Slice([])])   # outside the claim
    if rule is None:
        return Agg("tuple", None, [SBool(True), Agg("Option", "None", []), Slice(ref)])
    return Agg("tuple", None, [SBool(True), Agg("Option", "Some", [Slice(as_items(rule.fields[1]))]), Slice(ref)])


def py_ref_decode(text):
    out = bytearray()
    i = 0
    while i < len(text):
        c = text[i]
        if c == "\\":
            if i + 1 >= len(text):
                return None
            d = text[i + 1]
            if d == "t":
                out.append(9)
                i += 2
            elif d == "\\":
                out.append(92)
                i += 2
            elif d == "x":
                hh = text[i + 2:i + 4]
                if len(hh) < 2 or any(h not in HEX for h in hh):
                    return None
                out.append(int(hh, 16))
                i += 4
            else:
                return None
        else:
            out.extend(c.encode())
            i += 1
    return bytes(out)


def h_escaped_decode(max_chars):
    ALPH = "\\tx0aF "

    def setup(n):
        def f(ctx):
            s = ctx.sym_str("e", [1] * n)
            for ch in s.chars:
                ctx.add(z3.Or([ch.z() == ord(a) for a in ALPH]))
            return [s]
        return f

    def post(ctx, args, k, value):
        if k != "return":
            return False
        in_claim, got, ref = value.fields
        if not in_claim.v:
            return True
        if got.variant == "None":
            return False
        return bytes_eq(list(got.fields[0].items), list(ref.items))

    def judge(a, nk, nv):
        e = a[0]
        want = py_ref_decode(e)
        if want is None:
            return False, "", ""
        if e.endswith(" (no-eol)"):
            return False, "", ""
        # stored bytes are observable through matches()
        k1, v1 = NAT.call("rule_matches", ["escaped", e, list(want)])
        if k1 != "return" or v1.get("Ok") is not True:
            return True, "escaped expectation %r does not match its documented decoding %r (%s %r)" % (e, want, k1, v1), "escaped:decode"
        return False, "", ""
    inputs = [("chars=%d" % n, setup(n)) for n in range(0, max_chars + 1)]
    h = e2.Harness("escaped_decode", escaped_driver, inputs, post, native="apply_escaped_filter_bytes", judge=judge,
                   describe="EscapedRule::make(e) stores the documented decoding of e (\\t, \\xHH, \\\\, plain text)",
                   bound="expressions of <= %d chars over %r whose backslashes start documented sequences" % (max_chars, ALPH))
    return h


def h_escaped_matches(max_stored, max_line):
    def drive(ctx, args):
        """<EscapedRule as Rule>::matches(rule, line) for a rule with symbolic stored bytes"""
        matches = find_method(ctx.program, "rules/escaped.rs", "matches")
        rule = Agg("EscapedRule", None, [StringBuf([]), VecBuf(list(args[0].items), "u8")])
        return ctx.call(matches, [new_ref(rule), args[1]])

    def post(ctx, args, k, value):
        if k != "return":
            return False
        stored, line = list(args[0].items), list(args[1].items)
        # spec: the line with every trailing newline removed equals the stored bytes
        alts = []
        for t in range(0, len(line) + 1):
            body, tail = line[:len(line) - t], line[len(line) - t:]
            conds = [char_eq(x, NL) for x in tail]
            if body:
                conds.append(z_not(char_eq(body[-1], NL)))
            conds.append(bytes_eq(body, stored))
            alts.append(z_and(conds))
        spec = z_or(alts)
        if value.concrete and isinstance(spec, bool):
            return value.v == spec
        return value.z() == (z3.BoolVal(spec) if isinstance(spec, bool) else spec)
    inputs = [("stored=%d line=%d" % (a, b), (lambda ctx, a=a, b=b: [ctx.sym_bytes("s", a), ctx.sym_bytes("l", b)]))
              for a in range(0, max_stored + 1) for b in range(0, max_line + 1)]
    def judge(a, nk, nv):
        stored, line = a[0], a[1]
        body = bytes(line).rstrip(b"\n")
        want = body == bytes(stored)
        if nk != "return" or "Ok" not in nv or nv["Ok"] != want:
            return True, "escaped rule storing %r vs line %r: native %s %r, spec %s" % (bytes(stored), bytes(line), nk, nv, want), "escaped:matches"
        return False, "", ""
    return e2.Harness("escaped_matches", drive, inputs, post, native="rule_matches", judge=judge,
                      describe="EscapedRule::matches(line) ⇔ line without trailing newlines == stored bytes",
                      bound="stored bytes <= %d, line <= %d bytes, all byte values" % (max_stored, max_line))


# ---- regex ---------------------------------------------------------------------------------------------


class RegexModels(Models):
    """the engine boundary: Regex::new keeps the pattern text, is_match evaluates it with lib/miniregex.py"""

    def __init__(self):
        super().__init__()
        import re as pyre

        def rx_new(c, m, a):
            s = as_str(a[0])
            if not all(ch.concrete for ch in s.chars):
                raise Unsupported("symbolic regex pattern")
            text = "".join(chr(ch.v) for ch in s.chars)
            try:
                miniregex.parse_captures(text)
            except Unsupported:
                try:
                    pyre.compile(text)
                except pyre.error:
                    return err(Agg("RegexError", None, []))
                raise
            except Exception:
                return err(Agg("RegexError", None, []))
            return ok(Agg("Regex", None, [Str(s.chars)]))
        self.table.insert(0, (pyre.compile(r"^(?:regex::bytes::Regex::new|regex::Regex::new|ByteRegex::new|Regex::new|regex::regex::bytes::Regex::new|regex::regex::string::Regex::new)$"), rx_new))

        def rx_is_match(c, m, a):
            rx = deref(a[0])
            text = "".join(chr(ch.v) for ch in rx.fields[0].chars)
            subj = deref(a[1])
            if isinstance(subj, (Slice, VecBuf)):
                s = bytes_to_str(c, list(subj.items))
                if s is None:
                    raise Unsupported("regex on invalid UTF-8")
                chars = list(s.chars)
            else:
                chars = list(as_str(subj).chars)
            return sbool(miniregex.search(text, chars))
        self.table.insert(0, (pyre.compile(r"^(?:regex::bytes::Regex::is_match|regex::Regex::is_match|ByteRegex::is_match|Regex::is_match|regex::regex::bytes::Regex::is_match|regex::regex::string::Regex::is_match)$"), rx_is_match))

        # RegexBuilder: the options decide what `.` and friends consume — kept with the pattern
        def rb_new(c, m, a):
            r = rx_new(c, m, a)
            if r.variant != "Ok":
                return Agg("RegexBuilder", None, [None, {"bad": True}])
            return Agg("RegexBuilder", None, [r.fields[0].fields[0], {}])
        self.table.insert(0, (pyre.compile(r"^(?:regex::bytes::|regex::)?RegexBuilder::new$"), rb_new))

        def rb_opt(c, m, a):
            b = deref(a[0])
            v = deref(a[1])
            if not v.concrete:
                raise Unsupported("symbolic regex option")
            b.fields[1][m.group(1)] = bool(v.v)
            return a[0]
        self.table.insert(0, (pyre.compile(r"^(?:regex::bytes::|regex::)?RegexBuilder::(?!new$|build$)([a-z_]+)$"), rb_opt))

        def rb_build(c, m, a):
            b = deref(a[0])
            if b.fields[1].get("bad"):
                return err(Agg("RegexError", None, []))
            import json as _json
            return ok(Agg("Regex", None, [b.fields[0], Opaque(_json.dumps(b.fields[1], sort_keys=True))]))
        self.table.insert(0, (pyre.compile(r"^(?:regex::bytes::|regex::)?RegexBuilder::build$"), rb_build))

        def rx_is_match_opts(c, m, a):
            rx = deref(a[0])
            import json as _json
            opts = _json.loads(rx.fields[1].what) if len(rx.fields) > 1 else {}
            other = {k: v for k, v in opts.items() if not (k == "unicode")}
            if any(v for v in other.values()):
                raise Unsupported("regex options %s" % other)
            if opts.get("unicode", True):
                return rx_is_match(c, m, a)
            # byte mode: the subject is a sequence of bytes, `.` consumes one byte
            text = "".join(chr(ch.v) for ch in rx.fields[0].chars)
            if any(ord(x) > 0x7f for x in text):
                raise Unsupported("non-ASCII literal in a byte-mode regex")
            subj = deref(a[1])
            items = list(subj.items) if isinstance(subj, (Slice, VecBuf)) else list(str_as_bytes(c, as_str(subj)).items)
            from mir_exec import mk_int
            chars = [mk_int(z3.ZeroExt(24, b.z()), "char") if not b.concrete else SInt(b.v, "char") for b in items]
            return sbool(miniregex.search(text, chars))
        self.table.insert(0, (pyre.compile(r"^(?:regex::bytes::Regex::is_match|regex::Regex::is_match|ByteRegex::is_match|Regex::is_match|regex::regex::bytes::Regex::is_match|regex::regex::string::Regex::is_match)$"), rx_is_match_opts))

        def rx_replace_all(c, m, a):
            rx = deref(a[0])
            pat = "".join(chr(ch.v) for ch in rx.fields[0].chars)
            s = as_str(a[1])
            if not all(ch.concrete for ch in s.chars):
                # symbolic text: fine as long as the pattern cannot match it on this path
                if c.decide(miniregex.search(pat, list(s.chars))):
                    raise Unsupported("replace_all with an actual match on symbolic text")
                return Agg("Cow", "Borrowed", [s])
            text = "".join(chr(ch.v) for ch in s.chars)
            if pyre.search(pat, text) is None:
                return Agg("Cow", "Borrowed", [s])
            raise Unsupported("replace_all with an actual match (closure replacement not modelled)")
        self.table.insert(0, (pyre.compile(r"^(?:regex::Regex::replace_all::<.*>|Regex::replace_all::<.*>|regex::regex::string::Regex::replace_all::<.*>)$"), rx_replace_all))

        def lazy_deref(c, m, a):
            name = m.group(1)
            key = "lazy:" + name
            if key in c.const_cache:
                return c.const_cache[key]
            pat = lazy_regex_source(name)
            if pat is None:
                raise Unsupported("lazy static %s: not a Regex::new(<literal>) initializer" % name)
            r = new_ref(Agg("Regex", None, [e2.concrete_str(pat)]))
            c.const_cache[key] = r
            return r
        self.table.insert(0, (pyre.compile(r"^<([A-Z_0-9]+) as Deref>::deref$"), lazy_deref))


_LAZY = {}


def lazy_regex_source(name):
    """pattern literal of `static ref NAME: Regex = Regex::new(<literal>)` read from /repo's source"""
    import os
    import re as pyre
    from mir_parse import unescape_rust
    if not _LAZY:
        for root, _d, files in os.walk(e2.REPO + "/src"):
            for f in files:
                if f.endswith(".rs"):
                    text = open(os.path.join(root, f)).read()
                    for mo in pyre.finditer(r"static ref ([A-Z_0-9]+)\s*:\s*[A-Za-z:]*Regex\s*=\s*(?:[A-Za-z:]*Regex::new)\(\s*(r#*\"|\")", text):
                        start = mo.end()
                        if mo.group(2).startswith("r"):
                            hashes = mo.group(2).count("#")
                            end = text.index('"' + "#" * hashes, start)
                            _LAZY[mo.group(1)] = text[start:end]
                        else:
                            j = start
                            while text[j] != '"':
                                j += 2 if text[j] == "\\" else 1
                            _LAZY[mo.group(1)] = "".join(chr(x) for x in unescape_rust(text[start:j]))
    return _LAZY.get(name)


def regex_driver(ctx, args):
    """RegexRule::make(e) (MIR: rewrites + `format!` wrapper) then matches(line), engine = miniregex"""
    prog = ctx.program
    make = find_method(prog, "rules/regex.rs", "make")
    matches = find_method(prog, "rules/regex.rs", "matches")
    r = ctx.call(make, [args[0]])
    rule = unbox_rule(r)
    if rule is None:
        return Agg("tuple", None, [SBool(False), SBool(False), Str([])])
    m = ctx.call(matches, [new_ref(rule), args[1]])
    pattern = deref(rule.fields[1]).fields[0]
    return Agg("tuple", None, [SBool(True), m, pattern])


def regex_expressions(alphabet, max_len):
    out = []
    for n in range(1, max_len + 1):
        for t in itertools.product(alphabet, repeat=n):
            e = "".join(t)
            try:
                miniregex.parse(e)
            except Exception:
                continue
            out.append(e)
    return out


def h_regex(exprs, max_line, tag):
    def mk_setup(e, n, nl):
        def f(ctx):
            chars = [ctx.sym_char("l_%d" % i, 1) for i in range(n)]
            for ch in chars:
                ctx.add(ch.z() != 10)
            items = [SInt(0, "u8")] * 0
            from mir_exec import mk_int
            bs = [mk_int(z3.Extract(7, 0, ch.z()), "u8") for ch in chars] + ([NL] if nl else [])
            ctx.notes["line_chars"] = chars
            return [e2.concrete_str(e), Slice(bs, "u8")]
        return f

    def post(ctx, args, k, value):
        if k != "return":
            return False
        made, m, _pat = value.fields
        e = "".join(chr(c.v) for c in args[0].chars)
        if not made.v:
            return True   # invalid expression: nothing to match
        spec = miniregex.fullmatch("(?:%s)" % e, ctx.notes["line_chars"])
        if m.concrete and isinstance(spec, bool):
            return m.v == spec
        return m.z() == (z3.BoolVal(spec) if isinstance(spec, bool) else spec)

    def judge(a, nk, nv):
        e, line = a[0], bytes(a[1])
        import re as pyre
        text = line[:-1] if line.endswith(b"\n") else line
        try:
            want = pyre.fullmatch("(?:%s)" % e, text.decode()) is not None
        except Exception:
            return False, "", ""
        if nk == "return" and "Ok" in nv and nv["Ok"] != want:
            top_alt = "|" in e
            return True, ("regex expectation %r %s line %r although the whole line %s in L(%s)"
                          % (e, "matches" if nv["Ok"] else "does not match", line, "is" if want else "is not", e)), \
                "regex:top-level-alternation-anchoring" if top_alt else "regex:anchoring"
        return False, "", ""
    inputs = []
    for e in exprs:
        for n in range(0, max_line + 1):
            for nl in (True, False):
                inputs.append(("e=%r line-chars=%d nl=%s" % (e, n, nl), mk_setup(e, n, nl)))
    h = e2.Harness("regex_whole_line_" + tag, regex_driver, inputs, post, native="rule_matches", judge=judge,
                   describe="regex: matches(line) ⇔ the whole line (final newline ignored) is in L(e)",
                   bound="%d expressions (%s); lines of <= %d ASCII chars with/without final newline" % (len(exprs), tag, max_line))
    h.models_cls = RegexModels
    return h


# ---- cram glob -------------------------------------------------------------------------------------------


def glob_ref(pattern, chars, escapes=True):
    """reference glob semantics on symbolic chars: `?` exactly one char, `*` any run, `\\x` literal x for x in *?\\"""
    toks = []
    i = 0
    while i < len(pattern):
        c = pattern[i]
        if escapes and c == "\\" and i + 1 < len(pattern) and pattern[i + 1] in "*?\\":
            toks.append(("lit", ord(pattern[i + 1])))
            i += 2
        elif c == "*":
            toks.append(("star",))
            i += 1
        elif c == "?":
            toks.append(("one",))
            i += 1
        else:
            toks.append(("lit", ord(c)))
            i += 1
    n = len(chars)
    cur = {0: True}
    for t in toks:
        nxt = {}
        for p, cond in cur.items():
            if t[0] == "star":
                for j in range(p, n + 1):
                    # regex `.` does not match a newline: lines handed over never contain one
                    nxt[j] = z_or([nxt[j], cond]) if j in nxt else cond
            elif p < n:
                c2 = cond if t[0] == "one" else z_and([cond, char_eq(chars[p], SInt(t[1], "char"))])
                if c2 is not False:
                    nxt[p + 1] = z_or([nxt[p + 1], c2]) if p + 1 in nxt else c2
        cur = nxt
    return cur.get(n, False)


def h_cram_glob(patterns, max_line):
    def drive(ctx, args):
        """glob_to_regex_string(p) evaluated as a regex on the line"""
        f = ctx.program.find("glob_cram::glob_to_regex_string")
        s = ctx.call(f, [args[0]])
        text = "".join(chr(c.v) for c in as_str(s).chars)
        return Agg("tuple", None, [sbool(miniregex.search(text, ctx.notes["line_chars"])), Str(as_str(s).chars)])

    def mk_setup(p, n):
        def f(ctx):
            chars = [ctx.sym_char("l_%d" % i, 1) for i in range(n)]
            for ch in chars:
                ctx.add(ch.z() != 10)
            ctx.notes["line_chars"] = chars
            return [e2.concrete_str(p), Str(chars)]
        return f

    def post(ctx, args, k, value):
        if k != "return":
            return False
        p = "".join(chr(c.v) for c in args[0].chars)
        spec = glob_ref(p, ctx.notes["line_chars"])
        m = value.fields[0]
        if m.concrete and isinstance(spec, bool):
            return m.v == spec
        return m.z() == (z3.BoolVal(spec) if isinstance(spec, bool) else spec)

    def judge(a, nk, nv):
        p, line = a[0], a[1]
        k1, v1 = NAT.call("rule_matches", ["glob-cram", p, list(line.encode())])
        import fnmatch
        return True, "cram glob %r vs line %r: native matches=%r, regex text %r" % (p, line, v1, nv), "cram-glob:translation"
    inputs = [("p=%r line-chars=%d" % (p, n), mk_setup(p, n)) for p in patterns for n in range(0, max_line + 1)]
    return e2.Harness("cram_glob_translation", drive, inputs, post, native="glob_to_regex_string", judge=judge,
                      describe="glob_to_regex_string(p) as a regex ⇔ glob semantics (? one char, * any run, \\*, \\?, \\\\ literal)",
                      bound="%d patterns; lines of <= %d ASCII chars" % (len(patterns), max_line))


def h_cram_glob_rule(patterns):
    """CramGlobRule::make(p).matches(line) on lines that also hold multi-byte characters: `?` is one character, not one byte"""
    def drive(ctx, args):
        """CramGlobRule::make(p) then matches(line); engine = miniregex with the options the rule builds its regex with"""
        prog = ctx.program
        r = ctx.call(find_method(prog, "rules/glob_cram.rs", "make"), [args[0]])
        rule = unbox_rule(r)
        if rule is None:
            return Agg("tuple", None, [SBool(False), SBool(False)])
        return Agg("tuple", None, [SBool(True), ctx.call(find_method(prog, "rules/glob_cram.rs", "matches"), [new_ref(rule), args[1]])])

    def mk_setup(p, widths, nl):
        def f(ctx):
            from mir_models import utf8_bytes
            chars = [ctx.sym_char("l_%d" % i, w) for i, w in enumerate(widths)]
            for ch in chars:
                ctx.add(ch.z() != 10)
            ctx.notes["line_chars"] = chars
            body = []
            for ch in chars:
                body += utf8_bytes(ctx, ch)
            return [e2.concrete_str(p), Slice(body + ([NL] if nl else []), "u8")]
        return f

    def post(ctx, args, k, value):
        if k != "return":
            return False
        made, m = value.fields
        if not made.v:
            return False             # every pattern of the family is a valid glob
        p = "".join(chr(c.v) for c in args[0].chars)
        spec = glob_ref(p, ctx.notes["line_chars"])
        if m.concrete and isinstance(spec, bool):
            return m.v == spec
        return m.z() == (z3.BoolVal(spec) if isinstance(spec, bool) else spec)

    def judge(a, nk, nv):
        p, line = a[0], bytes(a[1])
        text = (line[:-1] if line.endswith(b"\n") else line).decode("utf-8", "replace")
        import re as pyre
        rx = "".join(".*" if c == "*" else "." if c == "?" else pyre.escape(c) for c in p) if "\\" not in p else None
        if rx is None:
            return False, "", ""
        want = pyre.fullmatch(rx, text, pyre.S) is not None
        if nk == "return" and "Ok" in nv and nv["Ok"] != want:
            return True, ("cram glob %r %s line %r although under `?` = one character, `*` = any run it %s"
                          % (p, "matches" if nv["Ok"] else "does not match", line, "does" if want else "does not")), "cram-glob:%s" % ("multibyte" if any(b > 0x7f for b in line) else "ascii")
        return False, "", ""
    inputs = []
    for p in patterns:
        for widths in ([], [1], [2], [3], [1, 2], [2, 1], [2, 2], [4]):
            for nl in (True, False):
                inputs.append(("p=%r char-widths=%s nl=%s" % (p, widths, nl), mk_setup(p, widths, nl)))
    h = e2.Harness("cram_glob_rule_characters", drive, inputs, post, native="rule_matches", judge=judge,
                   describe="CramGlobRule: matches(line) ⇔ glob semantics counted in characters, also on multi-byte text",
                   bound="%d patterns over {a, *, ?}; lines of <= 2 characters of every UTF-8 width, with/without final newline" % len(patterns))
    h.models_cls = RegexModels
    return h


class GlobModels(RegexModels):
    """the engine boundary of the `glob` kind: WildMatch::new keeps the pattern, matches evaluates it with the reference glob semantics"""

    def __init__(self):
        super().__init__()
        import re as pyre
        ins = lambda pat, fn: self.table.insert(0, (pyre.compile("^(?:%s)$" % pat), fn))
        ins(r"WildMatch::new|wildmatch::WildMatch::new|WildMatchPattern::<.*>::new", lambda c, m, a: Agg("WildMatch", None, [Str(list(as_str(a[0]).chars))]))

        def wm_matches(c, m, a):
            pat = deref(a[0]).fields[0].chars
            if not all(ch.concrete for ch in pat):
                raise Unsupported("symbolic glob pattern")
            return sbool(glob_ref("".join(chr(ch.v) for ch in pat), list(as_str(a[1]).chars), escapes=False))
        ins(r"WildMatch::matches|wildmatch::WildMatch::matches|WildMatchPattern::<.*>::matches", wm_matches)


def h_glob_rule(patterns):
    """GlobRule::make(p).matches(line): whatever scrut does around the engine, the verdict is the glob semantics on the line without its newline"""
    def drive(ctx, args):
        """GlobRule::make(p) then matches(line); engine (wildmatch) = reference glob semantics"""
        prog = ctx.program
        r = ctx.call(find_method(prog, "rules/glob.rs", "make"), [args[0]])
        rule = unbox_rule(r)
        if rule is None:
            return Agg("tuple", None, [SBool(False), SBool(False)])
        return Agg("tuple", None, [SBool(True), ctx.call(find_method(prog, "rules/glob.rs", "matches"), [new_ref(rule), args[1]])])

    def mk_setup(p, widths, nl):
        def f(ctx):
            from mir_models import utf8_bytes
            chars = [ctx.sym_char("l_%d" % i, w) for i, w in enumerate(widths)]
            for ch in chars:
                ctx.add(ch.z() != 10)
            ctx.notes["line_chars"] = chars
            body = []
            for ch in chars:
                body += utf8_bytes(ctx, ch)
            return [e2.concrete_str(p), Slice(body + ([NL] if nl else []), "u8")]
        return f

    def post(ctx, args, k, value):
        if k != "return":
            return False
        made, m = value.fields
        if not made.v:
            return False             # every pattern of the family is a valid glob
        p = "".join(chr(c.v) for c in args[0].chars)
        spec = glob_ref(p, ctx.notes["line_chars"], escapes=False)
        if m.concrete and isinstance(spec, bool):
            return m.v == spec
        return m.z() == (z3.BoolVal(spec) if isinstance(spec, bool) else spec)

    def judge(a, nk, nv):
        p, line = a[0], bytes(a[1])
        text = (line[:-1] if line.endswith(b"\n") else line).decode("utf-8", "replace")
        import re as pyre
        rx = "".join(".*" if c == "*" else "." if c == "?" else pyre.escape(c) for c in p)
        want = pyre.fullmatch(rx, text, pyre.S) is not None
        if nk == "return" and "Ok" in nv and nv["Ok"] != want:
            return True, ("glob %r %s line %r although under `?` = one character, `*` = any run it %s"
                          % (p, "matches" if nv["Ok"] else "does not match", line, "does" if want else "does not")), "glob:%s" % ("multibyte" if any(b > 0x7f for b in line) else "ascii")
        return False, "", ""
    inputs = []
    for p in patterns:
        for widths in ([], [1], [1, 1], [1, 1, 1], [2], [1, 2], [3, 1]):
            for nl in (True, False):
                inputs.append(("p=%r char-widths=%s nl=%s" % (p, widths, nl), mk_setup(p, widths, nl)))
    h = e2.Harness("glob_rule_is_the_engine_on_the_line", drive, inputs, post, native="rule_matches", judge=judge,
                   describe="GlobRule: matches(line) ⇔ glob semantics (`?` one character, `*` any run) of the expression on the line without its newline — "
                            "scrut's own code around the wildmatch engine adds or removes nothing",
                   bound="%d patterns over {a, b, *, ?}; lines of <= 3 characters (ASCII and multi-byte), with/without final newline; wildmatch itself replaced "
                         "by the reference semantics" % len(patterns))
    h.models_cls = GlobModels
    return h


def run(pid, tier):
    global NAT
    rep = Report(pid, tier, "other")
    build_native()
    mir, mir_s = e2.dump_mir("lib")
    prog = load_program(mir, e2.REPO + "/src")
    NAT = e2.NativeEval()
    rnd = random.Random(seed())
    q = tier == "quick"
    def rule_cmp(ik, iv, nk, nv):
        # driver returns [made, matches, ...]; native returns {"Ok": bool} | {"Err": ..}
        if ik != "return" or nk != "return":
            return ik == nk
        if not iv[0]:
            return "Err" in nv
        return nv.get("Ok") == iv[1]

    def rnd_str(alph, n):
        return "".join(rnd.choice(alph) for _ in range(rnd.randint(0, n)))
    # equal / no-eol
    for kind, f, eol in (("equal", "rules/equal.rs", True), ("no-eol", "rules/no_eol.rs", False)):
        h = h_equal(kind, f, eol, 3 if q else 4, 4 if q else 5)
        val = []
        for _ in range(30):
            e = rnd_str("abé ", 3)
            line = rnd.choice([e.encode() + b"\n", e.encode(), rnd_str("ab\n", 4).encode()])
            val.append([e2.concrete_str(e), e2.concrete_bytes(line)])
        e2.process(rep, prog, NAT, h, tier, validate_inputs=val, to_native_args=lambda a, kind=kind: [kind, a[0], a[1]], compare=rule_cmp)
    # escaped
    e2.process(rep, prog, NAT, h_escaped_matches(2 if q else 3, 4 if q else 5), tier,
               to_native_args=lambda a: ["escaped", "".join("\\x%02x" % b for b in a[0]), a[1]])
    hd = h_escaped_decode(4 if q else 6)
    e2.process(rep, prog, NAT, hd, tier, to_native_args=lambda a: [a[0]])
    mism = 0
    nval = 0
    for _ in range(60):
        e = rnd_str("\\tx0aF 7n", 6)
        ik, iv = e2.run_concrete(prog, "escaped_filter::apply_escaped_filter_bytes", [e2.concrete_str(e)])
        nk, nv = NAT.call("apply_escaped_filter_bytes", [e])
        nval += 1
        same = ik == nk and (("Ok" in iv and "Ok" in nv and iv["Ok"] == nv["Ok"]) or ("Err" in iv and "Err" in nv)) if ik == "return" else ik == nk
        if not same and ik != "unsupported":
            mism += 1
            rep.mismatches.append("apply_escaped_filter_bytes(%r): interpreter %s %r != native %s %r" % (e, ik, iv, nk, nv))
    rep.subclaims[-1]["concrete_validation"] = {"inputs": nval, "mismatches": mism, "function": "apply_escaped_filter_bytes"}
    # regex
    exprs = regex_expressions("ab|", 3 if q else 4) + ["a|b", "ab|c", "a|bc", "(a|b)", "a(b|c)", "a.*", ".*a", "a|b|c", "a*|b", "(?:a|b)c"]
    # expressions that carry their own anchors / escaped anchor characters (whole-line matching must not depend on how they are written)
    exprs += regex_expressions("a|^$\\", 3 if q else 4)
    if not q:
        exprs += regex_expressions("a|.*", 4)
    exprs = sorted(set(exprs))
    val = []
    for _ in range(60):
        e = rnd.choice(exprs)
        val.append([e2.concrete_str(e), e2.concrete_bytes(rnd_str("abc", 4).encode() + rnd.choice([b"", b"\n"]))])
    e2.process(rep, prog, NAT, h_regex(exprs, 3 if q else 4, "alphabets{a,b,|},{a,|,^,$,\\}+curated"), tier, validate_inputs=val,
               to_native_args=lambda a: ["regex", a[0], a[1]], compare=rule_cmp)
    # cram glob
    pats = sorted(set("".join(t) for n in range(0, (3 if q else 4) + 1) for t in itertools.product("a*?\\.", repeat=n)))
    # every other regex metacharacter is a literal in a glob
    pats = sorted(set(pats) | set("".join(t) for n in range(1, 4) for t in itertools.product("a*|(+", repeat=n) if any(c in t for c in "|(+")))
    hg = h_cram_glob(pats, 3 if q else 4)
    e2.process(rep, prog, NAT, hg, tier, to_native_args=lambda a: [a[0]])
    hr = h_cram_glob_rule(sorted(set("".join(t) for n in range(0, (2 if q else 3) + 1) for t in itertools.product("a*?", repeat=n))))
    e2.process(rep, prog, NAT, hr, tier, to_native_args=lambda a: ["glob-cram", a[0], a[1]], compare=rule_cmp)
    mism = 0
    nval = 0
    for _ in range(60):
        p = rnd.choice(pats)
        ik, iv = e2.run_concrete(prog, "glob_cram::glob_to_regex_string", [e2.concrete_str(p)])
        nk, nv = NAT.call("glob_to_regex_string", [p])
        nval += 1
        if (ik, iv) != (nk, nv) and ik != "unsupported":
            mism += 1
            rep.mismatches.append("glob_to_regex_string(%r): interpreter %s %r != native %s %r" % (p, ik, iv, nk, nv))
        # the regex semantics itself against the real engine
        line = rnd_str("a.b", 3)
        if ik == "return":
            mine = miniregex.search(iv, list(e2.concrete_str(line).chars))
            k2, v2 = NAT.call("rule_matches", ["glob-cram", p, list(line.encode())])
            if k2 == "return" and "Ok" in v2 and bool(mine) != v2["Ok"]:
                mism += 1
                rep.mismatches.append("miniregex.search(%r, %r) = %r but the regex crate says %r" % (iv, line, mine, v2["Ok"]))
    rep.subclaims[-1]["concrete_validation"] = {"inputs": nval, "mismatches": mism, "function": "glob_to_regex_string + miniregex vs regex crate"}
    # the default (Markdown) glob kind: scrut's code around the wildmatch engine
    gp = sorted(set("".join(t) for n in range(0, (3 if q else 4) + 1) for t in itertools.product("ab*?", repeat=n)))
    hgl = h_glob_rule(gp)
    gval = [[e2.concrete_str(rnd.choice(gp)), e2.concrete_bytes(rnd_str("ab", 3).encode() + rnd.choice([b"", b"\n"]))] for _ in range(80)]
    e2.process(rep, prog, NAT, hgl, tier, validate_inputs=gval, to_native_args=lambda a: ["glob", a[0], a[1]], compare=rule_cmp)
    NAT.close()
    tot_paths = sum(s.get("paths", 0) for s in rep.subclaims)
    rep.coverage.update({
        "explanation": "SMT decision (z3) over bounded symbolic execution of the MIR of each rule's make()/matches() "
                       "(concrete shapes, symbolic contents). For regex and cram-glob the third-party engine is cut at "
                       "Regex::new / is_match and replaced by a small regex semantics over symbolic lines (lib/miniregex.py), "
                       "so what is decided is scrut's own part: rewrites, anchoring wrapper, glob→regex translation. "
                       "The glob kind is decided as `GlobRule::matches ⇔ the engine's verdict on the line without newline`, with wildmatch replaced by the "
                       "reference glob semantics (validated against the real rule on concrete samples); wildmatch itself and the regex engine are outside.",
        "functions_encoded": ["EqualRule::{make,matches}", "EqualNoEolRule::{make,matches}", "EscapedRule::{make,matches}",
                              "escaped_filter::{apply_escaped_filter_bytes,unescape_tabs,resolve_escape_sequences_to_bytes}",
                              "RegexRule::{make,matches}", "regex::{cleanup_unrecognized_escape_sequences,escape_misused_repetition_quantifier,escape_misused_character_class}",
                              "glob_cram::glob_to_regex_string", "GlobRule::{make,matches}", "newline::{assure_newline,trim_newlines}"],
        "evaluations": tot_paths, "distinct_nontrivial": tot_paths,
        "rule": "one case = one feasible path of the MIR under one input shape; distinct by path condition",
        "samples": [s for sc in rep.subclaims for s in sc.get("samples", [])][:4] or ["see subclaims"],
        "mir_dump_s": round(mir_s, 1),
    })
    rep.assumptions += ["std contract models of lib/mir_models.py", "lib/miniregex.py is a faithful semantics of the regex crate's "
                        "is_match for literals, '.', classes, groups, alternation, * + ?, ^ $ (validated natively on witnesses)",
                        "glob kind: wildmatch 2.x itself is not encoded"]
    return rep.finish()
