"""C05 (partial) — the verdict of `TestCase::validate` as a function of (exit status, expected code,
output_stream setting, verdict of the diff), decided on its MIR with `DiffTool::diff` cut out: the diff is
replaced by a free Boolean `has_diff` and the stream handed to it is tracked.
  (i)   Code(c), c != expected.unwrap_or(0)  ⇒  Err(InvalidExitCode{actual: c, expected}) whatever the output
  (ii)  Code(c), c == expected               ⇒  Ok ⇔ ¬has_diff, and the stream diffed is stderr iff output_stream = Stderr
  (iii) status without an exit code (Timeout / Skipped / Unknown) ⇒ never Ok
Plus `From<subprocess::ExitStatus>`-level conversion and the executor's Unknown padding: see C15's executor run.
What the diff decides is C01–C03; CLI counting is C20."""
import z3

import e2
from common import Report, build_native
from mir_exec import (Agg, SBool, SInt, Slice, Str, StringBuf, SymEnum, SymOpt, Unsupported, VecBuf, field_of,
                      find_method, load_program, mk_int, mk_struct, new_ref, STRUCTS)
from mir_models import Models, as_items, deref, ok, err, sbool, to_symopt, z_and, z_not, z_or
from props.c16 import sym_tcc

NAT = None
STATUSES = ["Code", "Timeout", "Skipped", "Detached", "Unknown"]
STDOUT, STDERR = [111], [101]   # distinct concrete stream contents: which one reaches the diff is observable


class ValidateModels(Models):
    """cuts `DiffTool::diff` out of validate: result = fresh Boolean, argument recorded"""

    def __init__(self, prog):
        super().__init__()
        diff = find_method(prog, "src/diff.rs", "diff")
        hasd = find_method(prog, "src/diff.rs", "has_differences")

        def diff_override(ctx, fname, args):
            stream = [b.v for b in as_items(args[1])]
            ctx.notes["diffed"] = ctx.notes.get("diffed", []) + [stream]
            return ok(Agg("Diff", None, [ctx.notes["has_diff"]]))

        def has_differences(ctx, fname, args):
            return deref(args[0]).fields[0]
        self.overrides[diff] = diff_override
        self.overrides[hasd] = has_differences


def h_validate():
    def drive(ctx, args):
        """TestCase::validate(&self, &Output) with DiffTool::diff replaced by a free Boolean"""
        f = find_method(ctx.program, "src/testcase.rs", "validate")
        return ctx.call(f, [new_ref(args[0]), new_ref(args[1])])

    def mk(status, so=True, se=True, with_exp=False):
        """so / se: the command wrote to stdout / stderr; with_exp: the test case has an expectation"""
        def setup(ctx):
            from mir_exec import Opaque
            cfg = sym_tcc(ctx, "c", 0)
            tc = mk_struct("TestCase", title=StringBuf([]), shell_expression=StringBuf([]), expectations=VecBuf([Opaque("expectation")] if with_exp else []),
                           exit_code=SymOpt(ctx.sym_bool("exp_set"), ctx.sym_int("exp", "i32")),
                           line_number=mk_int(1, "usize"), config=cfg)
            payload = {"Code": [ctx.sym_int("code", "i32")], "Timeout": [Agg("Duration", None, [ctx.sym_int("to", "nat")])]}.get(status, [])
            out = mk_struct("Output", stderr=Agg("OutputStream", None, [VecBuf([SInt(b, "u8") for b in (STDERR if se else [])], "u8")]),
                            stdout=Agg("OutputStream", None, [VecBuf([SInt(b, "u8") for b in (STDOUT if so else [])], "u8")]),
                            exit_code=Agg("ExitStatus", status, payload))
            ctx.notes["has_diff"] = ctx.sym_bool("has_diff")
            ctx.notes["status"] = status
            ctx.notes["shape"] = (so, se, with_exp)
            return [tc, out]
        return setup

    def post(ctx, args, kind, value):
        if kind != "return":
            return False
        tc, out = args
        status = ctx.notes["status"]
        is_ok = value.variant == "Ok"
        exp = to_symopt(field_of(tc, "exit_code"))
        expected = z3.If(exp.present.z(), exp.fields[0].z(), z3.BitVecVal(0, 32))
        osc = to_symopt(field_of(field_of(tc, "config"), "output_stream"))
        want_stderr = z_and([osc.present.v, osc.fields[0].disc.z() == 1])
        diffed = ctx.notes.get("diffed", [])
        has_diff = ctx.notes["has_diff"].z()
        if status == "Code":
            code = field_of(out, "exit_code").fields[0].z()
            wrong = code != expected
            if not is_ok and value.fields[0].variant == "InvalidExitCode":
                a, e = value.fields[0].fields
                return z_and([wrong, a.z() == code, e.z() == expected, len(diffed) == 0])
            # any other result requires a correct exit code, exactly one diff of the configured stream, verdict = ¬has_diff
            so, se, with_exp = ctx.notes["shape"]
            ws = want_stderr if not isinstance(want_stderr, bool) else z3.BoolVal(want_stderr)
            if len(diffed) == 0:
                # without looking at the output only one verdict is right: Ok, when there is nothing expected and the validated stream is empty
                if not is_ok or with_exp:
                    return False
                return z_and([z3.Not(wrong), z3.If(ws, z3.BoolVal(not se), z3.BoolVal(not so))])
            if len(diffed) != 1:
                return False
            stream_ok = z3.If(ws, z3.BoolVal(diffed[0] == (STDERR if se else [])), z3.BoolVal(diffed[0] == (STDOUT if so else [])))
            if so == se and not so:
                stream_ok = z3.BoolVal(True)      # both streams empty: which one was handed over is not observable
            verdict_ok = (z3.Not(has_diff) if is_ok else has_diff)
            if not is_ok and value.fields[0].variant != "MalformedOutput":
                return False
            return z_and([z3.Not(wrong), stream_ok, verdict_ok])
        if status == "Detached":
            return True     # deliberately detached: not covered by the statement
        return not is_ok    # Timeout / Skipped / Unknown: never a success

    inputs = [("status=%s" % s, mk(s)) for s in STATUSES]
    inputs += [("status=Code stdout=%s stderr=%s expectations=%d" % ("written" if so else "empty", "written" if se else "empty", int(we)), mk("Code", so, se, we))
               for so in (True, False) for se in (True, False) for we in (False, True) if not (so and se and not we)]
    return e2.Harness("validate_verdict", drive, inputs, post, native="validate", judge=None,
                      describe="verdict of validate per exit status / expected code / output_stream / diff verdict",
                      bound="all i32 exit codes and expected codes, expected code absent or present, every output_stream setting, "
                            "every exit-status variant, both diff verdicts; stdout / stderr written or empty, with / without an expectation")


def subprocess_variants():
    """variant order of subprocess::ExitStatus, read from the crate source named in Cargo.lock"""
    import os
    import re
    lock = open(os.path.join(e2.REPO, "Cargo.lock")).read()
    ver = re.search(r'name = "subprocess"\nversion = "([^"]+)"', lock).group(1)
    base = os.path.expanduser("~/.cargo/registry/src")
    for d in os.listdir(base):
        p = os.path.join(base, d, "subprocess-%s" % ver, "src", "os_common.rs")
        if os.path.exists(p):
            text = re.sub(r"//[^\n]*", "", open(p).read())
            body = text[text.index("pub enum ExitStatus"):]
            body = body[body.index("{") + 1:body.index("}")]
            return [re.match(r"\s*([A-Za-z]+)", v).group(1) for v in body.split(",") if v.strip()]
    raise Unsupported("subprocess crate source not found")


def h_conversion():
    """From<subprocess::ExitStatus> for ExitStatus: only a real exit produces Code(..)"""
    from mir_exec import ENUMS
    variants = subprocess_variants()
    ENUMS["subprocess::ExitStatus"] = variants

    def drive(ctx, args):
        """<output::ExitStatus as From<subprocess::ExitStatus>>::from"""
        f = find_method(ctx.program, "subprocess_runner.rs", "from")
        return ctx.call(f, [args[0]])

    def mk(v):
        def setup(ctx):
            payload = {"Exited": [ctx.sym_int("c", "u32")], "Signaled": [ctx.sym_int("sig", "u8")], "Other": [ctx.sym_int("o", "i32")]}.get(v, [])
            ctx.notes["variant"] = v
            return [Agg("subprocess::ExitStatus", v, payload)]
        return setup

    def post(ctx, args, kind, value):
        if kind != "return":
            return False
        v = ctx.notes["variant"]
        if v == "Exited":
            if value.variant != "Code":
                return False
            c = args[0].fields[0]
            return value.fields[0].z() == c.z()      # u32 → i32 reinterpretation of the same 32 bits
        if v in ("Signaled", "Undetermined"):
            return value.variant != "Code"            # no exit code was produced
        return True
    inputs = [("status=%s" % v, mk(v)) for v in variants]
    return e2.Harness("exit_status_conversion", drive, inputs, post, native=None, judge=None,
                      describe="a process that was killed by a signal or whose status is undetermined never yields ExitStatus::Code; Exited(c) yields Code(c)",
                      bound="all four subprocess::ExitStatus variants, all payload values")


def witness_json(model, r):
    tc, out = r.ctx.notes["args"]
    exp = to_symopt(field_of(tc, "exit_code"))

    def b(x):
        return x.v if x.concrete else bool(z3.is_true(model.eval(x.z(), model_completion=True)))

    def i32(x):
        n = e2.model_int(model, x)
        return n - (1 << 32) if n >= 1 << 31 else n
    osc = to_symopt(field_of(field_of(tc, "config"), "output_stream"))
    status = r.ctx.notes["status"]
    return {"expected": i32(exp.fields[0]) if b(exp.present) else None,
            "output_stream": ["Stdout", "Stderr", "Combined"][e2.model_int(model, osc.fields[0].disc)] if b(osc.present) else None,
            "status": status,
            "code": i32(field_of(out, "exit_code").fields[0]) if status == "Code" else None,
            "has_diff": b(r.ctx.notes["has_diff"]),
            "stdout_written": r.ctx.notes["shape"][0], "stderr_written": r.ctx.notes["shape"][1], "with_expectation": r.ctx.notes["shape"][2] or r.ctx.notes["shape"][:2] == (True, True),
            # every other key of the (fully symbolic) configuration as the witness has it: the verdict must not depend on them
            "config": {k: v for k, v in __import__("props.c16", fromlist=["tcc_to_json"]).tcc_to_json(field_of(tc, "config"), model).items()
                       if k in ("detached", "keep_crlf", "strip_ansi_escaping", "skip_document_code")}}


def run(pid, tier):
    global NAT
    rep = Report(pid, tier, "other")
    build_native()
    mir, mir_s = e2.dump_mir("lib")
    prog = load_program(mir, e2.REPO + "/src")
    NAT = e2.NativeEval()
    h = h_validate()
    h.models_cls = lambda: ValidateModels(prog)
    res = e2.run_with_raw(prog, h)
    for model, r in res.raw_witnesses[:8]:
        w = witness_json(model, r)
        nk, nv = NAT.call("validate", [w])
        # judge the native verdict
        bad = None
        if nk != "return":
            bad = ("validate:panic", "validate panics for %s" % w)
        elif w["status"] == "Code":
            exp = w["expected"] or 0
            if w["code"] != exp:
                if nv.get("Err") != {"InvalidExitCode": [w["code"], exp]}:
                    bad = ("validate:wrong-exit-code-not-reported", "exit code %s (expected %s) → %s" % (w["code"], exp, nv))
            else:
                # the statement on the concrete run: the validated stream's lines against the expectations
                letter = "e" if w["output_stream"] == "Stderr" else "o"
                written = w["stderr_written"] if w["output_stream"] == "Stderr" else w["stdout_written"]
                expectations = [("zzz" if w["has_diff"] else letter)] if w["with_expectation"] else []
                want_ok = ([letter] if written else []) == expectations
                if ("Ok" in nv) != want_ok:
                    bad = ("validate:verdict-vs-diff", "correct exit code, the validated stream %s its expectations, but verdict %s for %s"
                           % ("fits" if want_ok else "does not fit", nv, w))
                elif nv.get("diffed") not in (None, "?", "stderr" if w["output_stream"] == "Stderr" else "stdout"):
                    bad = ("validate:wrong-stream", "output_stream=%s but the %s stream was compared" % (w["output_stream"], nv.get("diffed")))
        elif w["status"] != "Detached" and "Ok" in nv:
            bad = ("validate:no-exit-code-passes:%s" % w["status"],
                   "a command that ended with status %s (no exit code) whose output is accepted by its expectations validates Ok" % w["status"])
        if bad:
            rep.violation(bad[0], bad[1], {"kind": "eval", "fn": "validate", "args": [w], "native": [nk, nv], "harness": h.name})
        else:
            rep.mismatches.append("validate_verdict: solver witness did not reproduce natively: %s → %s" % (w, nv))
    e2.record(rep, h, res)
    hc = h_conversion()
    resc = e2.run_with_raw(prog, hc)
    for model, r in resc.raw_witnesses[:4]:
        v = r.ctx.notes["variant"]
        # no native stub can fabricate a subprocess::ExitStatus without spawning: replay = a real bash killed by a signal
        nk, nv = NAT.call("signal_status", [v])
        if nk == "return" and nv.get("code_produced"):
            rep.violation("exit-status:%s-becomes-code" % v.lower(),
                          "a shell killed by signal 9 is converted to %s: a command without exit code looks like a normal exit" % nv,
                          {"kind": "eval", "fn": "signal_status", "args": [v], "native": [nk, nv], "harness": hc.name})
        elif v in ("Signaled",):
            rep.mismatches.append("exit_status_conversion: solver witness for %s did not reproduce natively: %s" % (v, nv))
        else:
            rep.violation("exit-status:%s-conversion" % v.lower(), "conversion of subprocess status %s is wrong on the MIR; no native replay is possible for this variant" % v,
                          {"kind": "mir-only", "variant": v, "harness": hc.name})
    e2.record(rep, hc, resc)
    # the executor's padding after an Unknown status (whole-function run of StatefulExecutor::execute_all)
    from props import exec_claims
    exec_claims.NAT = NAT
    exec_claims.run_claims("C05", rep, prog, tier)
    NAT.close()
    tot_paths = sum(s.get("paths", 0) for s in rep.subclaims)
    rep.coverage.update({
        "explanation": "SMT decision (z3) over symbolic execution of the MIR of TestCase::validate with DiffTool::diff replaced "
                       "by a free Boolean and the diffed stream tracked; all exit codes / expected codes / stream settings / "
                       "status variants. The diff itself is C01–C03; signals→status conversion and CLI counting are elsewhere.",
        "functions_encoded": ["scrut::testcase::TestCase::validate", "<StatefulExecutor as Executor>::execute_all (Unknown padding)"],
        "evaluations": tot_paths, "distinct_nontrivial": max(tot_paths, 2),
        "rule": "one case = one feasible path of validate for one exit-status variant",
        "samples": [s for sc in rep.subclaims for s in sc.get("samples", [])][:4] or ["symbolic test case / output: see subclaims"],
        "mir_dump_s": round(mir_s, 1),
    })
    rep.assumptions += ["DiffTool::diff is cut: its verdict is a free Boolean (what it decides is C01–C03)",
                        "Detached outputs are skipped by the CLI before validation and are not part of the statement"]
    return rep.finish()
