"""C06 (partial) — Markdown parsing:
 (a) the fence classifier `extract_code_block_start` (E2 over all UTF-8 lines <= N bytes; Kani harnesses on
     the compiled function in the thorough tier);
 (b) the tokenizer `MarkdownIterator::next`, driven to exhaustion on every document of <= K lines of <= L
     ASCII chars each: the tokens account for every line of the document, in order, with the right
     line indices — nothing is dropped, also not after an unterminated fence / front-matter;
 (c) `MarkdownParser::parse` with its leaf parsers (title regexes, YAML, LineParser) havoc'd: no panic
     in parse's own code on any such document (e.g. indexing the last code line of an empty block).
"""
import itertools
import random

import z3

import e2
import kani
from common import Report, build_native, seed
from mir_exec import Agg, SBool, SInt, Slice, Str, StringBuf, VecBuf, Unsupported, find_method, load_program, new_ref
from mir_models import SeqIt, as_items, as_str, char_eq, deref, is_whitespace, str_eq, z_and, z_not, z_or

TICK = SInt(ord("`"), "char")
BRACE = SInt(ord("{"), "char")
NAT = None


# ------------------------------------------------------------------------------------------------
# (a) fence classifier


def h_fence(max_bytes):
    def post(ctx, args, kind, value):
        if kind != "return":
            return False
        line = args[0].chars
        n = len(line)
        if value.variant == "Some":
            t, l, c = [as_str(x).chars for x in value.fields[0].fields]
            conds = []
            if len(t) < 3 or len(t) + len(l) + len(c) > n:
                return False
            conds += [char_eq(x, TICK) for x in t]
            conds += [char_eq(x, y) for x, y in zip(t, line)]
            # line = t ++ l ++ blanks ++ c ++ blanks: nothing but whitespace is left out
            rest = line[len(t):]
            conds += [char_eq(x, y) for x, y in zip(l, rest)]
            if l:
                conds.append(z_not(is_whitespace(l[-1])))
            tail = rest[len(l):]
            if c:
                conds.append(char_eq(c[0], BRACE))
                alts = []
                for p in range(0, len(tail) - len(c) + 1):
                    alts.append(z_and([is_whitespace(x) for x in tail[:p]] + [char_eq(x, y) for x, y in zip(c, tail[p:])]
                                      + [is_whitespace(x) for x in tail[p + len(c):]]))
                conds.append(z_or(alts))
            else:
                conds += [is_whitespace(x) for x in tail]
            return z_and(conds)
        # None: the line must not be `>= 3 backticks + info string without backticks`
        bad = []
        for k in range(3, n + 1):
            lead = [char_eq(x, TICK) for x in line[:k]]
            rest = [z_not(char_eq(x, TICK)) for x in line[k:]]
            bad.append(z_and(lead + rest))
        return z_not(z_or(bad))

    def judge(args, nk, nv):
        line = args[0]
        if nk != "return":
            return True, "extract_code_block_start panics on %r" % line, "fence-classifier:panic"
        k = len(line) - len(line.lstrip("`"))
        if nv is None:
            if k >= 3 and "`" not in line[k:]:
                return True, ("line %r (>= 3 backticks%s) is not recognised as a fence opener"
                              % (line, "" if k < len(line) else ", no info string")), "fence-opener:not-recognised:backticks>=4-bare" if k == len(line) else "fence-opener:not-recognised"
            return False, "", ""
        t, l, c = nv["Some"]
        if len(t) < 3 or set(t) != {"`"}:
            return True, "line %r opens a fence with opener %r (fewer than three backticks)" % (line, t), "fence-opener:backticks=%d" % len(t)
        if not line.startswith(t) or not line.rstrip().endswith(c) or (c and c[0] != "{") or line.rstrip()[len(t):len(line.rstrip()) - len(c)].rstrip() != l:
            return True, "pieces %r do not re-assemble line %r" % (nv, line), "fence-classifier:pieces"
        return False, "", ""
    inputs = [("widths=%s" % sh, (lambda ctx, sh=sh: [ctx.sym_str("l", sh)])) for sh in e2.str_shapes(max_bytes)]
    return e2.Harness("fence_classifier", "parsers::markdown::extract_code_block_start", inputs, post,
                      native="extract_code_block_start", judge=judge,
                      describe="no panic; Some(t,l,c) ⇒ t is >= 3 backticks, t/l/c re-assemble the line up to blanks after l and after c, c is empty or starts "
                               "with '{'; None ⇒ the line is not `>= 3 backticks + backtick-free info string`",
                      bound="all valid UTF-8 lines of <= %d bytes" % max_bytes)


# ------------------------------------------------------------------------------------------------
# (b) tokenizer conservation


ALPHABET = "`-s{}# $a"


_DOC_CACHE = {}


def make_doc(ctx, lens, restrict=True):
    """K symbolic ASCII lines; the variables and their alphabet constraint are built once and reused on every path"""
    lines = []
    for i, n in enumerate(lens):
        chars = []
        for j in range(n):
            key = (i, j)
            if key not in _DOC_CACHE:
                v = z3.BitVec("d%d_%d" % (i, j), 32)
                _DOC_CACHE[key] = (v, z3.Or([v == ord(a) for a in ALPHABET]))
            v, cons = _DOC_CACHE[key]
            ctx.add(cons)
            chars.append(SInt(v, "char", 1))
        lines.append(Str(chars))
    return lines


def tokenize_driver(ctx, args):
    """MarkdownIterator::new(["s"], lines) then next() until None"""
    lines = args[0].items
    prog = ctx.program
    new = prog.resolve_call("MarkdownIterator::new") or prog.find("MarkdownIterator::new")
    it = ctx.call(new, [Slice([Str([SInt(ord("s"), "char")])]), SeqIt(list(lines))])
    cell = new_ref(it, True)
    nxt = prog.resolve_call("<MarkdownIterator as Iterator>::next")
    if nxt is None:
        raise Unsupported("cannot resolve <MarkdownIterator as Iterator>::next")
    toks = []
    for _ in range(len(lines) + 2):
        r = ctx.call(nxt, [cell])
        if r.variant == "None":
            return Slice(toks)
        toks.append(r.fields[0])
    raise Unsupported("tokenizer produced more tokens than lines")


def numbered(v):
    """Vec<(usize, String)> → [(index SInt, chars)]"""
    return [(t.fields[0], as_str(t.fields[1]).chars) for t in as_items(v)]


def same(a, b):
    if len(a) != len(b):
        return False
    return z_and([char_eq(x, y) for x, y in zip(a, b)])


def opener_ticks_formula(line, k):
    """line starts with exactly k backticks"""
    if k > len(line):
        return False
    conds = [char_eq(x, TICK) for x in line[:k]]
    if k < len(line):
        conds.append(z_not(char_eq(line[k], TICK)))
    return z_and(conds)


def starts_with_ticks(line, k):
    if k > len(line):
        return False
    return z_and([char_eq(x, TICK) for x in line[:k]])


def block_extent_ok(lines, p, body_start, end, closed):
    """the block opened at line p ends at the first line >= body_start that starts with the opener's
    backticks (line end-1 when `closed`), or runs to the end of the document"""
    opener = lines[p].chars
    alts = []
    for k in range(3, len(opener) + 1):
        conds = [opener_ticks_formula(opener, k)]
        inner_end = end - 1 if closed else end
        for q in range(body_start, inner_end):
            conds.append(z_not(starts_with_ticks(lines[q].chars, k)))
        if closed:
            conds.append(starts_with_ticks(lines[end - 1].chars, k))
        alts.append(z_and(conds))
    return z_or(alts)


def tokens_account_for(lines, toks):
    """→ (formula/bool that the tokens cover `lines` exactly in order, consumed count).
    A block may be closed by its closing line or run to the end of the document."""
    K = len(lines)
    p = 0
    conds = []

    def idx_ok(ix, want):
        if ix.concrete:
            return ix.v == want
        return ix.z() == want
    for t in toks:
        v = t.variant
        if v == "Line":
            if p >= K:
                return False, p
            conds += [idx_ok(t.fields[0], p), same(as_str(t.fields[1]).chars, lines[p].chars)]
            p += 1
        elif v == "DocumentConfig":
            cfg = numbered(t.fields[0])
            n = len(cfg)
            if p + n + 2 <= K:
                closed = True
            elif p + n + 1 == K:
                closed = False
            else:
                return False, p
            for k, (ix, chars) in enumerate(cfg):
                conds += [idx_ok(ix, p + 1 + k), same(chars, lines[p + 1 + k].chars),
                          z_not(str_is(lines[p + 1 + k].chars, "---"))]
            if closed:
                conds.append(str_is(lines[p + 1 + n].chars, "---"))
            p += n + (2 if closed else 1)
        elif v == "VerbatimCodeBlock":
            ls = as_items(t.fields[2])
            if p + len(ls) > K or not ls:
                return False, p
            conds.append(idx_ok(t.fields[0], p))
            for k, s in enumerate(ls):
                conds.append(same(as_str(s).chars, lines[p + k].chars))
            end = p + len(ls)
            # closed iff the last recorded line is a closing line; otherwise it must run to EOF
            if len(ls) >= 2:
                closed_f = block_extent_ok(lines, p, p + 1, end, True)
                open_f = block_extent_ok(lines, p, p + 1, end, False) if end == K else False
                conds.append(z_or([closed_f, open_f]))
            elif end != K:
                return False, p
            p = end
        elif v == "TestCodeBlock":
            comments, code = numbered(t.fields[2]), numbered(t.fields[3])
            body = len(comments) + len(code)
            if p + 1 + body + 1 <= K:
                closed = True
            elif p + 1 + body == K:
                closed = False
            else:
                return False, p
            q = p + 1
            for ix, chars in comments + code:
                conds += [idx_ok(ix, q), same(chars, lines[q].chars)]
                q += 1
            for ix, chars in numbered(t.fields[1]):
                conds.append(idx_ok(ix, p))
            end = p + 1 + body + (1 if closed else 0)
            conds.append(block_extent_ok(lines, p, p + 1, end, closed))
            p = end
        else:
            return False, p
    if p != K:
        return False, p
    return z_and(conds), p


def str_is(chars, text):
    if len(chars) != len(text):
        return False
    return z_and([char_eq(c, SInt(ord(t), "char")) for c, t in zip(chars, text)])


def ref_fence(line):
    """reference fence classifier on a concrete line → (ticks, language) | None | 'unspecified'"""
    k = len(line) - len(line.lstrip("`"))
    if k < 3:
        return None
    rest = line[k:]
    if "`" in rest:
        return "unspecified"
    info = rest.split("{", 1)[0] if "{" in rest else rest
    return ("`" * k, info.rstrip())


def ref_tokens(lines, languages):
    """reference tokenization of a concrete document → 'kind:count kind:count ..' (the shape the native hook reports),
    or None when the document contains a line whose classification the claim leaves open"""
    out = []
    i = 0
    n = len(lines)
    content = False
    while i < n:
        line = lines[i]
        if not content and line == "---":
            j = i + 1
            while j < n and lines[j] != "---":
                j += 1
            cnt = (j - i + 1) if j < n else (j - i)
            out.append("config:%d" % (j - i - 1 + 2))
            i = j + 1 if j < n else n
            continue
        f = ref_fence(line)
        if f == "unspecified":
            return None
        if f is not None:
            content = True
            ticks, lang = f
            j = i + 1
            while j < n and not lines[j].startswith(ticks):
                j += 1
            if lang in languages:
                body = j - (i + 1)
                out.append("test:%d" % (body + 2))
            else:
                out.append("verbatim:%d" % ((j - i + 1) if j < n else (j - i)))
            i = j + 1 if j < n else n
            continue
        if line.strip() != "":
            content = True
        out.append("line:1")
        i += 1
    return " ".join(out)


def h_tokenizer(max_lines, max_len):
    def post(ctx, args, kind, value):
        if kind != "return":
            return False
        ok, _p = tokens_account_for(list(args[0].items), list(value.items))
        return ok

    def judge(args, nk, nv):
        doc = args[0]
        if nk != "return":
            return True, "tokenizing %r panics" % doc, "tokenizer:panic"
        if nv["accounted"] != len(doc) or not nv["consistent"]:
            return True, ("document %r: tokens account for %d of %d lines (%s)"
                          % ("\n".join(doc), nv["accounted"], len(doc), nv["shape"])), \
                "tokenizer:lines-dropped:" + nv["why"]
        want = ref_tokens(doc, ["s"])
        if want is not None and want != nv["shape"]:
            return True, ("document %r is tokenized as [%s] but its blocks are [%s]: a block is ended at the wrong line"
                          % ("\n".join(doc), nv["shape"], want)), "tokenizer:block-extent"
        return False, "", ""
    inputs = []
    for k in range(0, max_lines + 1):
        # the longest documents get lines one char shorter
        ml = max_len if k < max_lines or max_lines <= 2 else max_len - 1
        for lens in itertools.product(range(0, ml + 1), repeat=k):
            inputs.append(("line-lengths=%s" % (list(lens),),
                           (lambda ctx, lens=lens: [Slice(make_doc(ctx, lens))])))
    return e2.Harness("tokenizer_conservation", tokenize_driver, inputs, post, native="markdown_tokens", judge=judge,
                      describe="tokens of MarkdownIterator account for every document line once, in order, with its index",
                      bound="documents of < %d lines with lines <= %d chars, and of %d lines with lines <= %d chars, over "
                            "the alphabet %r; languages = [\"s\"]" % (max_lines, max_len, max_lines, max_len - 1, ALPHABET))


def run(pid, tier):
    global NAT
    rep = Report(pid, tier, "other")
    build_native()
    mir, mir_s = e2.dump_mir("lib")
    prog = load_program(mir, e2.REPO + "/src")
    NAT = e2.NativeEval()
    rnd = random.Random(seed())
    nb = 6 if tier == "quick" else 8
    val = [[e2.concrete_str(x)] for x in ["```", "````", "``x", "```scrut", "```s {a}", "a`b", "```é{x}", "", "`", "```` y", "```s{"]]
    for _ in range(30):
        val.append([e2.concrete_str("".join(rnd.choice("`a{} é") for _ in range(rnd.randint(0, 6))))])
    e2.process(rep, prog, NAT, h_fence(nb), tier, validate_inputs=val)
    K, L = (3, 4) if tier == "quick" else (4, 4)      # (4, 5) takes more than an hour on 16 cores
    docs = [["```s", "$ a", "```"], ["---", "a", "---", "x"], ["```s"], ["---"], ["a", "```", "b"], ["```s", "```"],
            ["```s", "# c", "$ a", "```", "t"], ["````", "```s", "```", "````"]]
    vald = [[Slice([e2.concrete_str(l) for l in d])] for d in docs]
    e2.process(rep, prog, NAT, h_tokenizer(K, L), tier, validate_inputs=[],
               to_native_args=lambda a: [a[0], ["s"]])
    # the reference tokenization used to judge replays must agree with the native tokenizer on the unchanged claim
    checked = bad = 0
    for d in docs + [[rnd.choice(["```s", "```", "````", "---", "# c", "$ a", "a", "", "```x", "``", "```s{a}"]) for _ in range(rnd.randint(0, 5))] for _ in range(60)]:
        want = ref_tokens(d, ["s"])
        nk, nv = NAT.call("markdown_tokens", [d, ["s"]])
        checked += 1
        if want is not None and (nk != "return" or nv["shape"] != want):
            bad += 1
            if bad <= 3:
                rep.mismatches.append("reference tokenization of %r is [%s] but the native tokenizer says %s" % (d, want, nv))
    rep.subclaims[-1]["concrete_validation"] = {"inputs": checked, "mismatches": bad, "function": "reference tokenization vs native MarkdownIterator"}
    # (c) whole-parser claims on template documents
    from props import docs
    hd = docs.h_md_parse(4 if tier == "quick" else 5)
    resd = e2.run_with_raw(prog, hd)
    docs.replay_md(rep, NAT, hd, resd)
    e2.record(rep, hd, resd)
    if tier == "thorough":
        # second engine on the fence classifier: Kani/CBMC on the compiled function (≈ 3 min per harness)
        for name in ("c06::c06_fence_opener_needs_three_backticks", "c06::c06_fence_pieces_reassemble", "c06::c06_fence_three_backticks_open"):
            k = kani.run_harness(name, timeout_s=1200)
            st = {"pass": "holds", "fail": "violated", "undecided": "undecided"}[k["status"]]
            if k["status"] == "fail" and not k.get("unwinding_failure"):
                bs = kani.decode_bytes_len(k["playback"][0], 5) if k.get("playback") else None
                confirmed = False
                if bs is not None:
                    try:
                        text = bytes(bs).decode("utf-8")
                        nk, nv = NAT.call("extract_code_block_start", [text])
                        bad, why, sig = h_fence(5).judge([text], nk, nv)
                        if bad:
                            confirmed = True
                            rep.violation(sig, why + " (Kani counterexample)", {"kind": "eval", "fn": "extract_code_block_start", "args": [text], "native": [nk, nv], "harness": name})
                    except UnicodeDecodeError:
                        pass
                if not confirmed:
                    rep.mismatches.append("Kani counterexample for %s did not reproduce natively: %s" % (name, bs))
            elif k["status"] != "pass":
                rep.undecided.append("%s: %s" % (name, k.get("why", "unwinding bound too small")))
                st = "undecided"
            rep.subclaim(name=name, engine="E1 (Kani/CBMC)", bound="valid UTF-8 lines <= 5 bytes, unwind 8, unwinding assertions on",
                         what="fence classifier claim on the compiled function", result=st, checks=k.get("checks"), covers=k.get("covers"),
                         cbmc_s=k.get("cbmc_s"), wall_s=k["wall_s"])
    NAT.close()
    tot_paths = sum(s.get("paths", 0) for s in rep.subclaims)
    rep.coverage.update({
        "explanation": "SMT decision (z3) over bounded symbolic execution of the MIR of extract_code_block_start and of "
                       "MarkdownIterator::next driven to exhaustion (concrete line counts/lengths, symbolic contents); "
                       "witnesses replayed through the native tokenizer / parser; plus the whole MarkdownParser::parse (LineParser, "
                       "ExpectationMaker, title regexes via lib/miniregex.py) on every template document of <= 4/5 lines. YAML config "
                       "contents, CRLF documents and non-ASCII prose are outside.",
        "functions_encoded": ["scrut::parsers::markdown::extract_code_block_start", "scrut::parsers::markdown::MarkdownIterator::new",
                              "<scrut::parsers::markdown::MarkdownIterator as Iterator>::next", "scrut::parsers::line_parser::is_comment",
                              "<MarkdownParser as Parser>::parse", "markdown::extract_title", "markdown::extract_header", "LineParser::*", "ExpectationMaker::parse"],
        "evaluations": tot_paths, "distinct_nontrivial": tot_paths,
        "rule": "one case = one feasible path of the MIR under one input shape; distinct by path condition",
        "samples": [s for sc in rep.subclaims for s in sc.get("samples", [])][:4] or ["see subclaims"],
        "mir_dump_s": round(mir_s, 1),
    })
    rep.assumptions += ["std contract models of lib/mir_models.py — validated on concrete inputs against the native build",
                        "tokenizer documents use the alphabet %r; non-ASCII lines are covered by the fence-classifier claim only" % ALPHABET]
    return rep.finish()
