"""C07 — Cram documents, decided on the MIR of the whole `CramParser::parse` (with LineParser, ExpectationMaker and the exit-code regex via
lib/miniregex.py) on every template document within the bound; see props/docs.py for templates and the reference derived from the
statement.  An `Err` is always acceptable.  Titles are only checked where "nearest preceding title line" is unambiguous (first test after
the title line).  Non-ASCII text, tabs in indentation and very long documents are outside."""
import e2
from common import Report, build_native
from mir_exec import load_program
from props import docs


def run(pid, tier):
    rep = Report(pid, tier, "other")
    build_native()
    mir, mir_s = e2.dump_mir("lib")
    prog = load_program(mir, e2.REPO + "/src")
    nat = e2.NativeEval()
    ho = docs.h_cram_parse(3 if tier == "quick" else 4, orphan=True)
    reso = e2.run_with_raw(prog, ho)
    docs.replay_cram(rep, nat, ho, reso)
    e2.record(rep, ho, reso)
    h = docs.h_cram_parse(4 if tier == "quick" else 5)
    res = e2.run_with_raw(prog, h)
    docs.replay_cram(rep, nat, h, res)
    e2.record(rep, h, res)
    # the reference used to judge replays must agree with the native parser on ordinary documents
    import random
    from common import seed
    rnd = random.Random(seed())
    bad = checked = 0
    for _ in range(80):
        seq = "".join(rnd.choice("TBKCGXSWR") for _ in range(rnd.randint(0, 6)))
        lines = []
        for t in seq:
            spec = docs.CRAM_TEMPLATES[t]
            lines.append(spec[0] + "".join(rnd.choice("abcxyz") for _ in range(spec[1])) + (spec[2] if len(spec) > 2 else ""))
        doc = "\n".join(lines) + ("\n" if lines else "")
        nk, nv = nat.call("cram_parse", [doc])
        checked += 1
        verdict = docs.cram_judge_native(seq, lines, nv) if nk == "return" else None
        if verdict is not None and verdict[0] == "cram:output-without-command-accepted":
            continue        # the recorded finding, not a disagreement about ordinary documents
        if verdict is not None:
            bad += 1
            if bad <= 3:
                rep.mismatches.append("reference vs native parser disagree on ordinary cram document %r: %s" % (doc, docs.cram_judge_native(seq, lines, nv)))
    rep.subclaims[-1]["concrete_validation"] = {"inputs": checked, "mismatches": bad, "function": "reference (from the statement) vs native CramParser"}
    nat.close()
    tot = sum(s.get("paths", 0) for s in rep.subclaims)
    rep.coverage.update({
        "explanation": "SMT decision (z3) over bounded symbolic execution of the MIR of CramParser::parse + LineParser + ExpectationMaker::parse "
                       "on template documents (concrete line structure, symbolic payload letters), against a reference derived from the statement; "
                       "regex engine replaced by lib/miniregex.py; witnesses replayed natively.",
        "functions_encoded": ["<CramParser as Parser>::parse", "LineParser::{new,add_testcase_body,end_testcase,set_testcase_title,set_testcase_config,has_testcase_body,flush}",
                              "line_parser::{extract_exit_code,is_comment}", "ExpectationMaker::parse", "TestCaseConfig::default_cram", "DocumentConfig::default_cram"],
        "evaluations": tot, "distinct_nontrivial": max(tot, 2),
        "rule": "one case = one feasible path of the parser for one template document",
        "samples": [s for sc in rep.subclaims for s in sc.get("samples", [])][:4] or ["template documents: see subclaims"],
        "mir_dump_s": round(mir_s, 1),
    })
    rep.assumptions += ["lib/miniregex.py regex semantics; std contract models", "payloads are lowercase ASCII letters"]
    return rep.finish()
