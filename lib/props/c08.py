"""C08 (partial) — the expectation grammar, decided on the MIR of `ExpectationMaker::parse` → `extract` →
`RuleRegistry::{default, to_expectation_regex, make}` → the rule makers.  The regex *engine* is cut at
`Regex::new` / `captures` / `is_match` and replaced by lib/miniregex.py (leftmost-first capture semantics on a
symbolic subject); the pattern text itself is produced by the real `to_expectation_regex` on the real registry.
Claims, for every line in the bound (no newline):
  1. parse does not panic;
  2. if the line is `expr WS ( K Q )` with K a documented kind or empty, Q in {?,*,+} or empty, and not both empty:
     the result is an expectation of kind K (equal when empty) over exactly `expr`, optional ⇔ Q in {?,*},
     multiline ⇔ Q in {*,+} — or an error only for kind regex/escaped;
  3. otherwise (no such final group, including a final `()`): an `equal` expectation for the whole line, no quantifier.
  4. canonical rendering: parse(to_expression_string(parse(line))) keeps the quantifier and gives the same verdict on every probe
     line (kinds equal / no-eol / escaped; glob and regex rendering is not covered)."""
import itertools
import random
import re

import z3

import e2
import miniregex
from common import Report, build_native, seed
from mir_exec import (Agg, MapBuf, Opaque, SBool, SInt, Slice, Str, StringBuf, Unsupported, VecBuf, find_method, load_program, new_ref)
from mir_models import (Models, SeqIt, as_items, as_str, char_eq, deref, err, none, ok, sbool, some, str_eq, z_and, z_not, z_or, is_whitespace)
from props.c04 import RegexModels, unbox_rule

NAT = None
KINDS = {"equal": "EqualRule", "eq": "EqualRule", "no-eol": "EqualNoEolRule", "escaped": "EscapedRule", "esc": "EscapedRule",
         "glob": "GlobRule", "gl": "GlobRule", "regex": "RegexRule", "re": "RegexRule"}


class GrammarModels(RegexModels):
    def __init__(self):
        super().__init__()
        ins = lambda pat, fn: self.table.insert(0, (re.compile("^(?:%s)$" % pat), fn))

        def captures(c, m, a):
            rx = deref(a[0])
            pat = "".join(chr(ch.v) for ch in rx.fields[0].chars)
            subj = list(as_str(a[1]).chars)
            for cond, caps, ng in miniregex.shapes(pat, subj):
                if c.decide(cond):
                    groups = [some(Agg("Match", None, [Str(subj)]))]
                    for g in range(1, ng + 1):
                        if g in caps:
                            s0, s1 = caps[g]
                            groups.append(some(Agg("Match", None, [Str(subj[s0:s1])])))
                        else:
                            groups.append(none())
                    return some(Agg("Captures", None, [Slice(groups)]))
            return none()
        ins(r"regex::Regex::captures|Regex::captures|regex::regex::string::Regex::captures", captures)
        base_new = [h for rx, h in self.table if rx.pattern.startswith("^(?:regex::bytes::Regex::new")][0]

        def rx_new_sym(c, m, a):
            s_ = as_str(a[0])
            if all(ch.concrete for ch in s_.chars):
                return base_new(c, m, a)
            # a symbolic pattern: whether it compiles is left open (both outcomes are explored)
            if c.decide(c.sym_bool(c.fresh_name("regex_compiles")).v):
                return ok(Agg("Regex", None, [Str(s_.chars)]))
            return err(Agg("RegexError", None, []))
        ins(r"regex::bytes::Regex::new|ByteRegex::new|regex::regex::bytes::Regex::new", rx_new_sym)
        ins(r"regex::Captures::iter|Captures::iter", lambda c, m, a: SeqIt(list(deref(a[0]).fields[0].items)))
        ins(r"regex::Match::as_str|Match::as_str", lambda c, m, a: deref(a[0]).fields[0])
        ins(r"HashMap::<.*>::keys", lambda c, m, a: SeqIt([new_ref(k) for k, _v in deref(a[0]).entries]))

        def sort_strs(c, m, a):
            loc = a[0]
            v = deref(loc)
            items = list(v.items)

            def key(x):
                s = as_str(x)
                if not all(ch.concrete for ch in s.chars):
                    raise Unsupported("sort of symbolic strings")
                return "".join(chr(ch.v) for ch in s.chars).encode()
            items.sort(key=key)
            if isinstance(v, VecBuf):
                v.items = items
            else:
                raise Unsupported("sort on %r" % (v,))
            from mir_exec import UNIT
            return UNIT
        ins(r"core::slice::<impl \[.*\]>::sort", sort_strs)
        ins(r"<Vec<.*> as DerefMut>::deref_mut", lambda c, m, a: a[0])
        ins(r"<&for fn\(&str\) -> Result<Box<dyn Rule>, anyhow::Error> as Fn<\(&str,\)>>::call|<&for<> fn\(&str\) -> Result<Box<dyn Rule>, anyhow::Error> as Fn<\(&str,\)>>::call",
            lambda c, m, a: c.call_callable(deref(a[0]), list(a[1].fields)))
        ins(r"WildMatch::new|wildmatch::WildMatch::new|WildMatchPattern::<.*>::new", lambda c, m, a: Agg("WildMatch", None, [as_str(a[0])]))
        ins(r"<Arc<.*> as Clone>::clone|Arc::<.*>::new", lambda c, m, a: a[0])
        ins(r"<Level as PartialOrd<LevelFilter>>::le", lambda c, m, a: SBool(False))


_MAKER = {}


def get_maker(ctx):
    """ExpectationMaker(RuleRegistry::default()) built by the MIR of the registry"""
    prog = ctx.program
    dflt = prog.resolve_call("<RuleRegistry as Default>::default")
    if dflt is None:
        raise Unsupported("cannot resolve <RuleRegistry as Default>::default")
    reg = ctx.call(dflt, [])
    return Agg("ExpectationMaker", None, [reg])


def drive(ctx, args):
    """ExpectationMaker::new(RuleRegistry::default()).parse(line)"""
    prog = ctx.program
    maker = get_maker(ctx)
    parse = find_method(prog, "src/expectation.rs", "parse")
    r = ctx.call(parse, [new_ref(maker), args[0]])
    if r.variant != "Ok":
        return Agg("tuple", None, [SBool(False)])
    e = r.fields[0]
    optional, multiline, rule = e.fields[0], e.fields[1], e.fields[2]
    while isinstance(rule, Agg) and rule.ty == "Box":
        rule = __import__('mir_exec').box_ref(rule).loc.get()
    return Agg("tuple", None, [SBool(True), optional, multiline, rule])


def rule_expr_chars(ctx, rule):
    """the expression a rule was made from, as chars (None if not observable)"""
    if rule.ty in ("EqualRule", "EqualNoEolRule", "EscapedRule", "RegexRule"):
        return list(as_str(rule.fields[0]).chars)
    if rule.ty == "GlobRule":
        return list(as_str(rule.fields[0].fields[0]).chars)
    return None


def structured_inputs(max_u):
    """line = u ++ sep ++ '(' ++ K ++ Q ++ ')' with u symbolic, plus unstructured symbolic lines"""
    kinds = ["", "equal", "eq", "no-eol", "escaped", "esc", "glob", "gl", "regex", "re", "foo", "Glob", "glob "]
    quants = ["", "?", "*", "+", "??", "x"]
    out = []
    for k in kinds:
        for q in quants:
            for nu in range(0, max_u + 1):
                for sep in (" ", "\t", ""):
                    out.append((nu, sep, k, q))
    return out


ALPHA = "a ()?*+"


def h_grammar(max_u, max_free):
    def mk_struct_line(nu, sep, k, q):
        def setup(ctx):
            u = [ctx.sym_char("u%d" % i, 1) for i in range(nu)]
            for ch in u:
                ctx.add(z3.Or([ch.z() == ord(x) for x in ALPHA]))
            line = u + [SInt(ord(c), "char") for c in sep + "(" + k + q + ")"]
            ctx.notes["line"] = line
            return [Str(line)]
        return setup

    def mk_free(n):
        def setup(ctx):
            line = [ctx.sym_char("c%d" % i, 1) for i in range(n)]
            for ch in line:
                ctx.add(z3.Or([ch.z() == ord(x) for x in ALPHA]))
            ctx.notes["line"] = line
            return [Str(line)]
        return setup

    def spec_cases(line):
        """→ list of (condition, expected) covering the line: expected = (kind_struct, expr_chars, optional, multiline, may_fail)"""
        n = len(line)
        cases = []
        taken = []
        # a modifier group: line[p] whitespace, line[p+1] == '(', ..., line[-1] == ')', content = K ++ Q
        for p in range(0, n - 2):
            content = line[p + 2:n - 1]
            for kname in [""] + sorted(KINDS):
                for q in ["", "?", "*", "+"]:
                    if not kname and not q:
                        continue
                    text = kname + q
                    if len(text) != len(content):
                        continue
                    cond = z_and([is_whitespace(line[p]), char_eq(line[p + 1], SInt(ord("("), "char")), char_eq(line[n - 1], SInt(ord(")"), "char"))]
                                 + [char_eq(x, SInt(ord(c), "char")) for x, c in zip(content, text)])
                    if cond is False:
                        continue
                    kind = KINDS.get(kname, "EqualRule")
                    cases.append((cond, (kind, line[:p], q in ("?", "*"), q in ("*", "+"), kind in ("RegexRule", "EscapedRule"))))
                    taken.append(cond)
        other = z_not(z_or(taken)) if taken else True
        cases.append((other, ("EqualRule", line, False, False, False)))
        return cases

    def post(ctx, args, kind, value):
        if kind != "return":
            return False
        line = ctx.notes["line"]
        made = value.fields[0].v
        conds = []
        for cond, (rk, expr, opt, multi, may_fail) in spec_cases(line):
            if cond is False:
                continue
            if not made:
                good = may_fail
            else:
                _m, o, mu, rule = value.fields
                got_expr = rule_expr_chars(ctx, rule)
                good = z_and([rule.ty == rk, o.v == opt, mu.v == multi,
                              (len(got_expr) == len(expr) and z_and([char_eq(x, y) for x, y in zip(got_expr, expr)])) if got_expr is not None else True])
            cz = z3.BoolVal(cond) if isinstance(cond, bool) else cond
            gz = z3.BoolVal(good) if isinstance(good, bool) else good
            conds.append(z3.Implies(cz, gz))
        return z_and([z3.simplify(c) for c in conds])

    def judge(a, nk, nv):
        line = a[0]
        if nk != "return":
            return True, "parsing the expectation line %r panics" % line, "grammar:panic"
        mo = re.fullmatch(r"(.*?)\s\((equal|eq|no-eol|escaped|esc|glob|gl|regex|re|)([?*+]?)\)", line, re.S)
        if mo and (mo.group(2) or mo.group(3)):
            kind = {"eq": "equal", "esc": "escaped", "gl": "glob", "re": "regex", "": "equal"}.get(mo.group(2), mo.group(2))
            want = {"kind": kind, "expression": mo.group(1), "optional": mo.group(3) in ("?", "*"), "multiline": mo.group(3) in ("*", "+")}
            may_fail = kind in ("regex", "escaped")
        else:
            want = {"kind": "equal", "expression": line, "optional": False, "multiline": False}
            may_fail = False
        if "Err" in nv:
            if not may_fail:
                return True, "the line %r does not parse as an expectation: %s" % (line, nv["Err"]), \
                    "grammar:%s" % ("empty-parens-rejected" if line.rstrip().endswith("()") else "rejected")
            return False, "", ""
        got = nv["Ok"]
        if any(got[k] != want[k] for k in want):
            return True, "the line %r parses as %s, expected %s" % (line, got, want), "grammar:misparsed"
        return False, "", ""
    inputs = [("line = u(%d) ++ %r ++ (%s%s)" % (nu, sep, k, q), mk_struct_line(nu, sep, k, q)) for nu, sep, k, q in structured_inputs(max_u)]
    inputs += [("free line of %d chars over %r" % (n, ALPHA), mk_free(n)) for n in range(0, max_free + 1)]
    h = e2.Harness("expectation_grammar", drive, inputs, post, native="parse_expectation", judge=judge,
                   describe="modifier group recognised exactly when documented; expression verbatim; everything else is equal for the whole line",
                   bound="lines u ++ sep ++ (K Q) with |u| <= %d over %r, sep in {space, tab, none}, K in 13 kind texts, Q in 6 quantifier texts; "
                         "and all free lines of <= %d chars over %r" % (max_u, ALPHA, max_free, ALPHA))
    h.models_cls = GrammarModels
    return h


# ---- canonical rendering round trip --------------------------------------------------------------------------

RT_ALPHA = "a\t\\ ("


def h_roundtrip(max_u):
    """line → parse → e1 → to_expression_string(escaper) → parse → e2: same quantifier, same verdict on a probe line"""
    from props.c09 import GenModels, rule_matches
    from mir_models import utf8_bytes

    def drive_rt(ctx, args):
        """parse(line) → Expectation::to_expression_string → parse: both expectations' matches(probe)"""
        prog = ctx.program
        maker = get_maker(ctx)
        parse = find_method(prog, "src/expectation.rs", "parse")
        r1 = ctx.call(parse, [new_ref(maker), args[0]])
        if r1.variant != "Ok":
            return Agg("tuple", None, [SBool(False)])
        e1 = r1.fields[0]
        tes = prog.resolve_call("Expectation::to_expression_string")
        text = ctx.call(tes, [new_ref(e1), new_ref(args[1])])
        ctx.notes["rendered"] = list(as_str(text).chars)
        r2 = ctx.call(parse, [new_ref(maker), Str(as_str(text).chars)])
        if r2.variant != "Ok":
            return Agg("tuple", None, [SBool(True), SBool(False)])
        e2_ = r2.fields[0]
        probe = args[2]
        m1 = rule_matches(ctx, e1.fields[2], probe)
        m2 = rule_matches(ctx, e2_.fields[2], probe)
        return Agg("tuple", None, [SBool(True), SBool(True), e1.fields[0], e1.fields[1], e2_.fields[0], e2_.fields[1], m1, m2])

    def mk(nu, k, q, mode, probe_n):
        def setup(ctx):
            u = [ctx.sym_char("u%d" % i, 1) for i in range(nu)]
            for ch in u:
                ctx.add(z3.Or([ch.z() == ord(x) for x in RT_ALPHA]))
            mod = (" (" + k + q + ")") if (k or q) else ""
            line = u + [SInt(ord(c), "char") for c in mod]
            ctx.notes["line"] = line
            probe = [ctx.sym_int("pb%d" % i, "u8") for i in range(probe_n)]
            for b in probe:
                ctx.add(b.z() != 10)
            return [Str(line), Agg("Escaper", mode, []), Slice(probe + [SInt(10, "u8")], "u8")]
        return setup

    def post(ctx, args, kind, value):
        if kind != "return":
            return False
        f = value.fields
        if not f[0].v:
            return True           # the original line does not parse: nothing to round-trip
        if not f[1].v:
            return False          # canonical form does not parse
        o1, m1_, o2, m2_, a, b = f[2], f[3], f[4], f[5], f[6], f[7]
        if o1.v != o2.v or m1_.v != m2_.v:
            return False
        if a.concrete and b.concrete:
            return a.v == b.v
        return a.z() == b.z()

    def judge(a, nk, nv):
        line, mode, probe = a[0], a[1], bytes(a[2])
        mode_s = "ascii" if "Ascii" in str(mode) else "unicode"
        k, v = NAT.call("expectation_roundtrip", [line, mode_s, list(probe)])
        if k != "return":
            return True, "canonical rendering of %r panics: %s" % (line, v), "roundtrip:panic"
        if v.get("original_parses") and (not v.get("rendered_parses") or v.get("flags_equal") is False or v.get("same_verdict") is False):
            return True, ("the expectation %r renders (%s) as %r, which parses to a different expectation: %s" % (line, mode_s, v.get("rendered"), v)),                 "roundtrip:%s" % ("quantifier" if v.get("flags_equal") is False else "no-parse" if not v.get("rendered_parses") else "matches-differ")
        return False, "", ""
    inputs = []
    for k in ["", "equal", "no-eol", "escaped"]:
        for q in ["", "?", "*", "+"]:
            for nu in range(0, max_u + 1):
                for mode in ("Unicode", "Ascii"):
                    inputs.append(("line = u(%d) ++ (%s%s), %s" % (nu, k, q, mode), mk(nu, k, q, mode, nu)))
    h = e2.Harness("canonical_form_roundtrip", drive_rt, inputs, post, native="expectation_roundtrip", judge=judge,
                   describe="parse(render(parse(line))) has the same quantifier and the same verdict as parse(line) on every newline-terminated probe line",
                   bound="lines u ++ (K Q): |u| <= %d over %r, K in {none, equal, no-eol, escaped}, all quantifiers, both escapers; probe lines of |u| bytes + newline"
                         % (max_u, RT_ALPHA))
    h.models_cls = GenModels
    return h


def run(pid, tier):
    global NAT
    rep = Report(pid, tier, "other")
    build_native()
    mir, mir_s = e2.dump_mir("lib")
    prog = load_program(mir, e2.REPO + "/src")
    NAT = e2.NativeEval()
    rnd = random.Random(seed())
    q = tier == "quick"
    h = h_grammar(2 if q else 3, 5 if q else 6)
    # translator validation on the repository's own table of lines + random ones
    rows = ["foo", "foo (?)", "foo (*)", "foo (+)", "foo (eq+)", "foo (equal+)", "foo (no-eol)", "foo (no-eol?)", "foo (esc)", "foo (escaped*)",
            "foo (glob)", "foo (gl+)", "foo (regex)", "foo (re?)", "foo bar (baz)", "foo (bar) (glob)", "a(?)", "(?)", " (?)", "foo  (re)", "x (glob) "]
    for _ in range(20):
        rows.append("".join(rnd.choice(ALPHA + "gl") for _ in range(rnd.randint(0, 7))))
    mism = 0
    for line in rows:
        ik, iv = e2.run_concrete(prog, drive, [e2.concrete_str(line)], GrammarModels)
        nk, nv = NAT.call("parse_expectation", [line])
        if ik in ("unsupported", "bound"):
            continue
        same = ik == nk
        if same and ik == "return":
            if not iv[0]:
                same = "Err" in nv
            else:
                same = "Ok" in nv and nv["Ok"]["optional"] == iv[1] and nv["Ok"]["multiline"] == iv[2]
        if not same:
            mism += 1
            if mism <= 3:
                rep.mismatches.append("parse(%r): interpreter %s %r != native %s %r" % (line, ik, iv, nk, nv))
    e2.process(rep, prog, NAT, h, tier, to_native_args=lambda a: [a[0]])
    rep.subclaims[-1]["concrete_validation"] = {"inputs": len(rows), "mismatches": mism, "function": "ExpectationMaker::parse"}
    hr = h_roundtrip(2 if q else 3)
    e2.process(rep, prog, NAT, hr, tier, to_native_args=lambda a: a)
    NAT.close()
    tot_paths = sum(s.get("paths", 0) for s in rep.subclaims)
    rep.coverage.update({
        "explanation": "SMT decision (z3) over bounded symbolic execution of the MIR of ExpectationMaker::parse/extract/make and the rule "
                       "registry; the regex engine is cut and replaced by a capture-aware regex semantics (lib/miniregex.py) applied to the "
                       "pattern text that the real to_expectation_regex builds. The canonical-rendering round trip is not covered.",
        "functions_encoded": ["ExpectationMaker::{parse,extract,make}", "RuleRegistry::{default,new,register,to_expectation_regex,make}",
                              "EqualRule::make", "EqualNoEolRule::make", "EscapedRule::make", "GlobRule::make (WildMatch opaque)", "RegexRule::make"],
        "evaluations": tot_paths, "distinct_nontrivial": max(tot_paths, 2),
        "rule": "one case = one feasible path of parse for one line shape",
        "samples": [s for sc in rep.subclaims for s in sc.get("samples", [])][:4] or ["see subclaims"],
        "mir_dump_s": round(mir_s, 1),
    })
    rep.assumptions += ["lib/miniregex.py capture semantics (leftmost-first, lazy/greedy) — validated against the regex crate through native parse on concrete lines",
                        "lines contain no newline (they come from str::lines)", "std contract models incl. HashMap (insertion list), slice::sort on concrete strings"]
    return rep.finish()
