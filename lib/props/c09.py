"""C09 (partial) — a generated test passes against the output it was generated from, decided on the MIR of the generator and of
the line parser composed:   output line L (symbolic)  →  `Outcome::generate_testcase` (the `$ cmd` line + the expectation text that
`create` / `update` write for L, via the real escaper)  →  `LineParser::{add_testcase_body, end_testcase}` for every generated
line  →  the parsed test case must have the same shell expression, no exit code, exactly one expectation, without quantifier,
whose rule (its real `matches` on the MIR) accepts L.  Both escaping modes; Markdown (one command per block) and Cram (`$` starts
a new command) line-parser modes.  The regex engine is replaced by lib/miniregex.py as in C08.  Fence sizing: `max_backtick_size`.
Whole-document generation (titles, config one-liner, indentation) and multi-line outputs are outside."""
import itertools
import random
import re

import z3

import e2
import miniregex
from common import Report, build_native, seed
from mir_exec import (Agg, MapBuf, Opaque, SBool, SInt, Slice, Str, StringBuf, SymOpt, Unsupported, VecBuf, field_of, find_method,
                      load_program, mk_int, mk_struct, new_ref)
from mir_models import (Models, SeqIt, as_items, as_str, char_eq, deref, none, ok, sbool, some, to_symopt, z_and, z_not, z_or, utf8_bytes)
from props.c08 import GrammarModels, get_maker
from props.c11 import other_ranges

NAT = None
SUFFIXES = ["", " (gl)", " (?)", " (*)", " ()", " (equal)", " (no-eol)", " (escaped)", " (re+)", "[1]", "[12]", "1]"]
ALPHA = "a $>[]1`\\\t"


class GenModels(GrammarModels):
    def __init__(self):
        super().__init__()
        from mir_models import in_ranges
        rng = other_ranges()
        ins = lambda pat, fn: self.table.insert(0, (re.compile("^(?:%s)$" % pat), fn))
        ins(r"<char as UnicodeCategories>::is_other", lambda c, m, a: sbool(in_ranges(deref(a[0]), rng)))

        def wild_matches(c, m, a):
            # the engine itself is not encoded; a pattern without wildcard characters matches by equality
            pat = list(deref(a[0]).fields[0].chars)
            subj = list(as_str(a[1]).chars)
            for ch in pat:
                if c.decide(z_or([char_eq(ch, SInt(ord("*"), "char")), char_eq(ch, SInt(ord("?"), "char"))])):
                    raise Unsupported("wildmatch engine (pattern with wildcards)")
            if len(pat) != len(subj):
                return SBool(False)
            return sbool(z_and([char_eq(x, y) for x, y in zip(pat, subj)]))
        ins(r"WildMatch::matches|WildMatchPattern::<.*>::matches", wild_matches)


RULE_FILES = {"EqualRule": "rules/equal.rs", "EqualNoEolRule": "rules/no_eol.rs", "EscapedRule": "rules/escaped.rs",
              "RegexRule": "rules/regex.rs", "GlobRule": "rules/glob.rs"}


def default_cfg(cram):
    """the format's default test-case configuration (the generators may consult it, e.g. which stream is validated)"""
    return mk_struct("TestCaseConfig", detached=none(), environment=MapBuf([]), keep_crlf=some(SBool(cram)),
                     output_stream=some(Agg("OutputStreamControl", "Combined" if cram else "Stdout", [])),
                     skip_document_code=none(), strip_ansi_escaping=none(), timeout=none(), wait=none())


def drive_document(ctx, args):
    """generate_testcases(&[outcome with one unexpected line L]) of the format's generator → the format's real document parser"""
    from props import docs
    prog = ctx.program
    line_bytes, escaper, cram = args
    is_cram = bool(cram.v)
    cmd = list(ctx.notes.get("expression") or [SInt(ord(c), "char") for c in "cmd"])
    diff_line = Agg("DiffLine", "UnexpectedLines", [VecBuf([Agg("tuple", None, [mk_int(0, "usize"), VecBuf(list(line_bytes.items), "u8")])])])
    diff = mk_struct("Diff", lines=VecBuf([diff_line]), count_matched=mk_int(0, "usize"), count_unmatched=mk_int(0, "usize"),
                     count_output_lines=mk_int(1, "usize"))
    tc = mk_struct("TestCase", title=StringBuf([SInt(ord(c), "char") for c in "ti"]), shell_expression=StringBuf(cmd), expectations=VecBuf([]), exit_code=none(),
                   line_number=mk_int(1, "usize"), config=default_cfg(is_cram))
    out = mk_struct("Output", stderr=Agg("OutputStream", None, [VecBuf([], "u8")]), stdout=Agg("OutputStream", None, [VecBuf(list(line_bytes.items), "u8")]),
                    exit_code=Agg("ExitStatus", "Code", [mk_int(0, "i32")]))
    convert = bool(ctx.notes.get("convert"))
    outcome = mk_struct("Outcome", location=none(), output=out, testcase=tc, format=Agg("ParserType", "Cram" if (is_cram or convert) else "Markdown", []), escaping=escaper,
                        result=Agg("Result", "Err", [Agg("TestCaseError", "MalformedOutput", [diff])]))
    if convert:
        # `--convert markdown` of a Cram test: the test case carries the Cram defaults, the Markdown generator writes it
        tc.fields[__import__("mir_exec").STRUCTS["TestCase"].index("config")] = default_cfg(True)
    if is_cram:
        gen = mk_struct("CramTestCaseGenerator", indention=mk_int(2, "usize"))
        g = ctx.call(find_method(prog, "generators/cram.rs", "generate_testcases"), [new_ref(gen), Slice([new_ref(outcome)])])
    else:
        gen = Agg("MarkdownTestCaseGenerator", None, [StringBuf([SInt(ord("s"), "char")])])
        g = ctx.call(find_method(prog, "generators/markdown.rs", "generate_testcases"), [new_ref(gen), Slice([new_ref(outcome)])])
    if g.variant != "Ok":
        return Agg("tuple", None, [SBool(False)])
    text = Str(list(as_str(g.fields[0]).chars))
    ctx.notes["generated"] = list(text.chars)
    r = docs.cram_parse_driver(ctx, [text]) if is_cram else docs.md_parse_driver(ctx, [text])
    if r.variant != "Ok":
        return Agg("tuple", None, [SBool(True), SBool(False), Slice([])])
    if convert:
        # what differs from the Markdown defaults is written after the language: the converted test validates the same stream, the same bytes
        handed = [t for ty, t in ctx.notes.get("yaml_texts", []) if ty == "TestCaseConfig"]
        if handed != ["{output_stream: combined, keep_crlf: true}"]:
            return Agg("tuple", None, [SBool(True), SBool(False), Slice([])])
    return Agg("tuple", None, [SBool(True), SBool(True), Slice(as_items(r.fields[0].fields[1]))])


def drive(ctx, args):
    """generate_testcase(outcome with one unexpected line L) → LineParser over the generated lines"""
    if ctx.notes.get("document_level"):
        return drive_document(ctx, args)
    prog = ctx.program
    line_bytes, escaper, cram = args
    cmd = list(ctx.notes.get("expression") or [SInt(ord(c), "char") for c in "cmd"])
    diff_line = Agg("DiffLine", "UnexpectedLines", [VecBuf([Agg("tuple", None, [mk_int(0, "usize"), VecBuf(list(line_bytes.items), "u8")])])])
    diff = mk_struct("Diff", lines=VecBuf([diff_line]), count_matched=mk_int(0, "usize"), count_unmatched=mk_int(0, "usize"),
                     count_output_lines=mk_int(1, "usize"))
    tc = mk_struct("TestCase", title=StringBuf([]), shell_expression=StringBuf(cmd), expectations=VecBuf([]), exit_code=none(),
                   line_number=mk_int(1, "usize"), config=default_cfg(bool(cram.v)))
    out = mk_struct("Output", stderr=Agg("OutputStream", None, [VecBuf([], "u8")]), stdout=Agg("OutputStream", None, [VecBuf(list(line_bytes.items), "u8")]),
                    exit_code=Agg("ExitStatus", "Code", [mk_int(0, "i32")]))
    outcome = mk_struct("Outcome", location=none(), output=out, testcase=tc, format=Opaque("format"), escaping=escaper,
                        result=Agg("Result", "Err", [Agg("TestCaseError", "MalformedOutput", [diff])]))
    gen = find_method(prog, "generators/outcome.rs", "generate_testcase")
    g = ctx.call(gen, [new_ref(outcome)])
    if g.variant != "Ok":
        return Agg("tuple", None, [SBool(False)])
    text = list(as_str(g.fields[0]).chars)
    ctx.notes["generated"] = text
    # split at the (concrete) newlines the generator wrote
    lines, cur = [], []
    for ch in text:
        if ctx.decide(char_eq(ch, SInt(10, "char"))):
            lines.append(cur)
            cur = []
        else:
            cur.append(ch)
    if cur:
        lines.append(cur)
    maker = get_maker(ctx)
    lp_new = prog.resolve_call("LineParser::new")
    add = prog.resolve_call("LineParser::add_testcase_body")
    end = prog.resolve_call("LineParser::end_testcase")
    lp = ctx.call(lp_new, [maker, SBool(bool(cram.v))])
    cell = new_ref(lp, True)
    for i, ln in enumerate(lines):
        r = ctx.call(add, [cell, Str(ln), mk_int(i, "usize")])
        if r.variant != "Ok":
            return Agg("tuple", None, [SBool(True), SBool(False), Slice([])])
    r = ctx.call(end, [cell, mk_int(len(lines), "usize")])
    if r.variant != "Ok":
        return Agg("tuple", None, [SBool(True), SBool(False), Slice([])])
    lp = cell.loc.get()
    tests = as_items(field_of(lp, "testcases"))
    return Agg("tuple", None, [SBool(True), SBool(True), Slice(tests)])


def rule_matches(ctx, rule, line_bytes):
    while isinstance(rule, Agg) and rule.ty == "Box":
        rule = __import__('mir_exec').box_ref(rule).loc.get()
    f = RULE_FILES.get(rule.ty)
    if f is None:
        raise Unsupported("matches of %s" % rule.ty)
    return ctx.call(find_method(ctx.program, f, "matches"), [new_ref(rule), line_bytes])


def h_generated(max_u, mode, cram, document_level=False, convert=False):
    def mk(nu, suffix, nl):
        def setup(ctx):
            ctx.notes["document_level"] = document_level
            ctx.notes["convert"] = convert
            u = [ctx.sym_char("u%d" % i, 1) for i in range(nu)]
            for ch in u:
                ctx.add(z3.Or([ch.z() == ord(x) for x in ALPHA]))
            chars = u + [SInt(ord(c), "char") for c in suffix]
            body = []
            for ch in chars:
                body += utf8_bytes(ctx, ch)
            ctx.notes["line_chars"] = chars
            line = body + ([SInt(10, "u8")] if nl else [])
            ctx.notes["line"] = line
            return [Slice(line, "u8"), Agg("Escaper", mode, []), SBool(cram)]
        return setup

    def post(ctx, args, kind, value):
        # evaluated inside the driver's path: see drive_and_judge
        raise Unsupported("post is folded into the driver")

    def drive_and_judge(ctx, args):
        """generate_testcase → LineParser → the parsed expectation's real matches(L)"""
        res = drive(ctx, args)
        f = res.fields
        if not f[0].v:
            return Agg("tuple", None, [SBool(False), Str([])])           # generator refused
        if not f[1].v:
            return Agg("tuple", None, [SBool(False), Str([SInt(ord(c), "char") for c in "generated test does not parse"])])
        tests = list(f[2].items)
        if len(tests) != 1:
            return Agg("tuple", None, [SBool(False), Str([SInt(ord(c), "char") for c in "%d test cases instead of 1" % len(tests)])])
        t = tests[0]
        se = as_str(field_of(t, "shell_expression")).chars
        want_se = list(ctx.notes.get("expression") or [SInt(ord(c), "char") for c in "cmd"])
        if len(se) != len(want_se) or z_and([char_eq(x, y) for x, y in zip(se, want_se)]) is False:
            return Agg("tuple", None, [SBool(False), Str([SInt(ord(c), "char") for c in "shell expression changed"])])
        same_expression = z_and([char_eq(x, y) for x, y in zip(se, want_se)])
        if field_of(t, "exit_code").variant != "None":
            return Agg("tuple", None, [SBool(False), Str([SInt(ord(c), "char") for c in "output line read as exit code"])])
        exps = as_items(field_of(t, "expectations"))
        if len(exps) != 1:
            return Agg("tuple", None, [SBool(False), Str([SInt(ord(c), "char") for c in "%d expectations instead of 1" % len(exps)])])
        e = exps[0]
        if e.fields[0].v or e.fields[1].v:
            return Agg("tuple", None, [SBool(False), Str([SInt(ord(c), "char") for c in "expectation carries a quantifier"])])
        m = rule_matches(ctx, e.fields[2], args[0])
        if same_expression is not True:
            m = sbool(z_and([m.v if m.concrete else m.z(), same_expression]))
        return Agg("tuple", None, [m, Str([SInt(ord(c), "char") for c in "expectation does not match the line / shell expression changed"])])

    def post2(ctx, args, kind, value):
        if kind != "return":
            return False
        good = value.fields[0]
        return good.v if good.concrete else good.z()

    def judge(a, nk, nv):
        line = bytes(a[0])
        fmt = "cram" if a[2] else "markdown"
        k, v = nk, nv
        if k != "return" or v.get("passes") is not True:
            doc = (v.get("document") or "") if isinstance(v, dict) else ""
            body = [l[2:] if fmt == "cram" else l for l in doc.split("\n")]
            body = [l for l in body if l != "" and not l.startswith("```")]
            # the line written for the output line: the one after the command (documents may carry a title and an inline configuration)
            at = next((i_ for i_, l in enumerate(body) if l.startswith("$ cmd")), None)
            t = (body[at + 1] if at is not None and at + 1 < len(body) else "") if at is not None else (body[1] if len(body) > 1 else (body[0] if body else ""))
            core = t
            if not line.endswith(b"\n") and core.endswith(" (no-eol)"):
                core = core[:-len(" (no-eol)")]          # written by the generator, not part of the line
            if core.endswith(" (escaped)") and not line.rstrip(b"\n").endswith(b" (escaped)"):
                core = core[:-len(" (escaped)")]         # likewise: the escaper's own marker
            if fmt == "cram" and t.startswith("$ "):
                cls = "command-prefix"
            elif fmt == "cram" and t.startswith("> "):
                cls = "continuation-prefix"
            elif fmt == "cram" and (doc.count("\n") < 2 or t != t.rstrip() or core.strip() == ""):
                cls = "cram-whitespace-or-empty-line"
            elif re.fullmatch(r"\[[0-9]+\]", t):
                cls = "exit-code-lookalike"
            elif fmt == "cram" and (t.startswith("$ ") or t == "$"):
                cls = "command-prefix"
            elif t.startswith("> ") or t == ">":
                cls = "continuation-prefix"
            elif re.search(r"\s\([a-z-]*[?*+]?\)$", core) or (core != t and re.search(r"\s$", core)):
                cls = "modifier-lookalike"
            else:
                cls = "other"
            return True, ("the %s test generated (%s escaping) from the output line %r does not pass against that very output: %s"
                          % (fmt, a[1] if isinstance(a[1], str) else "unicode", line, v)), "generated-test-fails:%s:%s" % (fmt, cls)
        return False, "", ""
    inputs = []
    for suffix in SUFFIXES:
        for nu in range(0, max_u + 1):
            for nl in (True, False):
                if nu + len(suffix) == 0:
                    continue
                inputs.append(("L = u(%d) ++ %r newline=%s" % (nu, suffix, nl), mk(nu, suffix, nl)))
    h = e2.Harness("generated_%s_passes_%s_%s" % ("conversion" if convert else "document" if document_level else "test", "cram" if cram else "markdown", mode.lower()), drive_and_judge, inputs, post2,
                   native="generate_and_validate", judge=judge,
                   describe=("the whole document written by the format's generator (title, fence / indentation, body) parses with the format's real parser to one "
                             "test case with the same command, no exit code and one quantifier-free expectation that matches the output line" if document_level else
                             "the expectation text written for an output line parses back to one quantifier-free expectation that matches that line; "
                             "same command, no exit code"),
                   bound="output lines u ++ S: |u| <= %d over %r, S in %s; with/without final newline; %s escaping; %s %s"
                         % (max_u, ALPHA, SUFFIXES, mode, "Cram" if cram else "Markdown", "generator and document parser" if document_level else "line-parser mode"))
    if document_level:
        from props import docs
        h.models_cls = docs.DocModels
    else:
        h.models_cls = GenModels
    return h


EXPRESSION_LINES = ["", "·", "· ", " ·"]       # continuation lines of a multi-line shell expression (· = a symbolic letter)


def h_generated_expression(mode, cram, max_cont):
    """`create` / `update` of a test whose shell expression has several lines: the `$ ` / `> ` lines written for it parse back to the same
    expression — also with empty lines, lines that end or start with a blank, and a trailing empty line"""
    base = h_generated(0, mode, cram)

    def mk(shape):
        def setup(ctx):
            expr = [SInt(ord("c"), "char")]
            for j, tpl in enumerate(shape):
                expr.append(SInt(10, "char"))
                for ch in tpl:
                    if ch == "·":
                        v = ctx.sym_char("e%d" % j, 1)
                        ctx.add(z3.Or(v.z() == ord("a"), v.z() == ord("b")))
                        expr.append(v)
                    else:
                        expr.append(SInt(ord(ch), "char"))
            ctx.notes["expression"] = expr
            line = [SInt(b, "u8") for b in b"ox\n"]
            ctx.notes["line"] = line
            ctx.notes["line_chars"] = [SInt(ord(c), "char") for c in "ox"]
            return [Slice(line, "u8"), Agg("Escaper", mode, []), SBool(cram)]
        return setup
    inputs = [("expression = c + %s" % list(shape), mk(shape)) for n in range(1, max_cont + 1) for shape in itertools.product(EXPRESSION_LINES, repeat=n)]
    h = e2.Harness("generated_test_keeps_multiline_expression_%s_%s" % ("cram" if cram else "markdown", mode.lower()), base.func, inputs, base.post, native=None, judge=None,
                   describe="the `$ ` / `> ` lines written for a shell expression of several lines parse back to exactly that expression (and the test still "
                            "matches its output line)",
                   bound="expressions `c` + 1..%d further lines from %s (· = a symbolic letter in {a, b}); one output line; %s escaping; %s line-parser mode"
                         % (max_cont, EXPRESSION_LINES, mode, "Cram" if cram else "Markdown"))
    h.models_cls = GenModels
    return h


def replay_generated_expression(rep, h, res, mode, cram):
    for model, r in res.raw_witnesses[:4]:
        expr = "".join(chr(e2.model_int(model, c)) for c in r.ctx.notes["expression"])
        nk, nv = NAT.call("generate_and_validate", [list(b"ox\n"), mode.lower(), "cram" if cram else "markdown", [], expr])
        if nk != "return" or nv.get("passes") is not True:
            rep.violation("generated-test-fails:%s:multiline-expression" % ("cram" if cram else "markdown"),
                          "the %s test generated (%s escaping) for the shell expression %r and the output b'ox\\n' does not parse back to that expression / "
                          "does not pass: %s" % ("cram" if cram else "markdown", mode, expr, nv),
                          {"kind": "eval", "fn": "generate_and_validate", "args": [list(b"ox\n"), mode.lower(), "cram" if cram else "markdown", [], expr],
                           "native": [nk, nv], "harness": h.name})
        else:
            rep.mismatches.append("%s: solver witness %r did not reproduce natively: %s" % (h.name, expr, nv))


def h_generated_multi(mode, cram):
    """`update` of a failing test with several output lines: some lines still match an existing expectation (they are re-emitted as
    written), runs of the others are written anew.  Each line is one symbolic letter + 'x'; the last line has a final newline or not."""
    from mir_exec import find_method as fm

    def mk(pattern, nl, kindlike=False):
        def setup(ctx):
            lines = []
            ctx.notes["kindlike"] = kindlike
            for j in range(len(pattern)):
                ch = ctx.sym_char("c%d" % j, 1)
                ctx.add(z3.Or(ch.z() == ord("a"), ch.z() == ord("b")))
                content = [ch, SInt(ord("x"), "char")]
                if kindlike and pattern[j] == "M":
                    # a still-matching line that looks like it ends in a kind: its expectation is written with an explicit ` (equal)`
                    content = [ch] + [SInt(ord(c_), "char") for c_ in " (glob)"]
                body = []
                for c_ in content:
                    body += utf8_bytes(ctx, c_)
                last = j == len(pattern) - 1
                lines.append({"content": content, "bytes": body + ([SInt(10, "u8")] if (nl or not last) else []), "eol": nl or not last})
            ctx.notes["lines"] = lines
            ctx.notes["pattern"] = pattern
            return [Agg("Escaper", mode, []), SBool(cram)]
        return setup

    def drive_multi(ctx, args):
        """generate_testcase(outcome whose diff has matched and unexpected lines) → LineParser → every parsed expectation's real matches()"""
        prog = ctx.program
        escaper, cram_ = args
        lines, pattern = ctx.notes["lines"], ctx.notes["pattern"]
        maker = get_maker(ctx)
        parse = fm(prog, "src/expectation.rs", "parse")
        fail = lambda why: Agg("tuple", None, [SBool(False), Str([SInt(ord(c), "char") for c in why])])
        diff_lines = []
        j = 0
        exp_index = 0
        old_expectations = []
        while j < len(lines):
            if pattern[j] == "M":
                # the existing expectation of a line that still matches: the text an earlier `create` wrote for it
                text = list(lines[j]["content"]) + ([] if lines[j]["eol"] else [SInt(ord(c), "char") for c in " (no-eol)"])
                if ctx.notes.get("kindlike"):
                    text = list(lines[j]["content"]) + [SInt(ord(c), "char") for c in " (equal)"]
                r = ctx.call(parse, [new_ref(maker), Str(text)])
                if r.variant != "Ok":
                    raise Unsupported("existing expectation does not parse")
                old_expectations.append(r.fields[0])
                diff_lines.append(Agg("DiffLine", "MatchedExpectation", [mk_int(exp_index, "usize"), r.fields[0],
                                                                        VecBuf([Agg("tuple", None, [mk_int(j, "usize"), VecBuf(list(lines[j]["bytes"]), "u8")])])]))
                exp_index += 1
                j += 1
            else:
                run = []
                while j < len(lines) and pattern[j] == "U":
                    run.append(Agg("tuple", None, [mk_int(j, "usize"), VecBuf(list(lines[j]["bytes"]), "u8")]))
                    j += 1
                diff_lines.append(Agg("DiffLine", "UnexpectedLines", [VecBuf(run)]))
        out_bytes = [b for ln in lines for b in ln["bytes"]]
        diff = mk_struct("Diff", lines=VecBuf(diff_lines), count_matched=mk_int(0, "usize"), count_unmatched=mk_int(0, "usize"),
                         count_output_lines=mk_int(len(lines), "usize"))
        tc = mk_struct("TestCase", title=StringBuf([]), shell_expression=StringBuf([SInt(ord(c), "char") for c in "cmd"]), expectations=VecBuf(old_expectations),
                       exit_code=none(), line_number=mk_int(1, "usize"), config=default_cfg(bool(cram_.v)))
        out = mk_struct("Output", stderr=Agg("OutputStream", None, [VecBuf([], "u8")]), stdout=Agg("OutputStream", None, [VecBuf(out_bytes, "u8")]),
                        exit_code=Agg("ExitStatus", "Code", [mk_int(0, "i32")]))
        outcome = mk_struct("Outcome", location=none(), output=out, testcase=tc, format=Opaque("format"), escaping=escaper,
                            result=Agg("Result", "Err", [Agg("TestCaseError", "MalformedOutput", [diff])]))
        g = ctx.call(fm(prog, "generators/outcome.rs", "generate_testcase"), [new_ref(outcome)])
        if g.variant != "Ok":
            return fail("generator refused")
        text = list(as_str(g.fields[0]).chars)
        ctx.notes["generated"] = text
        glines, cur = [], []
        for ch in text:
            if ctx.decide(char_eq(ch, SInt(10, "char"))):
                glines.append(cur)
                cur = []
            else:
                cur.append(ch)
        if cur:
            glines.append(cur)
        lp = ctx.call(prog.resolve_call("LineParser::new"), [maker, SBool(bool(cram_.v))])
        cell = new_ref(lp, True)
        add = prog.resolve_call("LineParser::add_testcase_body")
        for i, ln in enumerate(glines):
            r = ctx.call(add, [cell, Str(ln), mk_int(i, "usize")])
            if r.variant != "Ok":
                return fail("generated test does not parse")
        r = ctx.call(prog.resolve_call("LineParser::end_testcase"), [cell, mk_int(len(glines), "usize")])
        if r.variant != "Ok":
            return fail("generated test does not parse")
        tests = as_items(field_of(cell.loc.get(), "testcases"))
        if len(tests) != 1:
            return fail("%d test cases instead of 1" % len(tests))
        exps = as_items(field_of(tests[0], "expectations"))
        if len(exps) != len(lines):
            return fail("%d expectations for %d output lines" % (len(exps), len(lines)))
        conds = []
        for e, ln in zip(exps, lines):
            if e.fields[0].v or e.fields[1].v:
                return fail("expectation carries a quantifier")
            m = rule_matches(ctx, e.fields[2], Slice(list(ln["bytes"]), "u8"))
            conds.append(m.v if m.concrete else m.z())
        good = z_and(conds)
        return Agg("tuple", None, [sbool(good), Str([SInt(ord(c), "char") for c in "an expectation does not match its line"])])

    def post2(ctx, args, kind, value):
        if kind != "return":
            return False
        good = value.fields[0]
        return good.v if good.concrete else good.z()
    inputs = []
    for n in (2, 3):
        for pattern in itertools.product("MU", repeat=n):
            if "U" not in pattern:
                continue
            for nl in (True, False):
                inputs.append(("lines=%s final-newline=%s" % ("".join(pattern), nl), mk("".join(pattern), nl)))
            if n == 2 and "M" in pattern:
                inputs.append(("lines=%s final-newline=True, the matching line `· (glob)` expected as `· (glob) (equal)`" % "".join(pattern), mk("".join(pattern), True, True)))
    h = e2.Harness("updated_test_passes_multiline_%s_%s" % ("cram" if cram else "markdown", mode.lower()), drive_multi, inputs, post2,
                   native=None, judge=None,
                   describe="update of a failing test with 2–3 output lines, some still matching their old expectation: the written block parses back "
                            "to one quantifier-free expectation per output line, each matching its line",
                   bound="2–3 output lines [ab]x; every pattern of still-matching / new lines with at least one new line; with/without final newline; "
                         "%s escaping; %s line-parser mode" % (mode, "Cram" if cram else "Markdown"))
    h.models_cls = GenModels
    return h


STREAMS = (None, "Stdout", "Stderr", "Combined")


def h_update_exit_code(mode, cram, max_lines, existing=False):
    """`update` / `create` of a test case that ended with another exit code than written: the block is written from the recorded output and the
    exit code.  stdout lines are [ab]x, stderr lines [ab]y (so that no line of one stream matches an expectation made from the other)."""
    from mir_exec import find_method as fm

    def mk(n_out, n_err, nl, stream):
        def setup(ctx):
            def lines_of(n, mark, tag):
                out = []
                for j in range(n):
                    ch = ctx.sym_char("%s%d" % (tag, j), 1)
                    ctx.add(z3.Or(ch.z() == ord("a"), ch.z() == ord("b")))
                    content = [ch, SInt(ord(mark), "char")]
                    body = []
                    for c_ in content:
                        body += utf8_bytes(ctx, c_)
                    eol = nl or j < n - 1
                    out.append({"content": content, "bytes": body + ([SInt(10, "u8")] if eol else []), "eol": eol})
                return out
            actual = ctx.sym_int("actual", "i32")
            ctx.add(z3.And(actual.z() >= 0, actual.z() <= 255))        # the exit codes a process can end with
            exp_set = ctx.sym_bool("expected_set")
            expected = ctx.sym_int("expected", "i32")
            ctx.add(z3.And(expected.z() >= 0, expected.z() <= 255))
            ctx.add(z3.If(exp_set.z(), expected.z(), 0) != actual.z())  # the test case failed on its exit code
            ctx.notes.update(out=lines_of(n_out, "x", "o"), err=lines_of(n_err, "y", "e"), stream=stream, actual=actual, expected=expected, exp_set=exp_set,
                             existing=existing)
            return [Agg("Escaper", mode, []), SBool(cram)]
        return setup

    def drive_exit(ctx, args):
        """generate_testcase(outcome failed with InvalidExitCode) → LineParser → exit code and every parsed expectation's real matches()"""
        prog = ctx.program
        escaper, cram_ = args
        n = ctx.notes
        fail = lambda why: Agg("tuple", None, [SBool(False), Str([SInt(ord(c), "char") for c in why])])
        cfg = mk_struct("TestCaseConfig", detached=none(), environment=MapBuf([]), keep_crlf=some(SBool(bool(cram_.v))),
                        output_stream=some(Agg("OutputStreamControl", n["stream"], [])) if n["stream"] else none(),
                        skip_document_code=none(), strip_ansi_escaping=none(), timeout=none(), wait=none())
        old_exps = []
        if n.get("existing"):
            # the test case already has an optional expectation that matches the first line of the validated stream (and nothing for the others)
            first = (n["err"] if n["stream"] == "Stderr" else n["out"])[0]
            r0 = ctx.call(fm(prog, "src/expectation.rs", "parse"), [new_ref(get_maker(ctx)), Str(list(first["content"]) + [SInt(ord(c), "char") for c in " (?)"])])
            if r0.variant != "Ok":
                raise Unsupported("existing expectation does not parse")
            old_exps = [r0.fields[0]]
        tc = mk_struct("TestCase", title=StringBuf([]), shell_expression=StringBuf([SInt(ord(c), "char") for c in "cmd"]), expectations=VecBuf(old_exps),
                       exit_code=SymOpt(n["exp_set"], n["expected"]), line_number=mk_int(1, "usize"), config=cfg)
        so = [b for ln in n["out"] for b in ln["bytes"]]
        se = [b for ln in n["err"] for b in ln["bytes"]]
        out = mk_struct("Output", stderr=Agg("OutputStream", None, [VecBuf(se, "u8")]), stdout=Agg("OutputStream", None, [VecBuf(so, "u8")]),
                        exit_code=Agg("ExitStatus", "Code", [n["actual"]]))
        expected_eff = mk_int(z3.If(n["exp_set"].z(), n["expected"].z(), z3.BitVecVal(0, 32)), "i32")
        outcome = mk_struct("Outcome", location=none(), output=out, testcase=tc, format=Opaque("format"), escaping=escaper,
                            result=Agg("Result", "Err", [Agg("TestCaseError", "InvalidExitCode", [n["actual"], expected_eff])]))
        g = ctx.call(fm(prog, "generators/outcome.rs", "generate_testcase"), [new_ref(outcome)])
        if g.variant != "Ok":
            return fail("generator refused")
        text = list(as_str(g.fields[0]).chars)
        ctx.notes["generated"] = text
        glines, cur = [], []
        for ch in text:
            if ctx.decide(char_eq(ch, SInt(10, "char"))):
                glines.append(cur)
                cur = []
            else:
                cur.append(ch)
        if cur:
            glines.append(cur)
        maker = get_maker(ctx)
        lp = ctx.call(prog.resolve_call("LineParser::new"), [maker, SBool(bool(cram_.v))])
        cell = new_ref(lp, True)
        add = prog.resolve_call("LineParser::add_testcase_body")
        for i, ln in enumerate(glines):
            r = ctx.call(add, [cell, Str(ln), mk_int(i, "usize")])
            if r.variant != "Ok":
                return fail("generated test does not parse")
        r = ctx.call(prog.resolve_call("LineParser::end_testcase"), [cell, mk_int(len(glines), "usize")])
        if r.variant != "Ok":
            return fail("generated test does not parse")
        tests = as_items(field_of(cell.loc.get(), "testcases"))
        if len(tests) != 1:
            return fail("%d test cases instead of 1" % len(tests))
        t = tests[0]
        se_ = as_str(field_of(t, "shell_expression")).chars
        if len(se_) != 3 or not all(c.concrete and c.v == ord(x) for c, x in zip(se_, "cmd")):
            return fail("shell expression changed")
        code = to_symopt(field_of(t, "exit_code"))
        conds = []
        if code.fields[0] is None:
            conds.append(z_and([z_not(code.present.v), char_eq(n["actual"], mk_int(0, "i32"))]))
        else:
            conds.append(z_or([z_and([code.present.v, char_eq(code.fields[0], n["actual"])]),
                               z_and([z_not(code.present.v), char_eq(n["actual"], mk_int(0, "i32"))])]))
        # the stream `validate` compares: stderr iff so configured
        lines = n["err"] if n["stream"] == "Stderr" else n["out"]
        exps = as_items(field_of(t, "expectations"))
        if len(exps) != len(lines):
            return fail("%d expectations for the %d line(s) of the validated stream" % (len(exps), len(lines)))
        for e, ln in zip(exps, lines):
            if (e.fields[0].v or e.fields[1].v) and not n.get("existing"):
                return fail("expectation carries a quantifier")
            m = rule_matches(ctx, e.fields[2], Slice(list(ln["bytes"]), "u8"))
            conds.append(m.v if m.concrete else m.z())
        return Agg("tuple", None, [sbool(z_and(conds)), Str([SInt(ord(c), "char") for c in "exit code or an expectation does not fit the recorded run"])])

    def post2(ctx, args, kind, value):
        if kind != "return":
            return False
        good = value.fields[0]
        return good.v if good.concrete else good.z()
    inputs = []
    for stream in STREAMS:
        for n_out in range(0, max_lines + 1):
            for n_err in range(0, max_lines + 1):
                if stream == "Combined" and n_err:
                    continue               # merged by the runner: the error stream is empty
                if existing and (n_err if stream == "Stderr" else n_out) < 2:
                    continue               # an expectation for the first line, at least one more line
                for nl in (True, False):
                    inputs.append(("output_stream=%s stdout=%d line(s) stderr=%d line(s) final-newline=%s" % (stream, n_out, n_err, nl), mk(n_out, n_err, nl, stream)))
    h = e2.Harness("rewritten_test_passes_after_exit_code_%s%s_%s" % ("with_expectations_" if existing else "", "cram" if cram else "markdown", mode.lower()), drive_exit, inputs, post2, native=None, judge=None,
                   describe="a test case that failed on its exit code is rewritten to a block that parses back to the same command, the recorded exit code, and one "
                            "quantifier-free expectation per line of the stream that is validated (stderr iff output_stream is stderr), each matching its line",
                   bound="exit codes 0..255 recorded × written (absent or 0..255, different); stdout 0..%d lines [ab]x, stderr 0..%d lines [ab]y, with/without final "
                         "newline; output_stream ∈ {unset, stdout, stderr, combined}; %s escaping; %s line-parser mode" % (max_lines, max_lines, mode, "Cram" if cram else "Markdown"))
    h.models_cls = GenModels
    return h


def replay_update_exit_code(rep, h, res, mode, cram):
    for model, r in res.raw_witnesses[:6]:
        n = r.ctx.notes
        text = lambda lines: "".join("".join(chr(e2.model_int(model, c)) for c in ln["content"]) + ("\n" if ln["eol"] else "") for ln in lines).encode()
        w = {"stdout": list(text(n["out"])), "stderr": list(text(n["err"])), "exit": e2.model_int(model, n["actual"]),
             "expected": e2.model_int(model, n["expected"]) if z3.is_true(model.eval(n["exp_set"].z(), model_completion=True)) else None,
             "stream": n["stream"].lower() if n["stream"] else None, "escaper": mode.lower(), "cram": cram, "existing": []}
        if n.get("existing"):
            first = (n["err"] if n["stream"] == "Stderr" else n["out"])[0]
            w["existing"] = ["".join(chr(e2.model_int(model, c)) for c in first["content"]) + " (?)"]
        nk, nv = NAT.call("update_exit_code", [w])
        if nk != "return" or nv.get("passes") is not True:
            rep.violation("updated-test-fails:%s:exit-code:%s" % ("cram" if cram else "markdown", n["stream"] or "unset"),
                          "the %s test written by `update` (%s escaping) for a test case that ended with exit code %s (written: %s), stdout %r, stderr %r and "
                          "output_stream %s does not pass against that very run: %s"
                          % ("cram" if cram else "markdown", mode, w["exit"], w["expected"], bytes(w["stdout"]), bytes(w["stderr"]), w["stream"], nv),
                          {"kind": "eval", "fn": "update_exit_code", "args": [w], "native": [nk, nv], "harness": h.name})
        else:
            rep.mismatches.append("%s: solver witness %s did not reproduce natively: %s" % (h.name, w, nv))


def h_backticks(max_bytes):
    def post(ctx, args, kind, value):
        if kind != "return" or not value.concrete:
            return False
        # every line-leading backtick run is at most the result, and the result is at least 2
        s = args[0].chars
        lines, cur = [], []
        conds = []
        # line structure is symbolic: check per possible line start
        n = len(s)
        for start in range(n):
            at_start = True if start == 0 else char_eq(s[start - 1], SInt(10, "char"))
            if at_start is False:
                continue
            for run in range(value.v + 1, n - start + 1):
                is_run = z_and([char_eq(c, SInt(ord("`"), "char")) for c in s[start:start + run]])
                conds.append(z_not(z_and([at_start, is_run])))
        return z_and(conds + [value.v >= 2])

    def judge(a, nk, nv):
        text = a[0]
        want = max([2] + [len(l) - len(l.lstrip("`")) for l in text.split("\n")])
        if nk != "return" or nv < want:
            return True, "max_backtick_size(%r) = %s but a line starts with %d backticks" % (text, nv, want), "fence-size"
        return False, "", ""
    alphabet = "`a\n"

    def mk(n):
        def setup(ctx):
            s = ctx.sym_str("b", [1] * n)
            for ch in s.chars:
                ctx.add(z3.Or([ch.z() == ord(x) for x in alphabet]))
            return [s]
        return setup
    inputs = [("chars=%d" % n, mk(n)) for n in range(0, max_bytes + 1)]
    return e2.Harness("fence_longer_than_content", "generators::markdown::max_backtick_size", inputs, post, native="max_backtick_size", judge=judge,
                      describe="max_backtick_size(block) >= every line-leading backtick run (so block fence = result + 1 cannot be closed by content)",
                      bound="code blocks of <= %d chars over %r" % (max_bytes, alphabet))


def run(pid, tier):
    global NAT
    rep = Report(pid, tier, "other")
    build_native()
    mir, mir_s = e2.dump_mir("lib")
    prog = load_program(mir, e2.REPO + "/src")
    NAT = e2.NativeEval()
    q = tier == "quick"
    e2.process(rep, prog, NAT, h_backticks(6 if q else 8), tier)
    for cram in (False, True):
        for mode in ("Unicode", "Ascii"):
            h = h_generated(2 if q else 3, mode, cram)
            e2.process(rep, prog, NAT, h, tier, to_native_args=lambda a, mode=mode: [a[0], mode.lower(), "cram" if a[2] else "markdown"], max_witnesses=40)
    # update of a failing multi-line test: still-matching lines are re-emitted, runs of new lines are written anew
    for cram in (False, True):
        for mode in ("Unicode", "Ascii") if not q else ("Unicode",):
            hm = h_generated_multi(mode, cram)
            resm = e2.run_with_raw(prog, hm, max_witnesses=6)
            for model, r in resm.raw_witnesses[:6]:
                lines, pattern = r.ctx.notes["lines"], r.ctx.notes["pattern"]
                texts = ["".join(chr(e2.model_int(model, c)) for c in ln["content"]) for ln in lines]
                out = "".join(t + ("\n" if ln["eol"] else "") for t, ln in zip(texts, lines)).encode()
                existing = [t + ((" (equal)" if r.ctx.notes.get("kindlike") else "") if ln["eol"] else " (no-eol)") for t, ln, p_ in zip(texts, lines, pattern) if p_ == "M"]
                nk, nv = NAT.call("generate_and_validate", [list(out), mode.lower(), "cram" if cram else "markdown", existing])
                if nk != "return" or nv.get("passes") is not True:
                    rep.violation("updated-test-fails:%s:multiline-%s" % ("cram" if cram else "markdown", "no-final-newline" if not lines[-1]["eol"] else "final-newline"),
                                  "the %s test written by `update` (%s escaping) for the output %r of a test with expectations %r does not pass against that very "
                                  "output: %s" % ("cram" if cram else "markdown", mode, out, existing, nv),
                                  {"kind": "eval", "fn": "generate_and_validate", "args": [list(out), mode.lower(), "cram" if cram else "markdown", existing],
                                   "native": [nk, nv], "harness": hm.name})
                else:
                    rep.mismatches.append("%s: solver witness %r / %r did not reproduce natively: %s" % (hm.name, out, existing, nv))
            e2.record(rep, hm, resm)
    # document level: the format's generator (generate_testcases) and the format's document parser
    for cram in (False, True):
        hdoc = h_generated(1 if q else 2, "Unicode", cram, document_level=True)
        e2.process(rep, prog, NAT, hdoc, tier, to_native_args=lambda a: [a[0], "unicode", "cram" if a[2] else "markdown"], max_witnesses=40)
    # --convert: a Cram test written by the Markdown generator keeps its stream / line-ending configuration
    hcv = h_generated(0 if q else 1, "Unicode", False, document_level=True, convert=True)
    e2.process(rep, prog, NAT, hcv, tier, to_native_args=lambda a: [a[0], "unicode", "markdown", [], "cmd", True], max_witnesses=6)
    # shell expressions of several lines
    for cram in (False, True):
        hq = h_generated_expression("Unicode", cram, 2 if q else 3)
        resq = e2.run_with_raw(prog, hq, max_witnesses=4)
        replay_generated_expression(rep, hq, resq, "Unicode", cram)
        e2.record(rep, hq, resq)
    # a test case that failed on its exit code: rewritten from the recorded output of the validated stream
    for cram in (False, True):
        for mode in ("Unicode", "Ascii") if not q else ("Unicode",):
            hx = h_update_exit_code(mode, cram, 1 if q else 2)
            resx = e2.run_with_raw(prog, hx, max_witnesses=6)
            replay_update_exit_code(rep, hx, resx, mode, cram)
            e2.record(rep, hx, resx)
            # … of a test case that already has a (quantified) expectation for the first line only
            hx2 = h_update_exit_code(mode, cram, 2, existing=True)
            resx2 = e2.run_with_raw(prog, hx2, max_witnesses=4)
            replay_update_exit_code(rep, hx2, resx2, mode, cram)
            e2.record(rep, hx2, resx2)
    NAT.close()
    tot_paths = sum(s.get("paths", 0) for s in rep.subclaims)
    rep.coverage.update({
        "explanation": "SMT decision (z3) over bounded symbolic execution of the MIR of Outcome::generate_testcase (with the real escaper) "
                       "composed with LineParser::{add_testcase_body,end_testcase}, ExpectationMaker::parse and the parsed rule's matches(); "
                       "regex engine replaced by lib/miniregex.py. One-line outputs over syntax look-alikes, and 2–3-line outputs of a failing test whose "
                       "diff mixes still-matching and new lines (the `update` path); document-level rendering (titles, config, cram indentation) "
                       "and the wildmatch engine are outside.",
        "functions_encoded": ["<Outcome as OutcomeTestGenerator>::generate_testcase", "Outcome::generate_testcase_expression", "Escaper::escaped_expectation",
                              "LineParser::{new,add_testcase_body,end_testcase,flush}", "line_parser::extract_exit_code", "ExpectationMaker::parse",
                              "rule matches() of the parsed kind", "generators::markdown::max_backtick_size"],
        "evaluations": tot_paths, "distinct_nontrivial": max(tot_paths, 2),
        "rule": "one case = one feasible path of generator+parser for one output-line shape",
        "samples": [s for sc in rep.subclaims for s in sc.get("samples", [])][:4] or ["see subclaims"],
        "mir_dump_s": round(mir_s, 1),
    })
    rep.assumptions += ["lib/miniregex.py regex semantics; std contract models", "exit code 0; the diff handed to the generator in the multi-line "
                        "claim is built by the harness (matched line = its own earlier expectation), the real diff is used in the native replay"]
    return rep.finish()
