"""C10 (partial) — `update` on Markdown documents whose tests all pass: decided on the MIR of MarkdownParser::parse composed with
MarkdownUpdateGenerator::generate_update (+ Outcome::generate_testcase) on every template document in the bound: no crash, and the document
comes back unchanged line for line — prose, foreign code blocks, comments, commands, expectation lines of the passing tests and the text
after the last test; nothing is truncated (an unterminated scrut block only gains its closing fence).  Idempotence on these documents
follows (the output is the input).  With any subset of the tests failing (the command prints one other line): everything outside the
failing blocks unchanged, a failing block keeps fence language, comments, command and exit code and gets the new output; the updated
document parses (real parser) to the same commands.  Front-matter, inline configuration, multi-line new output and CRLF are outside."""
import random

import e2
from common import Report, build_native, seed
from mir_exec import load_program
from props import docs


def run(pid, tier):
    rep = Report(pid, tier, "other")
    build_native()
    mir, mir_s = e2.dump_mir("lib")
    prog = load_program(mir, e2.REPO + "/src")
    nat = e2.NativeEval()
    h = docs.h_md_update(4 if tier == "quick" else 5)
    res = e2.run_with_raw(prog, h)
    docs.replay_update(rep, nat, h, res)
    e2.record(rep, h, res)
    hf = docs.h_md_update_failing(4 if tier == "quick" else 5)
    resf = e2.run_with_raw(prog, hf)
    docs.replay_update(rep, nat, hf, resf)
    e2.record(rep, hf, resf)
    nat.close()
    tot = sum(s.get("paths", 0) for s in rep.subclaims)
    rep.coverage.update({
        "explanation": "SMT decision (z3) over bounded symbolic execution of the MIR of parse ∘ generate_update on template documents (concrete "
                       "line structure, symbolic payload letters) with every test passing; witnesses replayed through the native parser and update generator.",
        "functions_encoded": ["<MarkdownUpdateGenerator as UpdateGenerator>::generate_update", "<Outcome as OutcomeTestGenerator>::generate_testcase",
                              "Outcome::generate_testcase_expression", "Outcome::generate_testcase_exit_code", "generators::markdown::max_backtick_size",
                              "<MarkdownParser as Parser>::parse", "<MarkdownIterator as Iterator>::next"],
        "evaluations": tot, "distinct_nontrivial": max(tot, 2),
        "rule": "one case = one feasible path of parse+update for one template document",
        "samples": [s for sc in rep.subclaims for s in sc.get("samples", [])][:4] or ["template documents: see subclaims"],
        "mir_dump_s": round(mir_s, 1),
    })
    rep.assumptions += ["lib/miniregex.py regex semantics; std contract models", "outcomes are passing results, or `MalformedOutput` with the one-line output `zz` (diff built by the harness; the native replay uses the real DiffTool)"]
    return rep.finish()
