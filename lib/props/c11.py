"""C11 — escaping is lossless and printable, decided on the MIR of the real escaper *and* the real decoder:
for every line of bytes b (<= N bytes, optionally newline-terminated) and both modes,
   text = Escaper::escaped_expectation(b)
   * every char of text is printable (ascii mode: 0x20..0x7e; unicode mode: not in the Cc/Cf/Co tables the
     implementation consults, and no newline);
   * if text carries the ` (escaped)` marker: EscapedRule::make(text without marker) succeeds and stores exactly b
     without its trailing newline — so, read back, it matches the original line and (C04: matches ⇔ equality with the
     stored bytes) no line with different content;
   * otherwise text is the line itself (an `equal` expectation): its UTF-8 bytes are b without the trailing newline.
No reference decoder is involved: escaper ∘ decoder = identity is checked on the composition of the two MIR functions."""
import os
import re
import random

import z3

import e2
from common import Report, build_native, seed
from mir_exec import Agg, SBool, SInt, Slice, Str, StringBuf, Unsupported, VecBuf, find_method, load_program, new_ref
from mir_models import Models, as_items, as_str, char_eq, deref, in_ranges, sbool, str_as_bytes, z_and, z_not, z_or
from props.c04 import bytes_eq, unbox_rule

NAT = None
MARK = " (escaped)"
_TABLES = {}


def other_ranges():
    """code points for which unicode_categories' is_other() answers true: read from the crate's tables.rs"""
    if "r" in _TABLES:
        return _TABLES["r"]
    lock = open(os.path.join(e2.REPO, "Cargo.lock")).read()
    mo = re.search(r'name = "unicode_categories"\nversion = "([^"]+)"', lock)
    ver = mo.group(1)
    base = os.path.expanduser("~/.cargo/registry/src")
    path = None
    for d in os.listdir(base):
        p = os.path.join(base, d, "unicode_categories-%s" % ver, "src", "tables.rs")
        if os.path.exists(p):
            path = p
    if path is None:
        raise Unsupported("unicode_categories %s source not found" % ver)
    text = open(path).read()
    cps = []
    for name in ("OTHER_CONTROL", "OTHER_FORMAT", "OTHER_PRIVATE_USE"):
        mo = re.search(r"pub static %s\s*:\s*&'static \[char\] = &\[(.*?)\];" % name, text, re.S)
        cps += [int(x, 16) for x in re.findall(r"\\u\{([0-9A-Fa-f]+)\}", mo.group(1))]
    cps = sorted(set(cps))
    ranges = []
    for c in cps:
        if ranges and ranges[-1][1] == c - 1:
            ranges[-1] = (ranges[-1][0], c)
        else:
            ranges.append((c, c))
    _TABLES["r"] = ranges
    return ranges


class EscModels(Models):
    def __init__(self):
        super().__init__()
        rng = other_ranges()
        self.table.insert(0, (re.compile(r"^<char as UnicodeCategories>::is_other$"), lambda c, m, a: sbool(in_ranges(deref(a[0]), rng))))


def escaper(mode):
    return Agg("Escaper", mode, [])


def drive(ctx, args):
    """Escaper::escaped_expectation(line) then, if marked, EscapedRule::make(text without marker)"""
    prog = ctx.program
    f = prog.resolve_call("Escaper::escaped_expectation")
    text = ctx.call(f, [new_ref(args[0]), args[1]])
    chars = list(as_str(text).chars)
    marked = len(chars) >= len(MARK) and all(c.concrete and c.v == ord(m) for c, m in zip(chars[-len(MARK):], MARK))
    if not marked:
        return Agg("tuple", None, [Str(chars), SBool(False), Slice([])])
    make = find_method(prog, "rules/escaped.rs", "make")
    r = ctx.call(make, [Str(chars[:-len(MARK)])])
    rule = unbox_rule(r)
    if rule is None:
        return Agg("tuple", None, [Str(chars), SBool(True), Agg("Option", "None", [])])
    return Agg("tuple", None, [Str(chars), SBool(True), Agg("Option", "Some", [Slice(as_items(rule.fields[1]))])])


def h_roundtrip(mode, max_bytes):
    rng = other_ranges()

    # partition of the first byte's values: only there to split long explorations into parallel jobs
    PARTS = [(0, 6), (7, 7), (8, 8), (9, 9), (11, 11), (12, 12), (13, 13), (14, 0x1f), (0x20, 0x5b), (0x5c, 0x5c), (0x5d, 0x7e),
             (0x7f, 0x7f), (0x80, 0xbf), (0xc0, 0xc1), (0xc2, 0xdf), (0xe0, 0xef), (0xf0, 0xf4), (0xf5, 0xff)]

    def mk(n, nl, part=None):
        def setup(ctx):
            b = ctx.sym_bytes("b", n)
            for x in b.items:
                ctx.add(x.z() != 10)       # a line: no inner newline
            if part is not None:
                ctx.add(z3.And(z3.UGE(b.items[0].z(), part[0]), z3.ULE(b.items[0].z(), part[1])))
            items = list(b.items) + ([SInt(10, "u8")] if nl else [])
            ctx.notes["body"] = list(b.items)
            return [escaper(mode), Slice(items, "u8")]
        return setup

    def post(ctx, args, kind, value):
        if kind != "return":
            return False
        text, marked, stored = value.fields
        body = ctx.notes["body"]
        conds = []
        for ch in text.chars:
            if mode == "Ascii":
                conds.append(in_ranges(ch, [(0x20, 0x7e)]))
            else:
                conds.append(z_not(in_ranges(ch, rng)))
                conds.append(z_not(char_eq(ch, SInt(10, "char"))))
        if marked.v:
            if stored.variant == "None":
                return False
            conds.append(bytes_eq(list(stored.fields[0].items), body))
        else:
            conds.append(bytes_eq(list(str_as_bytes(ctx, text).items), body))
        return z_and(conds)

    def judge(a, nk, nv):
        m, line = a[0], bytes(a[1])
        body = line.rstrip(b"\n")
        mode_s = m if isinstance(m, str) else "Unicode"
        k, text = NAT.call("escaped_expectation", [mode_s.lower(), list(line)])
        if k != "return":
            return True, "escaped_expectation panics on %r (%s)" % (line, mode_s), "escape:panic"
        printable = all(0x20 <= ord(c) <= 0x7e for c in text) if mode_s == "Ascii" else \
            not any(c == "\n" or any(lo <= ord(c) <= hi for lo, hi in rng) for c in text)
        if not printable:
            return True, "%s rendering %r of %r contains unprintable characters" % (mode_s, text, line), "escape:unprintable:%s" % mode_s.lower()
        if text.endswith(MARK):
            k2, v2 = NAT.call("rule_matches", ["escaped", text[:-len(MARK)], list(line)])
            if k2 != "return" or v2.get("Ok") is not True:
                bs = "backslash" if b"\\" in body else "other"
                return True, ("%s mode writes %r for the line %r, but read back as (escaped) it does not match that line (%s)"
                              % (mode_s, text, line, v2)), "escape:roundtrip:%s:%s" % (mode_s.lower(), bs)
        else:
            if text.encode() != body:
                return True, "%s mode writes %r (no marker) for %r" % (mode_s, text, line), "escape:plain-differs:%s" % mode_s.lower()
        return False, "", ""
    def mk_chars(widths, nl):
        def setup(ctx):
            from mir_models import utf8_bytes
            chars = [ctx.sym_char("c%d" % i, w) for i, w in enumerate(widths)]
            body = []
            for ch in chars:
                ctx.add(ch.z() != 10)
                body += utf8_bytes(ctx, ch)
            ctx.notes["body"] = body
            return [escaper(mode), Slice(body + ([SInt(10, "u8")] if nl else []), "u8")]
        return setup

    inputs = []
    # valid UTF-8 lines by character shape (beyond the all-bytes bound): 2–3 chars, at least one multi-byte
    for sh in e2.str_shapes(max_bytes + 2, max_chars=3):
        if len(sh) >= 2 and max(sh) >= 2 and sum(sh) > max_bytes:
            inputs.append(("utf-8 char widths=%s" % sh, mk_chars(sh, False)))
    for n in range(0, max_bytes + 1):
        for nl in (False, True):
            if n >= 3:
                inputs += [("bytes=%d newline=%s first-byte=%02x..%02x" % (n, nl, p[0], p[1]), mk(n, nl, p)) for p in PARTS]
            else:
                inputs.append(("bytes=%d newline=%s" % (n, nl), mk(n, nl)))
    h = e2.Harness("escape_roundtrip_%s" % mode.lower(), drive, inputs, post, native="escaped_expectation", judge=judge,
                   describe="printable output; escaper ∘ decoder = identity (marked lines) / text == line (unmarked lines)",
                   bound="all byte lines of <= %d bytes (any byte values, valid and invalid UTF-8), with and without final newline, plus all valid "
                         "UTF-8 lines of 2–3 chars and <= %d bytes, %s mode" % (max_bytes, max_bytes + 2, mode))
    h.models_cls = EscModels
    return h


def run(pid, tier):
    global NAT
    rep = Report(pid, tier, "other")
    build_native()
    mir, mir_s = e2.dump_mir("lib")
    prog = load_program(mir, e2.REPO + "/src")
    NAT = e2.NativeEval()
    rnd = random.Random(seed())
    n = 2 if tier == "quick" else 3
    for mode in ("Ascii", "Unicode"):
        h = h_roundtrip(mode, n)
        # translator validation: the interpreter on concrete lines == the native escaper
        mism = checked = 0
        for _ in range(60):
            line = bytes(rnd.choice([0x41, 0x5c, 0x09, 0x1b, 0x00, 0xc3, 0xa9, 0xe2, 0x80, 0x8b, 0x74, 0x78, 0x30, 0x20, 0xff]) for _ in range(rnd.randint(0, 4)))
            ik, iv = e2.run_concrete(prog, prog.resolve_call("Escaper::escaped_expectation"), [new_ref(escaper(mode)), e2.concrete_bytes(line)], EscModels)
            nk, nv = NAT.call("escaped_expectation", [mode.lower(), list(line)])
            checked += 1
            if ik in ("unsupported", "bound"):
                continue
            if (ik, iv) != (nk, nv):
                mism += 1
                if mism <= 3:
                    rep.mismatches.append("escaped_expectation(%s, %r): interpreter %s %r != native %s %r" % (mode, line, ik, iv, nk, nv))
        res = e2.process(rep, prog, NAT, h, tier, to_native_args=lambda a: a)
        rep.subclaims[-1]["concrete_validation"] = {"inputs": checked, "mismatches": mism, "function": "Escaper::escaped_expectation"}
    NAT.close()
    tot_paths = sum(s.get("paths", 0) for s in rep.subclaims)
    rep.coverage.update({
        "explanation": "SMT decision (z3) over bounded symbolic execution of the MIR of the escaper (escaped_expectation → "
                       "escaped_printable_{ascii,unicode}, byte_to_ascii, has_unprintable) composed with the MIR of the decoder "
                       "(EscapedRule::make → unescape_tabs, resolve_escape_sequences_to_bytes): round trip is the identity and "
                       "the text is printable, for every byte line within the bound. 'Unassigned' code points are not covered: "
                       "the implementation's category tables (unicode_categories) have none.",
        "functions_encoded": ["Escaper::escaped_expectation", "escaped_printable_ascii", "escaped_printable_unicode", "byte_to_ascii",
                              "has_unprintable_ascii", "escaped_expectation_ascii", "escaped_expectation_unicode", "EscapedRule::make",
                              "apply_escaped_filter_bytes", "unescape_tabs", "resolve_escape_sequences_to_bytes", "trim_newlines"],
        "evaluations": tot_paths, "distinct_nontrivial": max(tot_paths, 2),
        "rule": "one case = one feasible path of escaper+decoder for one line length; distinct by path condition",
        "samples": [s for sc in rep.subclaims for s in sc.get("samples", [])][:4] or ["see subclaims"],
        "mir_dump_s": round(mir_s, 1),
    })
    rep.assumptions += ["std contract models (String::from_utf8, from_utf8_lossy approximated on invalid input — only compared for equality "
                        "against text without U+FFFD, format!({:02x}), u8::from_str_radix, char::encode_utf8, Iterator::{map,any,collect}, slice::join)",
                        "is_other() = membership in unicode_categories' OTHER_CONTROL / OTHER_FORMAT / OTHER_PRIVATE_USE tables, read from the crate source"]
    return rep.finish()
