"""C13 (partial) — the byte-level transformations scrut itself applies between the document and the shell and between the
shell and the recorded output, decided on their MIR:
 (a) `replace_crlf` removes exactly the CRs that are followed by LF (all byte strings <= N) — and its stack depth does not
     grow with the number of CR LF pairs ("for outputs of any size");
 (b) `BashRunner::run` hands the shell expression to bash verbatim: the script is template-prefix ++ expression ++ template-suffix
     for expressions u ++ T ++ v with T any `{placeholder}` token of the template (or empty) and u, v symbolic text;
 (c) `iterate_divided_output` (single-script / Cram mode) attributes to test i exactly the bytes printed before divider i and its
     exit code, for payloads with or without final newline; a payload line that merely *resembles* a divider (other salt) must
     stay output;
 (d) `TestCase::render_output`: with keep_crlf the bytes are untouched, otherwise exactly `replace_crlf` (strip_ansi unset).
Pipes, write-order merging and real exit codes of processes are outside this family."""
import itertools
import random
import re
import subprocess

import z3

import e2
from common import NATIVE_BIN, Report, build_native, seed
from mir_exec import (Agg, MapBuf, Opaque, SBool, SInt, Slice, Str, StringBuf, SymOpt, Unsupported, VecBuf, field_of,
                      find_method, load_program, mk_int, mk_struct, new_ref)
from mir_models import Models, as_items, as_str, char_eq, deref, none, ok, some, sbool, z_and, z_not, z_or
from props.c04 import bytes_eq

NAT = None
CR, LF = SInt(13, "u8"), SInt(10, "u8")


# ---- (a) replace_crlf ------------------------------------------------------------------------------------


def h_crlf(max_bytes):
    def post(ctx, args, kind, value):
        if kind != "return":
            return False
        src = list(args[0].items)
        out = list(as_items(value))
        # reference: drop byte i iff it is CR and byte i+1 is LF — decided position by position
        n = len(src)
        # enumerate which positions are dropped according to the path's output length is not possible symbolically without
        # case split: build the reference result per drop-mask and require equality under the mask's condition
        conds = []
        for mask in itertools.product([False, True], repeat=max(0, n - 1)):
            mask = list(mask) + [False]
            cond = z_and([(z_and([char_eq(src[i], CR), char_eq(src[i + 1], LF)]) if mask[i] else z_not(z_and([char_eq(src[i], CR), char_eq(src[i + 1], LF)])))
                          for i in range(n - 1)])
            if cond is False:
                continue
            ref = [src[i] for i in range(n) if not mask[i]]
            same = bytes_eq(out, ref)
            conds.append(z3.Implies(cond if not isinstance(cond, bool) else z3.BoolVal(cond), same if not isinstance(same, bool) else z3.BoolVal(same)))
        return z_and([z3.simplify(c) for c in conds])

    def judge(a, nk, nv):
        b = bytes(a[0])
        want = b.replace(b"\r\n", b"\n")
        if nk != "return" or bytes(nv) != want:
            return True, "replace_crlf(%r) = %s %r, expected %r" % (b, nk, nv, want), "crlf:wrong-bytes"
        return False, "", ""
    inputs = [("bytes=%d" % n, (lambda ctx, n=n: [ctx.sym_bytes("b", n)])) for n in range(0, max_bytes + 1)]
    return e2.Harness("replace_crlf", "newline::replace_crlf", inputs, post, native="replace_crlf", judge=judge,
                      describe="replace_crlf(b) == b with every CR that is directly followed by LF removed",
                      bound="all byte strings of <= %d bytes" % max_bytes)


def crlf_depth(prog, pairs):
    """maximal call depth of replace_crlf on `pairs` CR LF pairs (concrete run of the MIR)"""
    from mir_exec import Executor
    depth = {"max": 0, "cur": 0}
    name = prog.find("newline::replace_crlf")

    class Probe(Models):
        pass
    m = Probe()
    ex = Executor(prog, m)
    real_call = None

    def setup(ctx):
        nonlocal real_call
        orig = ctx.run

        def run(f, args):
            if f.name == name:
                depth["cur"] += 1
                depth["max"] = max(depth["max"], depth["cur"])
                try:
                    return orig(f, args)
                finally:
                    depth["cur"] -= 1
            return orig(f, args)
        ctx.run = run
        return [e2.concrete_bytes(b"\r\n" * pairs)]
    rs = ex.explore(name, setup)
    if not rs or rs[0].kind != "return":
        raise Unsupported("replace_crlf depth probe: %s" % (rs[0].info if rs else "no path"))
    return depth["max"]


# ---- (b) BashRunner placeholders -------------------------------------------------------------------------


class RunnerModels(Models):
    """cut at SubprocessRunner::run: the script handed to the shell is the observable"""

    def __init__(self, prog):
        super().__init__()
        sub = [n for n in prog.funcs if "subprocess_runner.rs" in n and n.endswith("::run")]
        for n in sub:
            self.overrides[n] = lambda ctx, fname, args: self._capture(ctx, args)
        ins = lambda pat, fn: self.table.insert(0, (re.compile("^(?:%s)$" % pat), fn))
        ins(r"<Level as PartialOrd<LevelFilter>>::le", lambda c, m, a: SBool(False))
        ins(r"Interest::never|Interest::always|Interest::sometimes", lambda c, m, a: Opaque("Interest"))
        ins(r"<PathBuf as ToOwned>::to_owned|<Path as ToOwned>::to_owned|<PathBuf as Clone>::clone", lambda c, m, a: deref(a[0]))
        ins(r"Path::to_string_lossy", lambda c, m, a: Agg("Cow", "Borrowed", [as_str(deref(a[0]))]))
        ins(r"<PathBuf as Deref>::deref", lambda c, m, a: a[0])
        ins(r"<.* as Clone>::clone", lambda c, m, a: __import__("mir_models").deep_clone(deref(a[0])))

    @staticmethod
    def _capture(ctx, args):
        tc = deref(args[2])
        ctx.notes["script"] = list(as_str(field_of(tc, "shell_expression")).chars)
        return ok(Opaque("Output"))


def template_tokens():
    text = open(e2.REPO + "/src/executors/bash_runner.template").read()
    return text, sorted(set(re.findall(r"\{[a-z_]+\}", text)))


def h_placeholders(max_ctx):
    text, tokens = template_tokens()
    k = text.index("{shell_expression}")
    prefix_t, suffix_t = text[:k], text[k + len("{shell_expression}"):]

    def drive(ctx, args):
        """<BashRunner as Runner>::run up to the hand-over to SubprocessRunner::run"""
        f = find_method(ctx.program, "bash_runner.rs", "run")
        runner = mk_struct("BashRunner", shell=Str([SInt(ord(c), "char") for c in "/bin/bash"]),
                           state_directory=Str([SInt(ord(c), "char") for c in "/state"]))
        ctx.call(f, [new_ref(runner), Str([SInt(ord(c), "char") for c in "exec1"]), new_ref(args[0]), new_ref(Opaque("context"))])
        return Str(ctx.notes["script"])

    def mk(token, nu, nv, detached):
        def setup(ctx):
            u = [ctx.sym_char("u%d" % i, 1) for i in range(nu)]
            v = [ctx.sym_char("v%d" % i, 1) for i in range(nv)]
            for ch in u + v:
                ctx.add(z3.Or(z3.And(ch.z() >= ord("a"), ch.z() <= ord("z")), ch.z() == ord(" "), ch.z() == ord("{"), ch.z() == ord("}")))
            expr = u + [SInt(ord(c), "char") for c in token] + v
            ctx.notes["expr"] = expr
            cfg = mk_struct("TestCaseConfig", detached=some(SBool(True)) if detached else none(), environment=MapBuf([]), keep_crlf=none(),
                            output_stream=none(), skip_document_code=none(), strip_ansi_escaping=none(), timeout=none(), wait=none())
            tc = mk_struct("TestCase", title=StringBuf([]), shell_expression=StringBuf(expr), expectations=VecBuf([]), exit_code=none(),
                           line_number=mk_int(1, "usize"), config=cfg)
            return [tc]
        return setup

    def post(ctx, args, kind, value):
        if kind != "return":
            return False
        script = list(value.chars)
        expr = ctx.notes["expr"]
        # the script ends with expression ++ template suffix (the suffix holds no placeholder)
        tail = [SInt(ord(c), "char") for c in suffix_t]
        if re.search(r"\{[a-z_]+\}", suffix_t):
            raise Unsupported("the template has placeholders after {shell_expression}")
        n = len(expr) + len(tail)
        if len(script) < n:
            return False
        got = script[len(script) - n:]
        return z_and([char_eq(x, y) for x, y in zip(got, expr + tail)])

    def judge(a, nk, nv):
        return True, "expression altered", "placeholder"
    inputs = []
    for token in [""] + tokens:
        for nu in range(0, max_ctx + 1):
            for nv in range(0, max_ctx + 1):
                inputs.append(("expression = u(%d) ++ %r ++ v(%d)" % (nu, token, nv), mk(token, nu, nv, False)))
    h = e2.Harness("bash_runner_expression_verbatim", drive, inputs, post, native="bash_run", judge=judge,
                   describe="the script handed to the shell ends with the shell expression exactly as written (then the template's tail)",
                   bound="expressions u ++ T ++ v: T a `{placeholder}` token of the template or empty (%s), |u|, |v| <= %d chars over [a-z {}]" % (tokens, max_ctx))
    return h


# ---- (c) divided output ---------------------------------------------------------------------------------------

PREFIX = b"~~~~~~~~EXECDIVIDER::"


def divider(salt, index, code):
    return PREFIX + salt + b"::%d::%d\n" % (index, code)


def h_divided(max_payload):
    def mk(shape, lookalike=False):
        # shape: list of (payload_len, ends_with_newline) per test
        def setup(ctx):
            stream = []
            want = []
            for i, (n, nl) in enumerate(shape):
                if n > 16:
                    # long lines are concrete text (no part of them may go missing however long they are)
                    p = [SInt(ord("a") + (j * 7 + j // 26) % 26, "u8") for j in range(n)]
                else:
                    p = [ctx.sym_int("p%d_%d" % (i, j), "u8") for j in range(n)]
                    for x in p:
                        ctx.add(z3.And(x.z() != 10, x.z() != ord("~")))      # a payload line, not resembling the marker
                body = []
                if lookalike and i == 0:
                    # a whole output line that looks like a divider but carries another (symbolic) 4-char salt
                    fs = [ctx.sym_int("fs%d" % j, "u8") for j in range(4)]
                    for x in fs:
                        ctx.add(z3.And(x.z() >= ord("A"), x.z() <= ord("Z")))
                    ctx.add(z3.Or([x.z() != ord(c) for x, c in zip(fs, "SALT")]))
                    body += [SInt(b, "u8") for b in PREFIX] + fs + [SInt(b, "u8") for b in b"::0::9\n"]
                body += p + ([LF] if nl and n > 0 else [])
                stream += body
                stream += [SInt(b, "u8") for b in divider(b"SALT", i, 3 + i)]
                want.append((i, body, 3 + i))
            ctx.notes["want"] = want
            return [Slice(stream, "u8")]
        return setup

    def drive(ctx, args):
        """iterate_divided_output through its verification hook"""
        f = ctx.program.find("bash_script_executor::verif_hooks::iterate_divided_output")
        return ctx.call(f, [Str([SInt(ord(c), "char") for c in "SALT"]), args[0]])

    def post(ctx, args, kind, value):
        if kind != "return" or value.variant != "Ok":
            return False
        got = as_items(value.fields[0])
        want = ctx.notes["want"]
        if len(got) != len(want):
            return False
        conds = []
        for g, (i, body, code) in zip(got, want):
            gi, gb, gc = g.fields
            if not (gi.concrete and gi.v == i and gc.concrete and gc.v == code):
                return False
            conds.append(bytes_eq(list(as_items(gb)), body))
        return z_and(conds)

    def judge(a, nk, nv):
        stream = bytes(a[0])
        # reference split on the real dividers
        want = []
        rest = stream
        i = 0
        while rest:
            k = rest.find(PREFIX + b"SALT::")
            if k < 0:
                break
            end = rest.index(b"\n", k)
            want.append([i, list(rest[:k]), 3 + i])
            rest = rest[end + 1:]
            i += 1
        if nk != "return" or "Ok" not in nv or nv["Ok"] != want:
            return True, "divided output %r is split into %r, expected %r" % (stream, nv, want), "divider:wrong-split"
        return False, "", ""
    shapes = []
    for ntests in (1, 2):
        for combo in itertools.product([(n, nl) for n in range(0, max_payload + 1) for nl in (True, False)], repeat=ntests):
            shapes.append(list(combo))
    shapes += [[(n, nl)] for n in (60, 100, 200, 400) for nl in (False, True)] + [[(1, True), (200, False)], [(200, False), (1, False)]]
    inputs = [("payloads=%s" % (sh,), mk(sh)) for sh in shapes]
    inputs += [("look-alike divider line (foreign salt) then payloads=%s" % (sh,), mk(sh, True)) for sh in shapes if len(sh) == 1]
    return e2.Harness("divided_output_split", drive, inputs, post, native="iterate_divided_output", judge=judge,
                      describe="callback i receives exactly the bytes printed before divider i (payload with or without final newline) and its exit code",
                      bound="1–2 test outputs of <= %d symbolic bytes each (no newline / '~' inside), and concrete lines of 60..400 bytes with / without final "
                            "newline, dividers of the executor's own salt; "
                            "optionally preceded by an output line that is a divider with any other 4-letter salt" % max_payload)


# ---- (d) the single-script (Cram) executor: compile_script ------------------------------------------------------------------------

SCRIPT_ALPHA = "a\\ \""


def h_compile_script(max_len):
    """compile_script on 1–2 test cases with symbolic expressions: every expression stands in the script verbatim on its own line(s), in
    order, and the `echo <divider>` that follows it is a command of its own — the line before it does not end in an unescaped backslash"""
    from mir_exec import MapBuf, mk_struct, new_ref, find_method

    def mk(lens, combined):
        def setup(ctx):
            exprs = []
            tcs = []
            for i, n in enumerate(lens):
                chars = [ctx.sym_char("e%d_%d" % (i, j), 1) for j in range(n)]
                for ch in chars:
                    ctx.add(z3.Or([ch.z() == ord(x) for x in SCRIPT_ALPHA]))
                exprs.append(chars)
                cfg = mk_struct("TestCaseConfig", detached=none(), environment=MapBuf([]), keep_crlf=none(), output_stream=none(),
                                skip_document_code=none(), strip_ansi_escaping=none(), timeout=none(), wait=none())
                tcs.append(new_ref(mk_struct("TestCase", title=StringBuf([]), shell_expression=StringBuf(list(chars)), expectations=VecBuf([]),
                                             exit_code=none(), line_number=mk_int(i + 1, "usize"), config=cfg)))
            ctx.notes["exprs"] = exprs
            ctx.notes["combined"] = combined
            run_cfg = mk_struct("TestCaseConfig", detached=none(), environment=MapBuf([]), keep_crlf=none(),
                                output_stream=some(Agg("OutputStreamControl", "Combined", [])) if combined else none(),
                                skip_document_code=none(), strip_ansi_escaping=none(), timeout=none(), wait=none())
            return [Slice(tcs), new_ref(run_cfg), e2.concrete_str("SALT")]
        return setup

    def ends_in_continuation(chars):
        """formula: the line ends in an odd number of backslashes"""
        odd = False
        for ch in chars:            # left to right: parity of the current run of backslashes
            is_bs = char_eq(ch, SInt(92, "char"))
            odd = z_and([is_bs, z_not(odd)])
        return odd

    def post(ctx, args, kind, value):
        if kind != "return":
            return False
        if value.variant != "Ok":
            return False
        text = list(as_str(value.fields[0]).chars)
        lines, cur = [], []
        for ch in text:
            if ch.concrete and ch.v == 10:
                lines.append(cur)
                cur = []
            else:
                cur.append(ch)
        lines.append(cur)
        is_text = lambda ln, t: len(ln) == len(t) and all(c.concrete and c.v == ord(x) for c, x in zip(ln, t))
        conds = []
        pos = 0
        for i, expr in enumerate(ctx.notes["exprs"]):
            if pos >= len(lines):
                return False
            conds.append(z_and([char_eq(a, b) for a, b in zip(lines[pos], expr)]) if len(lines[pos]) == len(expr) else False)
            pos += 1
            blanks = 0
            while pos < len(lines) and len(lines[pos]) == 0:
                blanks += 1
                pos += 1
            # the divider echo: concrete text starting with `echo "` and naming this index
            if pos >= len(lines) or not all(c.concrete for c in lines[pos]):
                return False
            ftxt = "".join(chr(c.v) for c in lines[pos])
            if not (ftxt.startswith('echo "') and "SALT::%d::" % i in ftxt):
                return False
            pos += 1
            if not ctx.notes["combined"]:
                if pos >= len(lines) or not all(c.concrete for c in lines[pos]) or not "".join(chr(c.v) for c in lines[pos]).startswith('1>&2 echo "'):
                    return False
                pos += 1
            if blanks == 0:
                conds.append(z_not(ends_in_continuation(expr)))     # otherwise bash joins the divider echo onto the command
        if pos != len(lines):
            return False
        return z_and(conds)
    inputs = []
    for combined in (True, False):
        for n in range(0, max_len + 1):
            inputs.append(("1 expression of %d chars, combined=%s" % (n, combined), mk([n], combined)))
        for n1 in range(0, min(2, max_len) + 1):
            for n2 in range(0, min(2, max_len) + 1):
                inputs.append(("2 expressions of %d/%d chars, combined=%s" % (n1, n2, combined), mk([n1, n2], combined)))
    h = e2.Harness("cram_script_expressions_verbatim", "bash_script_executor::compile_script", inputs, post, native=None, judge=None,
                   describe="compile_script: each expression verbatim on its own line, in order, followed by its divider echo as a command of its own "
                            "(no backslash continuation into it)",
                   bound="1 expression of <= %d chars, 2 expressions of <= 2 chars each, over %r; combined and separate streams" % (max_len, SCRIPT_ALPHA))
    return h


def h_render_output():
    """TestCase::render_output: which of the two documented transformations are applied, for every setting of keep_crlf / strip_ansi_escaping"""
    from mir_exec import MapBuf, SymOpt, mk_struct, new_ref

    class RenderModels(Models):
        def __init__(self, prog):
            super().__init__()
            for name, tag in (("newline::replace_crlf", 1), ("escaping::strip_colors_bytes", 2)):
                f = prog.find(name)
                self.overrides[f] = (lambda ctx, fname, args, tag=tag: self._tagged(ctx, args, tag))

        @staticmethod
        def _tagged(ctx, args, tag):
            # the transformation itself is another claim (replace_crlf) or another crate (strip-ansi-escapes): here it only leaves its mark
            items = list(as_items(args[0])) + [SInt(tag, "u8")]
            ctx.notes.setdefault("applied", []).append(tag)
            return Agg("Cow", "Owned", [VecBuf(items, "u8")]) if tag == 1 else ok(VecBuf(items, "u8"))

    def setup(ctx):
        cfg = mk_struct("TestCaseConfig", detached=none(), environment=MapBuf([]), keep_crlf=SymOpt(ctx.sym_bool("crlf_set"), ctx.sym_bool("crlf")),
                        output_stream=none(), skip_document_code=none(), strip_ansi_escaping=SymOpt(ctx.sym_bool("ansi_set"), ctx.sym_bool("ansi")),
                        timeout=none(), wait=none())
        tc = mk_struct("TestCase", title=StringBuf([]), shell_expression=StringBuf([]), expectations=VecBuf([]), exit_code=none(),
                       line_number=mk_int(1, "usize"), config=cfg)
        ctx.notes["cfg"] = cfg
        return [new_ref(tc), Slice([SInt(ord("x"), "u8")], "u8")]

    def post(ctx, args, kind, value):
        if kind != "return" or value.variant != "Ok":
            return False
        from mir_models import to_symopt
        out = [b.v for b in as_items(deref(value.fields[0]).fields[0] if isinstance(deref(value.fields[0]), Agg) else value.fields[0])]
        crlf = to_symopt(field_of(ctx.notes["cfg"], "keep_crlf"))
        ansi = to_symopt(field_of(ctx.notes["cfg"], "strip_ansi_escaping"))
        keep = z3.And(crlf.present.z(), crlf.fields[0].z())
        strip = z3.And(ansi.present.z(), ansi.fields[0].z())
        conds = []
        for got_keep in (True, False):
            for got_strip in (True, False):
                want = [ord("x")] + ([] if got_keep else [1]) + ([2] if got_strip else [])
                if out == want:
                    return z3.And(keep if got_keep else z3.Not(keep), strip if got_strip else z3.Not(strip))
        return False
    h = e2.Harness("render_output_transformations", "TestCase::render_output", [("all settings of keep_crlf / strip_ansi_escaping", setup)], post, native=None, judge=None,
                   describe="render_output applies CR LF → LF unless keep_crlf is true, then ANSI stripping iff strip_ansi_escaping is true, and nothing else",
                   bound="keep_crlf, strip_ansi_escaping ∈ {unset, false, true}; the two transformations are marks (replace_crlf is decided separately)")
    return h, RenderModels


def replay_compile_script(rep, h, res):
    import subprocess as sp
    for model, r in res.raw_witnesses[:6]:
        exprs = ["".join(chr(e2.model_int(model, c)) for c in e) for e in r.ctx.notes["exprs"]]
        # a runnable twin: the same shape with `echo` in front, so that the effect of a swallowed divider shows in the output
        twins = ["echo " + e for e in exprs]
        nk, nv = NAT.call("script_execute_all", [twins, r.ctx.notes["combined"]])
        alone = []
        for t in twins:
            p = sp.run(["bash", "-c", t], stdout=sp.PIPE, stderr=sp.STDOUT if r.ctx.notes["combined"] else sp.PIPE, timeout=20)
            alone.append(list(p.stdout))
        got = [o["stdout"] for o in nv["Ok"]] if nk == "return" and "Ok" in nv else None
        if got != alone:
            last = [e for e in exprs if e.endswith("\\")]
            rep.violation("cram-script:%s" % ("expression-ending-in-backslash" if last else "expression-not-verbatim"),
                          "the Cram executor runs %r and records %s; the commands alone print %s" % (twins, nv if got is None else [bytes(x) for x in got], [bytes(x) for x in alone]),
                          {"kind": "eval", "fn": "script_execute_all", "args": [twins, r.ctx.notes["combined"]], "native": [nk, nv], "harness": h.name})
        else:
            rep.mismatches.append("%s: solver witness %r did not reproduce natively" % (h.name, exprs))


def run(pid, tier):
    global NAT
    rep = Report(pid, tier, "other")
    build_native()
    mir, mir_s = e2.dump_mir("lib")
    prog = load_program(mir, e2.REPO + "/src")
    NAT = e2.NativeEval()
    rnd = random.Random(seed())
    q = tier == "quick"
    # (a)
    val = [[e2.concrete_bytes(bytes(rnd.choice([13, 10, 65, 13, 10]) for _ in range(rnd.randint(0, 6))))] for _ in range(40)]
    e2.process(rep, prog, NAT, h_crlf(5 if q else 6), tier, validate_inputs=val)
    try:
        depths = [crlf_depth(prog, k) for k in (1, 2, 4, 8)]
        grows = depths[-1] > depths[0] + 1
        status = "holds"
        if grows:
            # replay: a real process on 200 000 pairs (the native eval would die with it, so use a separate process)
            r = subprocess.run([NATIVE_BIN, "crlf-depth", "200000"], stdout=subprocess.PIPE, stderr=subprocess.PIPE, text=True)
            if r.returncode != 0:
                status = "violated"
                rep.violation("crlf:unbounded-recursion",
                              "replace_crlf recurses once per CR LF pair (call depth %s for 1/2/4/8 pairs): an output with 200000 pairs "
                              "terminates the process (exit status %d: %s)" % (depths, r.returncode, (r.stderr or "").strip()[:80]),
                              {"kind": "process", "cmd": [NATIVE_BIN, "crlf-depth", "200000"], "exit": r.returncode, "harness": "replace_crlf_depth"})
            else:
                rep.mismatches.append("replace_crlf call depth grows %s but 200000 pairs run natively" % depths)
        rep.subclaim(name="replace_crlf_depth", engine="E2 (MIR interpreter, concrete) + native process", bound="1, 2, 4, 8 CR LF pairs; replay with 200000 pairs",
                     what="call depth of replace_crlf does not grow with the number of CR LF pairs", result=status, depths=depths)
    except Unsupported as e:
        rep.undecided.append("replace_crlf_depth: %s" % e)
    # (b)
    hb = h_placeholders(1 if q else 2)
    hb.models_cls = lambda: RunnerModels(prog)
    resb = e2.run_with_raw(prog, hb)
    for model, r in resb.raw_witnesses[:6]:
        expr = "".join(chr(e2.model_int(model, c)) for c in r.ctx.notes["expr"])
        if "'" in expr:
            continue
        nk, nv = NAT.call("bash_run", ["printf '%s' '" + expr + "'"])
        if nk == "return" and bytes(nv.get("stdout", [])) != expr.encode():
            tok = re.search(r"\{[a-z_]+\}", expr)
            rep.violation("expression-rewritten:%s" % (tok.group(0) if tok else "?"),
                          "the shell expression printf '%%s' %r prints %r: text inside the expression was rewritten by the runner's template substitution"
                          % (expr, bytes(nv.get("stdout", []))),
                          {"kind": "eval", "fn": "bash_run", "args": ["printf '%s' '" + expr + "'"], "native": [nk, nv], "harness": hb.name})
        else:
            rep.mismatches.append("bash_runner_expression_verbatim: solver witness %r did not reproduce natively: %s" % (expr, nv))
    e2.record(rep, hb, resb)
    # (c)
    vald = []
    hc = h_divided(1 if q else 2)
    e2.process(rep, prog, NAT, hc, tier, to_native_args=lambda a: [a[0], "SALT"])
    # a payload line that merely resembles a divider (other salt): concrete instance, judged natively
    fake = b"out\n" + divider(b"OTHER", 0, 9) + divider(b"SALT", 0, 3)
    nk, nv = NAT.call("iterate_divided_output", [list(fake), "SALT"])
    want = [[0, list(b"out\n" + divider(b"OTHER", 0, 9)), 3]]
    st = "holds"
    if nk != "return" or nv.get("Ok") != want:
        st = "violated"
        rep.violation("divider:salt-not-compared",
                      "an output line that merely resembles scrut's divider (salt OTHER instead of the run's salt) is taken as a divider: %r is split into %s"
                      % (fake, nv), {"kind": "eval", "fn": "iterate_divided_output", "args": [list(fake)], "native": [nk, nv], "harness": "divider_lookalike"})
    rep.subclaim(name="divider_lookalike", engine="native replay of a concrete instance (the function has no salt parameter to make symbolic)",
                 bound="one payload line `~~~~~~~~EXECDIVIDER::OTHER::0::9`", what="a look-alike divider with a foreign salt stays output", result=st)
    # (e) which transformations render_output applies
    hr, RM = h_render_output()
    hr.models_cls = lambda: RM(prog)
    resr = e2.run_harness(prog, hr)
    if resr.witnesses:
        # replay: every setting on a probe that holds a CR LF pair and an ANSI colour sequence
        probe = b"a\r\n\x1b[31mb\x1b[0m\n"
        found = False
        for kc in (None, False, True):
            for sa in (None, False, True):
                nk, nv = NAT.call("render_output", [list(probe), kc, sa])
                want = probe if kc is True else probe.replace(b"\r\n", b"\n")
                if sa is True:
                    want = want.replace(b"\x1b[31m", b"").replace(b"\x1b[0m", b"")
                if nk != "return" or bytes(nv.get("Ok", [])) != want:
                    found = True
                    rep.violation("render-output:keep_crlf=%s:strip_ansi=%s" % (kc, sa), "render_output(%r) with keep_crlf=%s, strip_ansi_escaping=%s gives %r, documented %r"
                                  % (probe, kc, sa, bytes(nv.get("Ok", [])) if nk == "return" else nv, want),
                                  {"kind": "eval", "fn": "render_output", "args": [list(probe), kc, sa], "native": [nk, nv], "harness": hr.name})
        if not found:
            rep.mismatches.append("%s: solver witness did not reproduce natively on the probe" % hr.name)
    e2.record(rep, hr, resr, status=("violated" if resr.witnesses else ("undecided" if resr.unsupported else "holds")))
    for u in resr.unsupported[:2]:
        rep.undecided.append(u)
    # (d) the Cram executor's script
    hd = h_compile_script(3 if q else 4)
    resd = e2.run_with_raw(prog, hd)
    replay_compile_script(rep, hd, resd)
    e2.record(rep, hd, resd)
    ok_rows = [["echo one", "echo two \\\\", "printf 'a b'"], ["echo \"x\""]]
    bad = 0
    for row in ok_rows:
        nk, nv = NAT.call("script_execute_all", [row, True])
        alone = [list(subprocess.run(["bash", "-c", t], stdout=subprocess.PIPE, stderr=subprocess.STDOUT).stdout) for t in row]
        if nk != "return" or "Ok" not in nv or [o["stdout"] for o in nv["Ok"]] != alone:
            bad += 1
            rep.mismatches.append("script replay oracle fails on ordinary expressions %s: %s" % (row, nv))
    rep.subclaims[-1]["concrete_validation"] = {"inputs": len(ok_rows), "mismatches": bad, "function": "real BashScriptExecutor vs the commands run alone"}
    # (e) the per-process runner: what it hands to the process and that both streams pass through render_output
    from props import exec_claims
    exec_claims.NAT = NAT
    hsec = exec_claims.h_script_sections(prog)
    ressec = e2.run_with_raw(prog, hsec, max_witnesses=2)
    for model, r in ressec.raw_witnesses[:2]:
        # end to end: CR CR LF from a real command through the real single-script executor with keep_crlf off — one pair is translated, not two
        nk, nv = NAT.call("script_crlf", [])
        if nk == "return" and nv.get("stdout") != list(b"a\r\n"):
            rep.violation("script-executor:output-transformed-twice", "single-script executor, keep_crlf off: `printf 'a\\r\\r\\n'` is recorded as %r (expected b'a\\r\\n': one CR LF pair "
                          "becomes LF)" % bytes(nv.get("stdout") or []), {"kind": "eval", "fn": "script_crlf", "args": [], "native": [nk, nv], "harness": hsec.name})
        else:
            rep.violation("script-executor:sections:mir-only", "BashScriptExecutor::execute_all does not hand a test case the bytes of its section (decided on its MIR for %d test case(s); "
                          "the end-to-end probe with CR CR LF behaves)" % r.ctx.notes["n"], {"kind": "mir-only", "harness": hsec.name})
    e2.record(rep, hsec, ressec)
    hr = exec_claims.h_subprocess_runner(prog)
    resr = e2.run_with_raw(prog, hr, max_witnesses=3)
    exec_claims.replay_runner(rep, hr, resr)
    e2.record(rep, hr, resr)
    NAT.close()
    tot_paths = sum(s.get("paths", 0) for s in rep.subclaims)
    rep.coverage.update({
        "explanation": "SMT decision (z3) over bounded symbolic execution of the MIR of replace_crlf, of BashRunner::run up to the "
                       "hand-over to the process runner (template substitution chain on a partly symbolic expression) and of "
                       "iterate_divided_output; witnesses replayed natively (BashRunner through a real bash). Pipes, merge order, "
                       "megabyte payloads and real exit codes are outside.",
        "functions_encoded": ["newline::replace_crlf", "<BashRunner as Runner>::run", "bash_script_executor::iterate_divided_output",
                              "bash_script_executor::parse_divider_bytes", "newline::split_at_newline", "newline::trim_newlines",
                              "<SubprocessRunner as Runner>::run (recording process stub)", "TestCase::render_output"],
        "evaluations": tot_paths, "distinct_nontrivial": max(tot_paths, 2),
        "rule": "one case = one feasible path of the MIR under one input shape",
        "samples": [s for sc in rep.subclaims for s in sc.get("samples", [])][:4] or ["see subclaims"],
        "mir_dump_s": round(mir_s, 1),
    })
    rep.assumptions += ["std contract models incl. str::replace (leftmost non-overlapping matches), slice::windows/position, Cow/concat, String::from_utf8, str::parse",
                        "BashRunner: SubprocessRunner::run is cut (the script text is the observable); tracing disabled"]
    return rep.finish()
