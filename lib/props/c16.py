"""C16 — configuration layering, decided on the MIR of TestCaseConfig::with_defaults_from /
with_overrides_from and DocumentConfig::with_defaults_from with fully symbolic layers:
every scalar key's presence and value are symbolic (SymOpt), environments are small maps with
symbolic variable names and values, prepend/append are short lists of distinct paths.
  per key        : (a.with_defaults_from(b)).k == a.k if set else b.k          (also per environment variable)
  overrides      : a.with_overrides_from(o) == o.with_defaults_from(a)          (key-wise: o wins)
  associativity  : (a.wd(b)).wd(c) == a.wd(b.wd(c))  key-wise, three symbolic layers
  identity       : x.wd(empty) == x == empty.wd(x)
  lists          : append == defaults.append ++ self.append ; prepend == self.prepend ++ defaults.prepend
  command line   : what `commands::test::Args::run` hands the executor = flags over the test case's inline configuration (bin crate MIR)
  document       : what `StatefulExecutor::execute_all` hands the runner = test case over the document's defaults (lib MIR)
The parser's format defaults are outside (C07 claims the Cram ones)."""
import random

import time

import z3

import e2
from common import Report, build_native, seed
from mir_exec import (Agg, MapBuf, SBool, SInt, Slice, Str, StringBuf, SymEnum, SymOpt, Unsupported, VecBuf,
                      field_of, find_method, load_program, mk_int, mk_struct, new_ref, STRUCTS)
from mir_models import Models, as_str, char_eq, deref, opt_present, to_symopt, z_and, z_not, z_or

NAT = None
SCALARS = ["detached", "keep_crlf", "output_stream", "skip_document_code", "strip_ansi_escaping", "timeout", "wait"]
OSC = ["Stdout", "Stderr", "Combined"]


def sym_dur(ctx, name):
    v = ctx.sym_int(name, "nat")
    return Agg("Duration", None, [v])


def sym_opt(ctx, name, payload):
    return SymOpt(ctx.sym_bool(name + "_set"), payload)


def sym_key(ctx, name):
    """a 1-char variable name / value drawn from {A, B, C}"""
    ch = ctx.sym_char(name, 1)
    ctx.add(z3.Or([ch.z() == ord(x) for x in "ABC"]))
    return StringBuf([ch])


def sym_tcc(ctx, tag, env_n):
    osc = ctx.sym_int(tag + "_os", "isize")
    ctx.add(z3.ULT(osc.z(), 3))
    entries = []
    for i in range(env_n):
        k = sym_key(ctx, "%s_k%d" % (tag, i))
        for pk, _pv in entries:
            ctx.add(k.chars[0].z() != pk.chars[0].z())     # map keys are distinct
        entries.append([k, sym_key(ctx, "%s_v%d" % (tag, i))])
    wait = mk_struct("TestCaseWait", timeout=sym_dur(ctx, tag + "_wt"),
                     path=sym_opt(ctx, tag + "_wp", Str([SInt(ord(c), "char") for c in "path-" + tag])))
    return mk_struct(
        "TestCaseConfig",
        detached=sym_opt(ctx, tag + "_det", ctx.sym_bool(tag + "_det_v")),
        environment=MapBuf(entries),
        keep_crlf=sym_opt(ctx, tag + "_crlf", ctx.sym_bool(tag + "_crlf_v")),
        output_stream=sym_opt(ctx, tag + "_osc", SymEnum("OutputStreamControl", osc)),
        skip_document_code=sym_opt(ctx, tag + "_skip", ctx.sym_int(tag + "_skip_v", "i32")),
        strip_ansi_escaping=sym_opt(ctx, tag + "_ansi", ctx.sym_bool(tag + "_ansi_v")),
        timeout=sym_opt(ctx, tag + "_to", sym_dur(ctx, tag + "_to_v")),
        wait=sym_opt(ctx, tag + "_wait", wait),
    )


def val_eq(ctx, x, y):
    """formula: two payload values are equal"""
    if x is None or y is None:
        return x is y
    return ctx.ex.models.elem_eq(ctx, x, y)


def opt_same(ctx, r, want):
    """formula: Option value r equals Option value want (presence and payload)"""
    r, want = to_symopt(r), to_symopt(want)
    pr, pw = r.present.v, want.present.v
    both = z_and([pr, pw])
    payload = val_eq(ctx, r.fields[0], want.fields[0]) if (r.fields[0] is not None and want.fields[0] is not None) else (pw is False or pr is False)
    return z_and([bool_iff(pr, pw), z_or([z_not(both), payload])])


def bool_iff(a, b):
    if isinstance(a, bool) and isinstance(b, bool):
        return a == b
    za = z3.BoolVal(a) if isinstance(a, bool) else a
    zb = z3.BoolVal(b) if isinstance(b, bool) else b
    return z3.simplify(za == zb)


def spec_or(ctx, a, b):
    """a.or(b) as a SymOpt, built by the spec (not by the code under test)"""
    from mir_models import merge_payload
    a, b = to_symopt(a), to_symopt(b)
    from mir_exec import mk_bool
    return SymOpt(mk_bool(z_or([a.present.v, b.present.v]) if not isinstance(z_or([a.present.v, b.present.v]), bool) else z_or([a.present.v, b.present.v])),
                  merge_payload(ctx, a.present.v, a.fields[0], b.fields[0]))


def env_lookup(ctx, mp, probe):
    """→ (found formula, value char z3) for a 1-char probe name"""
    found = False
    val = z3.BitVecVal(0, 32)
    for k, v in reversed(mp.entries):
        hit = char_eq(deref(k).chars[0], probe)
        found = z_or([found, hit])
        val = z3.If(hit if not isinstance(hit, bool) else z3.BoolVal(hit), deref(v).chars[0].z(), val)
    return found, val


def env_spec(ctx, r, a, b, probe):
    """lookup(r) == lookup(a) if found else lookup(b)"""
    fr, vr = env_lookup(ctx, r, probe)
    fa, va = env_lookup(ctx, a, probe)
    fb, vb = env_lookup(ctx, b, probe)
    want_found = z_or([fa, fb])
    za = fa if not isinstance(fa, bool) else z3.BoolVal(fa)
    want_val = z3.If(za, va, vb)
    return z_and([bool_iff(fr, want_found), z_or([z_not(want_found), z3.simplify(vr == want_val)])])


def tcc_layer_spec(ctx, r, a, b, probe):
    conds = []
    for k in SCALARS:
        conds.append(opt_same(ctx, field_of(r, k), spec_or(ctx, field_of(a, k), field_of(b, k))))
    conds.append(env_spec(ctx, field_of(r, "environment"), field_of(a, "environment"), field_of(b, "environment"), probe))
    return z_and(conds)


def failing_keys(ctx, model, r, a, b, probe):
    bad = []
    for k in SCALARS:
        f = opt_same(ctx, field_of(r, k), spec_or(ctx, field_of(a, k), field_of(b, k)))
        if f is False or (not isinstance(f, bool) and z3.is_false(model.eval(f, model_completion=True))):
            bad.append(k)
    f = env_spec(ctx, field_of(r, "environment"), field_of(a, "environment"), field_of(b, "environment"), probe)
    if f is False or (not isinstance(f, bool) and z3.is_false(model.eval(f, model_completion=True))):
        bad.append("environment")
    return bad


def tcc_to_json(v, model):
    """TestCaseConfig executor value → JSON accepted by `verif-native eval tcc_merge`"""
    def b(x):
        if x.concrete:
            return x.v
        return bool(z3.is_true(model.eval(x.z(), model_completion=True)))

    def i(x, signed=False, bits=32):
        n = e2.model_int(model, x)
        if signed and n >= 1 << (bits - 1):
            n -= 1 << bits
        return n

    def opt(o, conv):
        o = to_symopt(o)
        return conv(o.fields[0]) if b(o.present) else None
    out = {}
    out["detached"] = opt(field_of(v, "detached"), b)
    out["keep_crlf"] = opt(field_of(v, "keep_crlf"), b)
    out["strip_ansi_escaping"] = opt(field_of(v, "strip_ansi_escaping"), b)
    out["skip_document_code"] = opt(field_of(v, "skip_document_code"), lambda x: i(x, True))
    out["output_stream"] = opt(field_of(v, "output_stream"), lambda x: OSC[i(x.disc)] if isinstance(x, SymEnum) else x.variant)
    out["timeout"] = opt(field_of(v, "timeout"), lambda d: str(i(d.fields[0])))
    out["wait"] = opt(field_of(v, "wait"), lambda w: {"timeout": str(i(w.fields[0].fields[0])),
                                                       "path": opt(w.fields[1], lambda p: e2.to_py(p, model))})
    out["environment"] = [[e2.to_py(k, model), e2.to_py(x, model)] for k, x in field_of(v, "environment").entries]
    return out


# ------------------------------------------------------------------------------------------------


def find_tcc(prog, method):
    name = prog.resolve_call("TestCaseConfig::" + method)
    if name is None:
        raise Unsupported("cannot resolve TestCaseConfig::%s" % method)
    return name


def h_pairwise(env_sizes, op):
    def drive(ctx, args):
        """TestCaseConfig::with_defaults_from / with_overrides_from on two symbolic layers"""
        f = find_tcc(ctx.program, "with_defaults_from" if op == "defaults" else "with_overrides_from")
        return ctx.call(f, [new_ref(args[0]), new_ref(args[1])])

    def mk(na, nb):
        def setup(ctx):
            a, b = sym_tcc(ctx, "a", na), sym_tcc(ctx, "b", nb)
            probe = ctx.sym_char("probe", 1)
            ctx.notes["probe"] = probe
            return [a, b]
        return setup

    def post(ctx, args, kind, value):
        if kind != "return":
            return False
        a, b = args
        if op == "overrides":
            a, b = b, a      # a.with_overrides_from(o): o wins
        return tcc_layer_spec(ctx, value, a, b, ctx.notes["probe"])
    inputs = [("env sizes self=%d other=%d" % (na, nb), mk(na, nb)) for na in env_sizes for nb in env_sizes]
    h = e2.Harness("tcc_%s_per_key" % op, drive, inputs, post, native="tcc_merge", judge=None,
                   describe="every key and every environment variable of the result comes from the higher-precedence layer that sets it",
                   bound="all presence/value assignments of the 7 scalar keys; environments of <= %d variables per layer over names/values {A,B,C}" % max(env_sizes))
    h.op = op
    return h


def h_assoc(env_sizes):
    def drive(ctx, args):
        """(a.wd(b)).wd(c) next to a.wd(b.wd(c))"""
        f = find_tcc(ctx.program, "with_defaults_from")
        a, b, c = args
        ab = ctx.call(f, [new_ref(a), new_ref(b)])
        left = ctx.call(f, [new_ref(ab), new_ref(c)])
        bc = ctx.call(f, [new_ref(b), new_ref(c)])
        right = ctx.call(f, [new_ref(a), new_ref(bc)])
        return Agg("tuple", None, [left, right])

    def mk(n):
        def setup(ctx):
            cfgs = [sym_tcc(ctx, t, n) for t in "abc"]
            ctx.notes["probe"] = ctx.sym_char("probe", 1)
            return cfgs
        return setup

    def post(ctx, args, kind, value):
        if kind != "return":
            return False
        left, right = value.fields
        conds = [opt_same(ctx, field_of(left, k), field_of(right, k)) for k in SCALARS]
        fl, vl = env_lookup(ctx, field_of(left, "environment"), ctx.notes["probe"])
        fr, vr = env_lookup(ctx, field_of(right, "environment"), ctx.notes["probe"])
        conds += [bool_iff(fl, fr), z_or([z_not(fl), z3.simplify(vl == vr)])]
        return z_and(conds)
    inputs = [("env size %d per layer" % n, mk(n)) for n in env_sizes]
    return e2.Harness("tcc_associative", drive, inputs, post, native="tcc_merge", judge=None,
                      describe="(a.wd(b)).wd(c) == a.wd(b.wd(c)) key-wise and per environment variable",
                      bound="three symbolic layers, environments of <= %d variables" % max(env_sizes))


def h_identity():
    def drive(ctx, args):
        """x.wd(empty) and empty.wd(x) with TestCaseConfig::empty() from the MIR"""
        f = find_tcc(ctx.program, "with_defaults_from")
        empty = ctx.call(find_tcc(ctx.program, "empty"), [])
        x = args[0]
        return Agg("tuple", None, [ctx.call(f, [new_ref(x), new_ref(empty)]), ctx.call(f, [new_ref(empty), new_ref(x)])])

    def setup(ctx):
        ctx.notes["probe"] = ctx.sym_char("probe", 1)
        return [sym_tcc(ctx, "x", 2)]

    def post(ctx, args, kind, value):
        if kind != "return":
            return False
        x = args[0]
        conds = []
        for r in value.fields:
            conds += [opt_same(ctx, field_of(r, k), field_of(x, k)) for k in SCALARS]
            fl, vl = env_lookup(ctx, field_of(r, "environment"), ctx.notes["probe"])
            fx, vx = env_lookup(ctx, field_of(x, "environment"), ctx.notes["probe"])
            conds += [bool_iff(fl, fx), z_or([z_not(fl), z3.simplify(vl == vx)])]
        return z_and(conds)
    return e2.Harness("tcc_empty_is_identity", drive, [("x symbolic, env 2", setup)], post, native="tcc_merge", judge=None,
                      describe="x.with_defaults_from(empty) == x == empty.with_defaults_from(x)",
                      bound="all presence/value assignments; environment of 2 variables")


def h_doc_lists(max_len):
    def path(tag, i):
        return Str([SInt(ord(c), "char") for c in "%s%d" % (tag, i)])

    def drive(ctx, args):
        """DocumentConfig::with_defaults_from"""
        f = ctx.program.resolve_call("DocumentConfig::with_defaults_from")
        return ctx.call(f, [new_ref(args[0]), new_ref(args[1])])

    def mk(la, lb, pa, pb):
        def setup(ctx):
            def doc(tag, n_app, n_pre):
                return mk_struct("DocumentConfig",
                                 append=VecBuf([path(tag + "a", i) for i in range(n_app)]),
                                 defaults=sym_tcc(ctx, tag + "d", 0),
                                 prepend=VecBuf([path(tag + "p", i) for i in range(n_pre)]),
                                 shell=sym_opt(ctx, tag + "_sh", path(tag + "sh", 0)),
                                 total_timeout=sym_opt(ctx, tag + "_tt", sym_dur(ctx, tag + "_tt_v")))
            ctx.notes["probe"] = ctx.sym_char("probe", 1)
            return [doc("s", la, pa), doc("d", lb, pb)]
        return setup

    def post(ctx, args, kind, value):
        if kind != "return":
            return False
        s, d = args
        r = value

        def names(v):
            return ["".join(chr(c.v) for c in as_str(x).chars) for x in v.items]
        if names(field_of(r, "append")) != names(field_of(d, "append")) + names(field_of(s, "append")):
            return False
        if names(field_of(r, "prepend")) != names(field_of(s, "prepend")) + names(field_of(d, "prepend")):
            return False
        conds = [opt_same(ctx, field_of(r, "shell"), spec_or(ctx, field_of(s, "shell"), field_of(d, "shell"))),
                 opt_same(ctx, field_of(r, "total_timeout"), spec_or(ctx, field_of(s, "total_timeout"), field_of(d, "total_timeout"))),
                 tcc_layer_spec(ctx, field_of(r, "defaults"), field_of(s, "defaults"), field_of(d, "defaults"), ctx.notes["probe"])]
        return z_and(conds)
    inputs = [("append %d+%d prepend %d+%d" % (la, lb, pa, pb), mk(la, lb, pa, pb))
              for la in range(max_len + 1) for lb in range(max_len + 1) for pa in range(max_len + 1) for pb in range(max_len + 1)]
    return e2.Harness("doc_lists_and_scalars", drive, inputs, post, native="doc_merge", judge=None,
                      describe="append == defaults.append ++ self.append; prepend == self.prepend ++ defaults.prepend; shell, total_timeout, defaults layered",
                      bound="lists of <= %d distinct paths per layer; all presence/value assignments of shell / total_timeout / defaults keys" % max_len)


def replay_tcc(rep, h, res, op, layers_of):
    """turn solver witnesses of a TestCaseConfig harness into native replays"""
    for w in res.raw_witnesses[:6]:
        model, r = w
        args = r.ctx.notes["args"]
        layers = layers_of(args)
        js = [tcc_to_json(x, model) for x in layers]
        nk, nv = NAT.call("tcc_merge", [op, js])
        if nk != "return":
            rep.violation("config:merge-panics", "TestCaseConfig merge panics on %s" % js, {"kind": "eval", "fn": "tcc_merge", "args": [op, js], "native": [nk, nv]})
            continue
        # judge natively, key by key
        bad = []
        hi, lo = (js[0], js[1]) if op != "overrides" else (js[1], js[0])
        for k in ["detached", "keep_crlf", "strip_ansi_escaping", "skip_document_code", "output_stream", "timeout", "wait"]:
            want = hi[k] if hi[k] is not None else lo[k]
            if nv[k] != want:
                bad.append(k)
        want_env = dict((k, v) for k, v in lo["environment"])
        want_env.update(dict((k, v) for k, v in hi["environment"]))
        if dict((k, v) for k, v in nv["environment"]) != want_env:
            bad.append("environment")
        if bad:
            rep.violation("config-precedence:%s:%s" % (op, "+".join(sorted(bad))),
                          "%s: key(s) %s of the result do not come from the higher-precedence layer: layers %s → %s"
                          % (op, bad, js, {k: nv[k] for k in bad}),
                          {"kind": "eval", "fn": "tcc_merge", "args": [op, js], "native": [nk, nv], "harness": h.name})
        else:
            rep.mismatches.append("%s: solver witness did not reproduce natively: %s → %s" % (h.name, js, nv))


# ---- where the command-line layer is applied: commands::test::Args::run (bin crate) ---------------------------------------------

def h_cli_layer(prog, only_timeout=False):
    """`scrut test` with symbolic --combine-output / --no-combine-output / --keep-output-crlf / --no-keep-output-crlf / --timeout-seconds
    (and, as bystanders, --cram-compat / --keep-temporary-directories) over a
    document whose only test case has a fully symbolic inline configuration: what reaches the executor"""
    from props import c20
    from mir_exec import ENUMS, SymEnum as SE, deep_clone as dc

    class CliModels(c20.RunModels):
        def __init__(self):
            super().__init__(prog)
            ins = lambda pat, fn: self.table.insert(0, (__import__("re").compile("^(?:%s)$" % pat), fn))

            def execute_all(c, m, a):
                from mir_models import as_items
                tests = as_items(a[1])
                c.notes["seen_configs"] = [dc(field_of(deref(t), "config")) for t in tests]
                c.notes.setdefault("executed_titles", []).append([c20.title_of(t) for t in tests])
                return c.notes["scripts"][0](c, tests)
            ins(r"<dyn Executor as Executor>::execute_all", execute_all)

            def cb_config(c, m, a):
                c.notes["seen_document_config"] = dc(deref(a[1]))
                return Agg("ContextBuilder", None, [])
            ins(r"scrut::executors::context::ContextBuilder::config", cb_config)

    def setup(ctx, cli_pre=0, cli_app=0, fixed=None):
        # the document has a front-matter prepend and append document: their test cases go through the same executor call
        # (and, in the variants, documents named by --prepend-test-file-paths / --append-test-file-paths)
        args = c20.mk_setup(cli_pre, cli_app, [c20.Doc(0, 1, 1, 1, "ok", "C" * (3 + cli_pre + cli_app))])(ctx)
        ctx.notes["cli_docs"] = (cli_pre, cli_app)
        empty = lambda: ctx.call(ctx.program.resolve_call("TestCaseConfig::empty"), [])
        tcc = empty() if only_timeout else sym_tcc(ctx, "t", 1)
        doc = ctx.notes["documents"][0]
        tc = field_of(doc, "testcases").items[0]
        tc.fields[STRUCTS["TestCase"].index("config")] = tcc
        extra_layers = {}
        for key, tag in (("path:p", "pre"), ("path:q", "app")):
            base = ctx.notes["extra"][key]
            cfg = empty() if only_timeout else sym_tcc(ctx, tag, 0)
            extra_layers[tag] = cfg

            def build(c, base=base, cfg=cfg):
                d = base(c)
                field_of(d, "testcases").items[0].fields[STRUCTS["TestCase"].index("config")] = cfg
                return d
            ctx.notes["extra"][key] = build
        ctx.notes["extra_layers"] = extra_layers
        dcfg = field_of(doc, "config")
        doc_total = sym_opt(ctx, "doc_total", sym_dur(ctx, "doc_total_v"))
        dcfg.fields[STRUCTS["DocumentConfig"].index("total_timeout")] = doc_total
        ctx.notes["layers"] = {"test": tcc, "doc_total": doc_total}
        a = deref(args[0])
        order = c20.struct_order(e2.REPO + "/src/bin/commands/test.rs", "Args")
        g = a.fields[order.index("global")]
        gorder = [n for n, _t in c20.struct_order(e2.REPO + "/src/bin/commands/root.rs", "GlobalSharedParameters", typed=True)]
        flags = {}
        for name in ("combine_output", "no_combine_output", "keep_output_crlf", "no_keep_output_crlf"):
            flags[name] = SBool(False) if only_timeout else (SBool(fixed[name]) if fixed is not None else ctx.sym_bool("cli_" + name))
            g.fields[gorder.index(name)] = flags[name]
        # flags that are no configuration layer: whatever they are, they must not change what a test case gets
        for name in ("cram_compat", "keep_temporary_directories"):
            # (bystanders are symbolic in the variant without command-line documents only: path count)
            concrete = (only_timeout and name != "cram_compat") or (not only_timeout and (cli_pre or cli_app))
            flags[name] = SBool(False) if concrete else (SBool(fixed[name]) if fixed is not None and name in fixed else ctx.sym_bool("cli_" + name))
            g.fields[gorder.index(name)] = flags[name]
        # (a flag and its negation may both be given — the command line accepts that; then either value is "the command line's")
        secs = ctx.sym_int("cli_timeout_seconds", "u64")
        ctx.add(z3.ULT(secs.z(), z3.BitVecVal(10 ** 6, 64)))
        flags["timeout_seconds"] = sym_opt(ctx, "cli_timeout", secs)
        g.fields[gorder.index("timeout_seconds")] = flags["timeout_seconds"]
        ctx.notes["cli"] = flags
        return args

    def post(ctx, args, kind, value):
        if kind != "return":
            return False
        seen = ctx.notes.get("seen_configs")
        cli_pre, cli_app = ctx.notes["cli_docs"]
        if not seen or len(seen) != 3 + cli_pre + cli_app:
            return False
        titles = ctx.notes["executed_titles"][0]
        by_title = dict(zip(titles, seen))
        if sorted(by_title) != sorted(["a0", "p0", "q0"] + ["P0"] * cli_pre + ["Q0"] * cli_app):
            return False
        got, t, cli = by_title["a0"], ctx.notes["layers"]["test"], ctx.notes["cli"]
        if only_timeout:
            dgot = ctx.notes.get("seen_document_config")
            if dgot is None:
                return False
            ts = cli["timeout_seconds"]
            want_total = spec_or(ctx, SymOpt(ts.present, Agg("Duration", None, [mk_int(z3.BV2Int(ts.fields[0].z()) * 10 ** 9, "nat")])), ctx.notes["layers"]["doc_total"])
            return opt_same(ctx, field_of(dgot, "total_timeout"), want_total)
        from mir_exec import mk_bool
        osc = ENUMS["OutputStreamControl"]
        conds = []
        no_c, c_ = cli["no_combine_output"].z(), cli["combine_output"].z()
        idx = lambda name: z3.BitVecVal(osc.index(name), 64)
        cli_os = [SymOpt(mk_bool(z3.Or(no_c, c_)), SE("OutputStreamControl", mk_int(z3.If(no_c, idx("Stdout"), idx("Combined")), "isize"))),
                  SymOpt(mk_bool(z3.Or(no_c, c_)), SE("OutputStreamControl", mk_int(z3.If(c_, idx("Combined"), idx("Stdout")), "isize")))]
        no_k, k_ = cli["no_keep_output_crlf"].z(), cli["keep_output_crlf"].z()
        from mir_exec import SBool as SB
        cli_crlf = [SymOpt(mk_bool(z3.Or(no_k, k_)), SB(z3.Not(no_k))), SymOpt(mk_bool(z3.Or(no_k, k_)), SB(k_))]
        for key in SCALARS:
            want = field_of(t, key)
            if key in ("output_stream", "keep_crlf"):
                alts = [opt_same(ctx, field_of(got, key), spec_or(ctx, c, want)) for c in (cli_os if key == "output_stream" else cli_crlf)]
                conds.append(z_or(alts))
            else:
                conds.append(opt_same(ctx, field_of(got, key), want))
        # the test cases of the prepend / append documents get the command-line layer just the same
        for title, tag in (("p0", "pre"), ("q0", "app")):
            g2, t2 = by_title[title], ctx.notes["extra_layers"][tag]
            for key in SCALARS:
                want = field_of(t2, key)
                if key in ("output_stream", "keep_crlf"):
                    conds.append(z_or([opt_same(ctx, field_of(g2, key), spec_or(ctx, c, want)) for c in (cli_os if key == "output_stream" else cli_crlf)]))
                else:
                    conds.append(opt_same(ctx, field_of(g2, key), want))
        # the test case's own variables survive (the environment of init_test_file is empty in this harness)
        probe = deref(field_of(t, "environment").entries[0][0]).chars[0]
        fr, vr = env_lookup(ctx, field_of(got, "environment"), probe)
        fa, va = env_lookup(ctx, field_of(t, "environment"), probe)
        conds.append(z_and([bool_iff(fr, fa), z3.simplify(vr == va)]))
        # document level: --timeout-seconds over the document's total_timeout
        dgot = ctx.notes.get("seen_document_config")
        if dgot is None:
            return False
        ts = cli["timeout_seconds"]
        want_total = spec_or(ctx, SymOpt(ts.present, Agg("Duration", None, [mk_int(z3.BV2Int(ts.fields[0].z()) * 10 ** 9, "nat")])), ctx.notes["layers"]["doc_total"])
        if only_timeout:
            return opt_same(ctx, field_of(dgot, "total_timeout"), want_total)
        conds.append(opt_same(ctx, field_of(dgot, "total_timeout"), want_total))
        return z_and(conds)
    import itertools as _it
    # the flag combinations are enumerated as separate inputs (they would be decided path by path anyway; this way they run in parallel)
    combos = [None] if only_timeout else [dict(zip(("combine_output", "no_combine_output", "keep_output_crlf", "no_keep_output_crlf", "cram_compat"), v))
                                          for v in _it.product((False, True), repeat=5)]
    variants = [("1 document with a prepend and an append document, 1 test case each, symbolic inline configurations%s%s"
                 % ("" if not (cp or ca) else "; --prepend-test-file-paths=%d --append-test-file-paths=%d" % (cp, ca),
                    "" if fx is None else "; flags " + (" ".join("--" + k.replace("_", "-") for k, v in fx.items() if v) or "(none)")),
                 (lambda ctx, cp=cp, ca=ca, fx=fx: setup(ctx, cp, ca, fx)))
                for cp, ca in (((0, 0), (0, 1), (1, 0), (1, 1)) if only_timeout else ((0, 0), (1, 1))) for fx in combos
                if fx is None or not ((cp or ca) and fx["cram_compat"])]
    if only_timeout:
        h = e2.Harness("timeout_seconds_reaches_the_document", c20.drive, variants, post, native=None, judge=None,
                       describe="the document configuration handed to the executor has total_timeout = --timeout-seconds if given, else the document's own",
                       bound="any --timeout-seconds < 10^6, any document total_timeout (absent / any value), with / without --cram-compat; with / without a "
                             "document named by --prepend-test-file-paths / --append-test-file-paths")
        h.models_cls = CliModels
        return h
    h = e2.Harness("cli_layer_in_test_command", c20.drive, variants, post, native=None, judge=None,
                   describe="what reaches the executor: output_stream / keep_crlf from the command-line flag if given else from the test case; every other "
                            "key and the test case's variables unchanged — for the document's own test case and for those of its prepend / append documents; "
                            "total_timeout = --timeout-seconds if given else the document's",
                   bound="all inline configurations (every key set / unset, any value; 1 variable), all admissible flag combinations, any --timeout-seconds < 10^6; "
                         "with / without a document named by --prepend-test-file-paths / --append-test-file-paths")
    h.models_cls = CliModels
    return h


# ---- where the document's defaults are applied: StatefulExecutor::execute_all ------------------------------------------------------

def h_exec_layer(prog):
    """one test case with a fully symbolic inline configuration in a document with fully symbolic `defaults`: what the runner is given"""
    from props import execmodel as X

    def setup(ctx):
        t = sym_tcc(ctx, "t", 1)
        d = sym_tcc(ctx, "d", 1)
        for cfg in (t, d):
            # `wait` makes the executor sleep before the run; it is not part of this claim
            cfg.fields[STRUCTS["TestCaseConfig"].index("wait")] = Agg("Option", "None", [])
        ctx.notes["layers"] = (t, d)
        ctx.notes["script"] = [Agg("ExitStatus", "Code", [mk_int(0, "i32")])]
        ctx.notes["kinds"] = ["Code"]
        # the skip code must not end the run before the runner is observed: any code but the effective one
        tc = mk_struct("TestCase", title=StringBuf([]), shell_expression=StringBuf([SInt(ord("x"), "char")]), expectations=VecBuf([]),
                       exit_code=Agg("Option", "None", []), line_number=mk_int(1, "usize"), config=t)
        doc = mk_struct("DocumentConfig", append=VecBuf([]), defaults=d, prepend=VecBuf([]), shell=Agg("Option", "None", []),
                        total_timeout=Agg("Option", "None", []))
        from mir_exec import Opaque
        cx = mk_struct("Context", work_directory=Opaque("work"), temp_directory=Opaque("tmp"), file=Opaque("file"), config=doc)
        return [[tc], cx]

    def drive(ctx, args):
        """StatefulExecutor::execute_all on one test case; the runner stub records the configuration it is given"""
        return X.execute_all(ctx, args[0], args[1])

    def post(ctx, args, kind, value):
        if kind != "return":
            return False
        runs = ctx.notes.get("runs", [])
        if len(runs) != 1:
            return False
        got = runs[0]["cfg"]
        t, d = ctx.notes["layers"]
        conds = []
        for key in ("detached", "keep_crlf", "output_stream", "skip_document_code", "strip_ansi_escaping"):
            conds.append(opt_same(ctx, field_of(got, key), spec_or(ctx, field_of(t, key), field_of(d, key))))
        probe = ctx.notes["probe"]
        conds.append(env_spec(ctx, field_of(got, "environment"), field_of(t, "environment"), field_of(d, "environment"), probe))
        return z_and(conds)

    def setup2(ctx):
        args = setup(ctx)
        probe = ctx.sym_char("probe", 1)
        ctx.add(z3.Or([probe.z() == ord(x) for x in "ABC"]))
        ctx.notes["probe"] = probe
        return args
    h = e2.Harness("document_defaults_in_executor", drive, [("1 test case, symbolic inline configuration and document defaults", setup2)], post, native=None, judge=None,
                   describe="the configuration the runner is given: detached / keep_crlf / output_stream / skip_document_code / strip_ansi_escaping and every "
                            "variable from the test case if set there, else from the document's defaults",
                   bound="all inline configurations × all document defaults (every key set / unset, any value; 1 variable each over {A,B,C}); wait unset; "
                         "timeout is C14's subject")

    def models():
        m = X.ExecModels(prog)
        X.install_clone_override(prog, m)
        return m
    h.models_cls = models
    return h


def inline_text(inline):
    parts = []
    if inline.get("keep_crlf") is not None:
        parts.append("keep_crlf: %s" % ("true" if inline["keep_crlf"] else "false"))
    if inline.get("output_stream") is not None:
        parts.append("output_stream: %s" % inline["output_stream"].lower())
    if inline.get("skip_document_code") is not None and 0 <= inline["skip_document_code"] < 256:
        parts.append("skip_document_code: %d" % inline["skip_document_code"])
    if inline.get("strip_ansi_escaping") is not None:
        parts.append("strip_ansi_escaping: %s" % ("true" if inline["strip_ansi_escaping"] else "false"))
    return " {%s}" % ", ".join(parts) if parts else ""


def cli_layer_native(inline, flags, pre=None, app=None):
    """real `scrut test -r json` on a failing one-test document (optionally with a prepend and an append document, one failing test case each)
    with the inline configurations and flags of a witness → per test case the configuration scrut reports, and the one the statement prescribes"""
    import json
    import os
    import shutil
    import subprocess
    import tempfile
    from common import SCRUT_BIN
    layers = {"a0": inline}
    if pre is not None:
        layers["p0"] = pre
    if app is not None:
        layers["q0"] = app
    tmp = tempfile.mkdtemp(prefix="verif-c16-")
    try:
        fm = []
        if pre is not None:
            fm.append("prepend: [pre.md]")
        if app is not None:
            fm.append("append: [app.md]")
        block = lambda title, inl: "%s\n\n```scrut%s\n$ echo hello\nnope\n```\n" % (title, inline_text(inl))
        with open(os.path.join(tmp, "d.md"), "w") as fh:
            fh.write(("---\n%s\n---\n\n" % "\n".join(fm) if fm else "") + block("a0", inline))
        if pre is not None:
            open(os.path.join(tmp, "pre.md"), "w").write(block("p0", pre))
        if app is not None:
            open(os.path.join(tmp, "app.md"), "w").write(block("q0", app))
        argv = [SCRUT_BIN, "test", "-r", "json", "d.md"]
        for name in ("combine_output", "no_combine_output", "keep_output_crlf", "no_keep_output_crlf", "cram_compat", "keep_temporary_directories"):
            if flags.get(name):
                argv.append("--" + name.replace("_", "-"))
        r = subprocess.run(argv, cwd=tmp, stdout=subprocess.PIPE, stderr=subprocess.PIPE, text=True, timeout=60)
        try:
            cfgs = {o["testcase"]["title"]: o["testcase"]["config"] for o in json.loads(r.stdout)}
        except Exception:
            return None, None, {"argv": argv[1:], "exit": r.returncode, "stdout": r.stdout[-300:], "stderr": r.stderr[-300:]}
    finally:
        shutil.rmtree(tmp, ignore_errors=True)
    got, want = {}, {}
    os_cli = [x for x, f in (("stdout", "no_combine_output"), ("combined", "combine_output")) if flags.get(f)]
    crlf_cli = [x for x, f in ((False, "no_keep_output_crlf"), (True, "keep_output_crlf")) if flags.get(f)]
    for title, inl in layers.items():
        cfg = cfgs.get(title)
        if cfg is None:
            return None, None, {"argv": argv[1:], "configs": cfgs}
        # the format's defaults are the lowest layer: Markdown's, or Cram's under --cram-compat
        fmt_stream, fmt_crlf = ("Combined", True) if flags.get("cram_compat") else ("Stdout", False)
        want[title + ".output_stream"] = os_cli or [(inl.get("output_stream") or fmt_stream).lower()]
        want[title + ".keep_crlf"] = crlf_cli or [inl["keep_crlf"] if inl.get("keep_crlf") is not None else fmt_crlf]
        got[title + ".output_stream"] = cfg.get("output_stream")
        got[title + ".keep_crlf"] = cfg.get("keep_crlf", False)
    return got, want, {"argv": argv[1:], "configs": cfgs}


def run_cli_layer(rep, tier):
    from common import build_scrut_bin
    from props import c20
    prog, _s = c20.load_bin_program()
    build_scrut_bin()
    h = h_cli_layer(prog)
    res = e2.run_with_raw(prog, h, max_witnesses=6)
    for model, r in res.raw_witnesses[:6]:
        inline = tcc_to_json(r.ctx.notes["layers"]["test"], model)
        flags = {k: bool(z3.is_true(model.eval(v.z(), model_completion=True))) for k, v in r.ctx.notes["cli"].items() if k != "timeout_seconds"}
        pre = tcc_to_json(r.ctx.notes["extra_layers"]["pre"], model)
        app = tcc_to_json(r.ctx.notes["extra_layers"]["app"], model)
        got, want, obs = cli_layer_native(inline, flags, pre, app)
        if got is None and flags.get("cram_compat"):
            # the single-script executor refuses test cases whose configurations differ: replay with the document's own configuration throughout
            pre = app = inline
            got, want, obs = cli_layer_native(inline, flags, pre, app)
        short = lambda d: {k: v for k, v in d.items() if v not in (None, [])}
        what = "inline configurations %s (own) / %s (prepend) / %s (append) with flags %s" % (short(inline), short(pre), short(app), [k for k, v in flags.items() if v])
        if got is not None and any(got[k] not in want[k] for k in got):
            rep.violation("cli-layer:" + "+".join(k for k in got if got[k] not in want[k]),
                          "`scrut test` on test cases with %s runs them with %s, the command line / test case prescribe %s" % (what, got, want),
                          {"kind": "scrut-test-run", "observation": obs, "harness": h.name})
        else:
            rep.violation("cli-layer:mir-only", "commands::test::Args::run hands the executor a configuration that is not `command line over test case` for %s "
                          "(decided on its MIR; the end-to-end run shows output_stream / keep_crlf as prescribed: the difference is in another key, "
                          "the variables or total_timeout)" % what, {"kind": "mir-only", "inline": inline, "flags": flags, "observation": obs, "harness": h.name})
    e2.record(rep, h, res, status=("violated" if res.witnesses else ("undecided" if res.unsupported else "holds")))
    for u in res.unsupported[:3]:
        rep.undecided.append(u)
    # the observation channel itself: a few plain runs must show what the statement prescribes
    bad = 0
    rows = [({}, {}), ({"output_stream": "Stderr"}, {"combine_output": True}), ({"keep_crlf": True}, {"no_keep_output_crlf": True}),
            ({"output_stream": "Combined", "keep_crlf": True}, {}), ({}, {"no_combine_output": True, "keep_output_crlf": True}),
            ({"output_stream": "Stdout", "keep_crlf": False}, {"cram_compat": True}), ({}, {"cram_compat": True})]
    for inline, flags in rows:
        others = (inline, inline) if flags.get("cram_compat") else ({"output_stream": "Stderr"}, {"keep_crlf": True})
        got, want, obs = cli_layer_native(inline, flags, *others)
        if got is None or any(got[k] not in want[k] for k in got):
            bad += 1
            rep.violation("cli-layer:native", "`scrut test` with inline %s and flags %s runs the test case with %s, prescribed %s" % (inline, flags, got, want),
                          {"kind": "scrut-test-run", "observation": obs, "harness": "end-to-end sample"})
    bad += timeout_seconds_samples(rep, rows)
    rep.subclaims[-1]["concrete_validation"] = {"inputs": len(rows), "mismatches": bad, "function": "real `scrut test -r json` runs; configuration read from the reported test case"}


def timeout_seconds_samples(rep, rows):
    """--timeout-seconds is the command line's total_timeout, with and without documents named on the command line → number of bad runs"""
    bad = 0
    import os
    import shutil
    import subprocess
    import tempfile
    from common import SCRUT_BIN
    tmp = tempfile.mkdtemp(prefix="verif-c16t-")
    try:
        open(os.path.join(tmp, "slow.md"), "w").write("# slow\n\n```scrut\n$ sleep 3\n```\n")
        open(os.path.join(tmp, "extra.md"), "w").write("# extra\n\n```scrut\n$ true\n```\n")
        for extra in ([], ["--append-test-file-paths", "extra.md"], ["--prepend-test-file-paths", "extra.md"]):
            t0 = time.time()
            r = subprocess.run([SCRUT_BIN, "test", "-r", "json", "slow.md", "--timeout-seconds", "1"] + extra, cwd=tmp, stdout=subprocess.PIPE, stderr=subprocess.PIPE, text=True, timeout=60)
            took = time.time() - t0
            rows.append(("timeout-seconds", extra))
            if r.returncode != 50 or took > 2.8:
                bad += 1
                rep.violation("cli-layer:timeout-seconds-lost", "`scrut test slow.md --timeout-seconds 1 %s` on a document that sleeps 3 s ends with exit status %d after %.1f s "
                              "(expected: stopped after 1 s, exit status 50)" % (" ".join(extra), r.returncode, took),
                              {"kind": "scrut-test-run", "observation": {"argv": ["test", "-r", "json", "slow.md", "--timeout-seconds", "1"] + extra, "exit": r.returncode,
                                                                         "seconds": round(took, 1), "stdout_tail": r.stdout[-300:]}, "harness": "end-to-end sample"})
    finally:
        shutil.rmtree(tmp, ignore_errors=True)
    return bad


def run_timeout_seconds(rep, tier):
    """C14: how --timeout-seconds reaches the document configuration (bin crate MIR) + end-to-end samples"""
    from common import build_scrut_bin
    from props import c20
    prog, _s = c20.load_bin_program()
    build_scrut_bin()
    h = h_cli_layer(prog, only_timeout=True)
    res = e2.run_with_raw(prog, h, max_witnesses=3)
    rows = []
    bad = timeout_seconds_samples(rep, rows)
    for model, r in res.raw_witnesses[:3]:
        if not bad:
            rep.violation("timeout-seconds:mir-only", "commands::test::Args::run hands the executor a document configuration whose total_timeout is not "
                          "`--timeout-seconds over the document's` (decided on its MIR; the end-to-end samples with --timeout-seconds 1 behave)",
                          {"kind": "mir-only", "harness": h.name})
    e2.record(rep, h, res, status=("violated" if res.witnesses else ("undecided" if res.unsupported else "holds")))
    for u in res.unsupported[:3]:
        rep.undecided.append(u)
    rep.subclaims[-1]["concrete_validation"] = {"inputs": len(rows), "mismatches": bad, "function": "real `scrut test --timeout-seconds 1` runs on a document that sleeps 3 s"}


def run_exec_layer(rep, prog, nat):
    h = h_exec_layer(prog)
    res = e2.run_with_raw(prog, h, max_witnesses=6)
    keys = ("detached", "keep_crlf", "output_stream", "skip_document_code", "strip_ansi_escaping")
    for model, r in res.raw_witnesses[:6]:
        t, d = (tcc_to_json(x, model) for x in r.ctx.notes["layers"])
        w = {"tests": [{"config": t}], "defaults": d, "script": [{"status": "Code", "code": 0}], "total_timeout": None}
        nk, nv = nat.call("execute_all", [w])
        got = nv["runs"][0]["config"] if nk == "return" and nv.get("runs") else None
        if got is None:
            rep.mismatches.append("%s: native run of the witness gave %s" % (h.name, str(nv)[:200]))
            continue
        bad = [k for k in keys if got.get(k) != (t.get(k) if t.get(k) is not None else d.get(k))]
        env_want = dict((k, v) for k, v in d["environment"])
        env_want.update(dict((k, v) for k, v in t["environment"]))
        env_got = dict((k, v) for k, v in got["environment"] if k != "SCRUT_TEST")
        if env_got != env_want:
            bad.append("environment")
        if bad:
            rep.violation("executor-layer:" + "+".join(bad), "a test case with inline configuration %s in a document with defaults %s is run with %s: "
                          "key(s) %s do not follow `test case, else document defaults`" % (t, d, got, bad),
                          {"kind": "eval", "fn": "execute_all", "args": [w], "native": [nk, nv], "harness": h.name})
        else:
            rep.mismatches.append("%s: solver witness did not reproduce natively: %s / %s → %s" % (h.name, t, d, got))
    e2.record(rep, h, res)


def run(pid, tier):
    global NAT
    rep = Report(pid, tier, "other")
    build_native()
    mir, mir_s = e2.dump_mir("lib")
    prog = load_program(mir, e2.REPO + "/src")
    NAT = e2.NativeEval()
    q = tier == "quick"
    sizes = [0, 1, 2] if q else [0, 1, 2, 3]
    for op in ("defaults", "overrides"):
        h = h_pairwise(sizes, op)
        res = e2.run_with_raw(prog, h)
        replay_tcc(rep, h, res, op, lambda args: args[:2])
        e2.record(rep, h, res)
    h = h_assoc([0, 1] if q else [0, 1, 2])
    res = e2.run_with_raw(prog, h)
    for model, r in res.raw_witnesses[:3]:
        js = [tcc_to_json(x, model) for x in r.ctx.notes["args"][:3]]
        k1, v1 = NAT.call("tcc_merge", ["defaults", js])
        k2, v2 = NAT.call("tcc_merge", ["defaults_right", js])
        if (k1, v1) != (k2, v2):
            rep.violation("config-associativity", "(a.wd(b)).wd(c) != a.wd(b.wd(c)) for %s: %s vs %s" % (js, v1, v2),
                          {"kind": "eval", "fn": "tcc_merge", "args": ["defaults", js], "native": [k1, v1, k2, v2]})
        else:
            rep.mismatches.append("tcc_associative: solver witness did not reproduce natively: %s" % js)
    e2.record(rep, h, res)
    h = h_identity()
    res = e2.run_with_raw(prog, h)
    for model, r in res.raw_witnesses[:3]:
        js = tcc_to_json(r.ctx.notes["args"][0], model)
        empty = {"environment": []}
        k1, v1 = NAT.call("tcc_merge", ["defaults", [js, empty]])
        k2, v2 = NAT.call("tcc_merge", ["defaults", [empty, js]])
        norm = NAT.call("tcc_merge", ["defaults", [js]])[1]
        if v1 != norm or v2 != norm:
            rep.violation("config-identity", "an empty layer changes the configuration %s: %s / %s" % (js, v1, v2),
                          {"kind": "eval", "fn": "tcc_merge", "args": ["defaults", [js, empty]], "native": [k1, v1, k2, v2]})
        else:
            rep.mismatches.append("tcc_empty_is_identity: solver witness did not reproduce natively: %s" % js)
    e2.record(rep, h, res)
    h = h_doc_lists(1 if q else 2)
    res = e2.run_with_raw(prog, h)
    for model, r in res.raw_witnesses[:3]:
        s, d = r.ctx.notes["args"][:2]

        def docjs(v):
            o2 = to_symopt(field_of(v, "shell"))
            o3 = to_symopt(field_of(v, "total_timeout"))
            pres = lambda o: o.present.v if o.present.concrete else bool(z3.is_true(model.eval(o.present.z(), model_completion=True)))
            return {"append": [e2.to_py(x, model) for x in field_of(v, "append").items],
                    "prepend": [e2.to_py(x, model) for x in field_of(v, "prepend").items],
                    "shell": e2.to_py(o2.fields[0], model) if pres(o2) else None,
                    "total_timeout": str(e2.model_int(model, o3.fields[0].fields[0])) if pres(o3) else None,
                    "defaults": tcc_to_json(field_of(v, "defaults"), model)}
        js = [docjs(s), docjs(d)]
        nk, nv = NAT.call("doc_merge", ["defaults", js])
        bad = []
        if nk != "return":
            bad.append("panic")
        else:
            if nv["append"] != js[1]["append"] + js[0]["append"]:
                bad.append("append")
            if nv["prepend"] != js[0]["prepend"] + js[1]["prepend"]:
                bad.append("prepend")
            for k in ("shell", "total_timeout"):
                if nv[k] != (js[0][k] if js[0][k] is not None else js[1][k]):
                    bad.append(k)
        if bad:
            rep.violation("doc-config:%s" % "+".join(bad), "DocumentConfig::with_defaults_from: %s wrong for layers %s → %s" % (bad, js, nv),
                          {"kind": "eval", "fn": "doc_merge", "args": ["defaults", js], "native": [nk, nv]})
        else:
            # the nested defaults are TestCaseConfig layering: judged by the tcc harness' replay
            dk, dv = NAT.call("tcc_merge", ["defaults", [js[0]["defaults"], js[1]["defaults"]]])
            if dv != nv["defaults"]:
                rep.violation("doc-config:defaults", "DocumentConfig defaults are not layered with with_defaults_from: %s" % js,
                              {"kind": "eval", "fn": "doc_merge", "args": ["defaults", js], "native": [nk, nv]})
            else:
                rep.mismatches.append("doc_lists_and_scalars: solver witness did not reproduce natively (or is the TestCaseConfig finding): %s" % js)
    e2.record(rep, h, res)
    # where the document's defaults are applied: the executor
    run_exec_layer(rep, prog, NAT)
    NAT.close()
    # where the command-line layer is applied: the test command (bin crate)
    run_cli_layer(rep, tier)
    # a mismatch that merely repeats an already confirmed TestCaseConfig violation inside DocumentConfig.defaults is not an encoding problem
    if rep.violations or rep.known_hits:
        rep.mismatches = [m for m in rep.mismatches if "TestCaseConfig finding" not in m]
    tot_paths = sum(s.get("paths", 0) for s in rep.subclaims)
    rep.coverage.update({
        "explanation": "SMT decision (z3) over symbolic execution of the MIR of the merge functions with fully symbolic "
                       "configuration layers (symbolic Option presence, symbolic environment names/values); the 4-layer "
                       "statement follows from the pairwise law + associativity + identity, each decided here. "
                       "Where the command-line layer is applied is decided on the MIR of commands::test::Args::run (what reaches the "
                       "executor = flags over the test case's inline configuration; --timeout-seconds over the document's total_timeout), "
                       "replayed through the real binary; where the document's defaults are applied on the MIR of StatefulExecutor::execute_all "
                       "(what the runner is given). The parser's format defaults are C06/C07's subject.",
        "functions_encoded": ["TestCaseConfig::with_defaults_from", "TestCaseConfig::with_overrides_from", "TestCaseConfig::empty",
                              "<TestCaseConfig as Default>::default", "DocumentConfig::with_defaults_from", "scrut(bin)::commands::test::Args::run",
                              "Args::to_testcase_config / to_document_config", "GlobalSharedParameters::to_testcase_config / to_document_config"],
        "evaluations": tot_paths, "distinct_nontrivial": max(tot_paths, 2),
        "rule": "one case = one feasible path of the MIR for one pair/triple of symbolic layers (paths differ by environment-key equalities)",
        "samples": [s for sc in rep.subclaims for s in sc.get("samples", [])][:4] or ["symbolic layers: see subclaims"],
        "mir_dump_s": round(mir_s, 1),
    })
    rep.assumptions += ["std contract models: Option::{or,or_else,clone}, BTreeMap::{clone,into_iter,insert}, Iterator::{chain,collect} "
                        "(collect into a map = insert in iteration order, later wins), Vec::{clone,extend}",
                        "environment names and values range over {A,B,C} (1 char); map keys within one layer are distinct"]
    return rep.finish()
