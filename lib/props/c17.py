"""C17 (partial) — `TestCaseConfig::to_yaml_one_liner` writes environment values and the `wait.path` so that a YAML reader gets the
same text back.  Decided on the MIR of the renderer against the YAML 1.2 quoting rules for the rendered pieces:
  * an environment entry must be `NAME: "<q(value)>"` with q = `\\` → `\\\\`, `"` → `\\"` (values over {a, ", \\, :, space});
  * a path must be double-quoted like that, or be a plain scalar that the flow mapping cannot mistake: over {a, /, ., ',', '}', '"'}
    a plain path is safe iff it contains no ',' and no '}', does not start with '"', has no leading/trailing blank and does not
    start with '- '.
Each witness is replayed through the real round trip (to_yaml_one_liner → ```scrut {…} → MarkdownParser → compare configurations);
durations (humantime), the other keys, document front-matter and serde_yaml itself are outside."""
import random
import re

import z3

import e2
from common import Report, build_native, seed
from mir_exec import (Agg, MapBuf, Opaque, SBool, SInt, Slice, Str, StringBuf, SymOpt, Unsupported, VecBuf, field_of, find_method,
                      load_program, mk_int, mk_struct, new_ref)
from mir_models import Models, as_str, char_eq, deref, none, some, z_and, z_not, z_or

NAT = None
VAL_ALPHA = 'a"\\: '
PATH_ALPHA = 'a/.,}" -'


class YamlModels(Models):
    def __init__(self):
        super().__init__()
        ins = lambda pat, fn: self.table.insert(0, (re.compile("^(?:%s)$" % pat), fn))
        # humantime is an external crate: its formatter is an injective function of the duration it is given.  Each call yields a
        # one-character token (private-use area) and the harness records which duration it stands for — what scrut passes in is the subject.
        def format_duration(c, m, a):
            calls = c.notes.setdefault("fmt_calls", [])
            calls.append(deref(a[0]))
            return Str([SInt(0xE000 + len(calls) - 1, "char")])
        ins(r"humantime::format_duration|format_duration", format_duration)
        ins(r"<FormattedDuration as ToString>::to_string|<humantime::FormattedDuration as ToString>::to_string", lambda c, m, a: StringBuf(list(as_str(a[0]).chars)))
        ins(r"Path::to_string_lossy|PathBuf::to_string_lossy", lambda c, m, a: Agg("Cow", "Borrowed", [as_str(deref(a[0]))]))
        ins(r"<PathBuf as Deref>::deref", lambda c, m, a: a[0])
        def to_lowercase(c, m, a):
            out = []
            for ch in as_str(a[0]).chars:
                if not ch.concrete:
                    raise Unsupported("to_lowercase of symbolic text")
                out.append(SInt(ord(chr(ch.v).lower()) if len(chr(ch.v).lower()) == 1 else ch.v, "char"))
            return StringBuf(out)
        ins(r"core::str::<impl str>::to_lowercase", to_lowercase)


def sym_text(ctx, name, n, alphabet):
    chars = [ctx.sym_char("%s%d" % (name, i), 1) for i in range(n)]
    for ch in chars:
        ctx.add(z3.Or([ch.z() == ord(x) for x in alphabet]))
    return chars


def find_sub(hay, needle_prefix):
    """index right after the first concrete occurrence of the text `needle_prefix` in a char list, or -1"""
    k = len(needle_prefix)
    for i in range(0, len(hay) - k + 1):
        if all(c.concrete and c.v == ord(x) for c, x in zip(hay[i:i + k], needle_prefix)):
            return i + k
    return -1


def quoted_ok(rest, value):
    """formula: `rest` starts with q(value) followed by a closing quote"""
    # walk value and rest together; each value char consumes 1 or 2 rendered chars
    alts = [(0, True)]
    for v in value:
        nxt = []
        for pos, cond in alts:
            special = z_or([char_eq(v, SInt(ord('"'), "char")), char_eq(v, SInt(92, "char"))])
            # plain char
            if pos < len(rest):
                c1 = z_and([cond, z_not(special), char_eq(rest[pos], v)])
                if c1 is not False:
                    nxt.append((pos + 1, c1))
            if pos + 1 < len(rest):
                c2 = z_and([cond, special, char_eq(rest[pos], SInt(92, "char")), char_eq(rest[pos + 1], v)])
                if c2 is not False:
                    nxt.append((pos + 2, c2))
        alts = nxt
    out = []
    for pos, cond in alts:
        if pos < len(rest):
            out.append(z_and([cond, char_eq(rest[pos], SInt(ord('"'), "char"))]))
    return z_or(out)


SPECIAL_CHARS = ["\u00a0", "\u0301", "\u200d", "\u00e9", "\u3000"]    # no-break space, combining acute, zero-width joiner, é, wide space


def h_env(max_len):
    def mk(n, special=None, pos=0):
        def setup(ctx):
            val = sym_text(ctx, "v", n, VAL_ALPHA)
            if special is not None:
                val = val[:pos] + [SInt(ord(special), "char")] + val[pos:]
            ctx.notes["value"] = val
            cfg = mk_struct("TestCaseConfig", detached=none(), environment=MapBuf([[StringBuf([SInt(ord("K"), "char")]), StringBuf(val)]]),
                            keep_crlf=none(), output_stream=none(), skip_document_code=none(), strip_ansi_escaping=none(), timeout=none(), wait=none())
            return [new_ref(cfg)]
        return setup

    def post(ctx, args, kind, value):
        if kind != "return":
            return False
        text = list(as_str(value).chars)
        k = find_sub(text, 'K: "')
        if k < 0:
            return False
        return quoted_ok(text[k:], ctx.notes["value"])

    def judge(a, nk, nv):
        return False, "", ""
    inputs = [("value chars=%d" % n, mk(n)) for n in range(0, max_len + 1)]
    inputs += [("value chars=%d with U+%04X at %d" % (n + 1, ord(sp), pos), mk(n, sp, pos)) for sp in SPECIAL_CHARS for n in range(0, min(max_len, 2) + 1) for pos in range(0, n + 1)]
    h = e2.Harness("one_liner_environment_value", "TestCaseConfig::to_yaml_one_liner", inputs, post, native="one_liner_roundtrip", judge=judge,
                   describe='environment entry is NAME: "<value with \\\\ and \\" escaped>"',
                   bound="one variable, values of <= %d chars over %r; values of <= 3 chars with one of %s at any position"
                         % (max_len, VAL_ALPHA, ["U+%04X" % ord(c) for c in SPECIAL_CHARS]))
    h.models_cls = YamlModels
    return h


def h_path(max_len):
    def mk(n):
        def setup(ctx):
            p = sym_text(ctx, "p", n, PATH_ALPHA)
            ctx.notes["path"] = p
            wait = mk_struct("TestCaseWait", timeout=Agg("Duration", None, [mk_int(10 ** 9, "nat")]), path=some(Str(p)))
            cfg = mk_struct("TestCaseConfig", detached=none(), environment=MapBuf([]), keep_crlf=none(), output_stream=none(),
                            skip_document_code=none(), strip_ansi_escaping=none(), timeout=none(), wait=some(wait))
            return [new_ref(cfg)]
        return setup

    def post(ctx, args, kind, value):
        if kind != "return":
            return False
        text = list(as_str(value).chars)
        p = ctx.notes["path"]
        k = find_sub(text, "path: ")
        if k < 0:
            return False
        rest = text[k:]
        # either properly double-quoted …
        q = False
        if rest and rest[0].concrete and rest[0].v == ord('"'):
            q = quoted_ok(rest[1:], p)
        # … or verbatim and plain-safe
        verbatim = len(rest) >= len(p) and z_and([char_eq(x, y) for x, y in zip(rest, p)])
        sp = SInt(32, "char")
        safe = z_and([z_not(z_or([char_eq(c, SInt(ord(","), "char")), char_eq(c, SInt(ord("}"), "char"))])) for c in p]
                     + ([z_not(char_eq(p[0], SInt(ord('"'), "char"))), z_not(char_eq(p[0], sp)), z_not(char_eq(p[-1], sp)),
                         # a leading "- " starts a sequence entry, a lone "-" is fine only as part of a longer word
                         (z_not(z_and([char_eq(p[0], SInt(ord("-"), "char")), char_eq(p[1], sp)])) if len(p) > 1 else True)] if p else [False]))
        return z_or([q, z_and([verbatim, safe])])
    inputs = [("path chars=%d" % n, mk(n)) for n in range(1, max_len + 1)]
    h = e2.Harness("one_liner_wait_path", "TestCaseConfig::to_yaml_one_liner", inputs, post, native="one_liner_roundtrip", judge=lambda a, k, v: (False, "", ""),
                   describe="wait.path is double-quoted with escapes, or a plain scalar without ',' '}' and not starting with '\"'",
                   bound="paths of 1..%d chars over %r" % (max_len, PATH_ALPHA))
    h.models_cls = YamlModels
    return h


def h_durations():
    """timeout and wait.timeout of any length are rendered by humantime's formatter applied to exactly that duration"""
    def nanos(d):
        return deref(d).fields[0]

    def setup(ctx):
        t = Agg("Duration", None, [ctx.sym_int("timeout_ns", "nat")])
        w = Agg("Duration", None, [ctx.sym_int("wait_ns", "nat")])
        for d in (t, w):
            ctx.add(nanos(d).z() < 400 * 86400 * 10 ** 9)       # up to 400 days
        ctx.notes["durations"] = (t, w)
        wait = mk_struct("TestCaseWait", timeout=w, path=none())
        cfg = mk_struct("TestCaseConfig", detached=none(), environment=MapBuf([]), keep_crlf=none(), output_stream=none(),
                        skip_document_code=none(), strip_ansi_escaping=none(), timeout=some(t), wait=some(wait))
        return [new_ref(cfg)]

    def post(ctx, args, kind, value):
        if kind != "return":
            return False
        text = list(as_str(value).chars)
        calls = ctx.notes.get("fmt_calls", [])
        t, w = ctx.notes["durations"]
        conds = []
        for key, d in (("timeout: ", t), ("wait: ", w)):
            k = find_sub(text, key)
            if k < 0 or k >= len(text) or not text[k].concrete or not (0xE000 <= text[k].v < 0xE000 + len(calls)):
                return False              # the key is missing, or its value is not one formatted duration
            if k + 1 < len(text) and not (text[k + 1].concrete and chr(text[k + 1].v) in ",}"):
                return False              # something else is glued to it
            conds.append(nanos(calls[text[k].v - 0xE000]).z() == nanos(d).z())
        return z3.And(conds)
    h = e2.Harness("one_liner_durations", "TestCaseConfig::to_yaml_one_liner", [("timeout and wait of any length", setup)], post, native="one_liner_roundtrip",
                   judge=lambda a, k, v: (False, "", ""),
                   describe="timeout / wait are written as humantime's rendering of exactly the configured duration (humantime::format_duration is an "
                            "injective black box; what scrut passes to it is decided)",
                   bound="all durations below 400 days (nanosecond resolution) for timeout and wait")
    h.models_cls = YamlModels
    return h


CODES = [0, 7, 80, 255, -1, 2147483647]


def h_scalars():
    """every scalar key of the one-line form: written iff set, with the spelling the reader understands"""
    from mir_exec import SymEnum, ENUMS

    def mk(oi, ci):
        return lambda ctx: setup(ctx, oi, ci)

    def setup(ctx, oi, ci):
        # values are concrete (they are formatted as text): one input per stream / code, Booleans forked; presence stays symbolic
        names = ENUMS["OutputStreamControl"]
        from mir_exec import mk_int as _mi
        bools = {n: SBool(ctx.decide(ctx.sym_bool(n).z())) for n in ("det", "crlf", "ansi")}
        so = lambda name, payload: SymOpt(ctx.sym_bool(name + "_set"), payload)
        cfg = mk_struct("TestCaseConfig", detached=so("det", bools["det"]), environment=MapBuf([]), keep_crlf=so("crlf", bools["crlf"]),
                        output_stream=so("osc", Agg("OutputStreamControl", names[oi], [])), skip_document_code=so("skip", _mi(CODES[ci] & 0xFFFFFFFF, "i32")),
                        strip_ansi_escaping=so("ansi", bools["ansi"]), timeout=none(), wait=none())
        ctx.notes["cfg"] = cfg
        ctx.notes["values"] = {"detached": bools["det"].v, "keep_crlf": bools["crlf"].v, "strip_ansi_escaping": bools["ansi"].v,
                               "output_stream": names[oi].lower(), "skip_document_code": CODES[ci]}
        return [new_ref(cfg)]

    def post(ctx, args, kind, value):
        if kind != "return":
            return False
        from mir_models import to_symopt
        text = "".join(chr(c.v) if c.concrete else "?" for c in as_str(value).chars)
        if not (text.startswith("{") and text.endswith("}")):
            return False
        parts = [p for p in text[1:-1].split(", ") if p]
        got = {}
        for p_ in parts:
            if ": " not in p_:
                return False
            k, v = p_.split(": ", 1)
            if k in got:
                return False
            got[k] = v
        cfg = ctx.notes["cfg"]
        conds = []
        osc_names = [n.lower() for n in ENUMS["OutputStreamControl"]]
        for key in ("detached", "keep_crlf", "strip_ansi_escaping", "output_stream", "skip_document_code"):
            o = to_symopt(field_of(cfg, key))
            present = o.present.z()
            if key not in got:
                conds.append(z3.Not(present))
                continue
            conds.append(present)
            want = ctx.notes["values"][key]
            want = ("true" if want else "false") if isinstance(want, bool) else str(want)
            if got[key] != want:
                return False
        if set(got) - {"detached", "keep_crlf", "strip_ansi_escaping", "output_stream", "skip_document_code"}:
            return False
        return z3.And(conds)
    inputs = [("stream=%s code=%d, every subset of the keys, both Booleans" % (ENUMS["OutputStreamControl"][oi], CODES[ci]), mk(oi, ci))
              for oi in range(len(ENUMS["OutputStreamControl"])) for ci in range(len(CODES))]
    h = e2.Harness("one_liner_scalar_keys", "TestCaseConfig::to_yaml_one_liner", inputs, post,
                   native="one_liner_roundtrip", judge=lambda a, k, v: (False, "", ""),
                   describe="detached / keep_crlf / strip_ansi_escaping / output_stream / skip_document_code are written iff set, as `key: value` with "
                            "true|false, the lower-case stream name and the decimal code",
                   bound="every subset of the five keys; both Booleans, all three streams, codes %s" % CODES)
    h.models_cls = YamlModels
    return h


def h_is_empty():
    """TestCaseConfig::is_empty decides whether a configuration is written at all (`create` / `--convert`, `defaults:` in front-matter)"""
    from props.c16 import sym_tcc, SCALARS
    from mir_models import to_symopt

    def setup(ctx):
        n = ctx.notes.get("env_n", 0)
        cfg = sym_tcc(ctx, "c", ctx.notes["env_n"]) if False else None
        return []

    def mk(env_n):
        def f(ctx):
            cfg = sym_tcc(ctx, "c", env_n)
            ctx.notes["cfg"] = cfg
            return [new_ref(cfg)]
        return f

    def post(ctx, args, kind, value):
        if kind != "return":
            return False
        cfg = ctx.notes["cfg"]
        none_set = z3.And([z3.Not(to_symopt(field_of(cfg, k)).present.z()) for k in SCALARS])
        want = z3.And(none_set, z3.BoolVal(len(field_of(cfg, "environment").entries) == 0))
        return (value.z() if not value.concrete else z3.BoolVal(bool(value.v))) == want
    h = e2.Harness("config_is_empty", "TestCaseConfig::is_empty", [("every subset of keys, %d variable(s)" % n, mk(n)) for n in (0, 1)], post,
                   native="tcc_is_empty", judge=lambda a, k, v: (False, "", ""),
                   describe="is_empty ⇔ no key is set and there is no variable: a configuration with any key set is written out",
                   bound="every subset of the seven scalar keys (any values), 0 or 1 variables")
    h.models_cls = YamlModels
    return h


def h_diff_then_defaults(prog):
    """what `create` / `--convert` writes is `config.diff(format default)`; reading it back layers the format default underneath again:
    diff(c, D).with_defaults_from(D) == c.with_defaults_from(D), key by key and variable by variable"""
    from props.c16 import SCALARS, env_lookup, opt_same, spec_or, sym_tcc, bool_iff

    def setup(ctx):
        c = sym_tcc(ctx, "c", 1)
        d = sym_tcc(ctx, "d", 0)          # the format's default: any scalar values, no variables (as both formats have it)
        ctx.notes["layers"] = (c, d)
        return [c, d]

    def drive(ctx, args):
        """TestCaseConfig::diff(&c, &D) then .with_defaults_from(&D)"""
        c, d = args
        diff = ctx.call(find_method(ctx.program, "src/config.rs", "diff"), [new_ref(c), new_ref(d)])
        ctx.notes["diff"] = diff
        wd = [n for n in ctx.program.funcs if re.search(r"src/config\.rs[^>]*>::with_defaults_from$", n)]
        fn = [n for n in wd if ctx.program.funcs[n].params and "TestCaseConfig" in ctx.program.funcs[n].params[0][1]]
        if len(fn) != 1:
            raise Unsupported("TestCaseConfig::with_defaults_from: %d candidates" % len(fn))
        return ctx.call(fn[0], [new_ref(diff), new_ref(d)])

    def post(ctx, args, kind, value):
        if kind != "return":
            return False
        c, d = ctx.notes["layers"]
        conds = [opt_same(ctx, field_of(value, k), spec_or(ctx, field_of(c, k), field_of(d, k))) for k in SCALARS]
        probe = deref(field_of(c, "environment").entries[0][0]).chars[0]
        fr, vr = env_lookup(ctx, field_of(value, "environment"), probe)
        fa, va = env_lookup(ctx, field_of(c, "environment"), probe)
        conds.append(z_and([bool_iff(fr, fa), z3.simplify(vr == va)]))
        return z_and(conds)
    h = e2.Harness("diff_against_format_default_loses_nothing", drive, [("fully symbolic configuration and format default", setup)], post, native=None, judge=None,
                   describe="the part of a configuration that is written (its difference to the format's default) layered over that default again is the "
                            "configuration layered over the default: no key and no variable is lost or changed by writing only the difference",
                   bound="every subset of the seven scalar keys in both layers (any values), one variable in the configuration, none in the default")
    h.models_cls = YamlModels
    return h


def replay_diff_then_defaults(rep, h, res):
    from props.c16 import tcc_to_json
    for model, r in res.raw_witnesses[:4]:
        c, d = (tcc_to_json(x, model) for x in r.ctx.notes["layers"])
        nk, nv = NAT.call("tcc_diff_defaults", [c, d])
        if nk != "return" or nv.get("equal") is not True:
            rep.violation("config-diff:key-lost", "configuration %s written as its difference to the default %s and layered over it again is %s, not %s"
                          % (c, d, nv.get("got") if isinstance(nv, dict) else nv, nv.get("want") if isinstance(nv, dict) else None),
                          {"kind": "eval", "fn": "tcc_diff_defaults", "args": [c, d], "native": [nk, nv], "harness": h.name})
        else:
            rep.mismatches.append("%s: solver witness %s / %s did not reproduce natively: %s" % (h.name, c, d, nv))


def h_serialize_keys(prog):
    """derived `Serialize for TestCaseConfig` (YAML front-matter `defaults`, json / yaml renderers) against a recording serializer:
    a key is written iff it is set — whatever its value"""
    from props.c16 import sym_tcc, SCALARS
    from mir_models import to_symopt, ok
    from mir_exec import UNIT, VecBuf as VB

    class SerModels(YamlModels):
        def __init__(self):
            super().__init__()
            ins = lambda pat, fn: self.table.insert(0, (re.compile("^(?:%s)$" % pat), fn))
            SER = r"<__S as (?:[a-z_:]+::)?Serializer>"
            ST = r"<" + SER + r"::SerializeStruct as (?:[a-z_:]+::)?SerializeStruct>"
            ins(SER + r"::serialize_struct", lambda c, m, a: ok(Agg("RecordingStruct", None, [a[2], VB([]), VB([])])))

            def field(c, m, a):
                deref(a[0]).fields[1].items.append(StringBuf(list(as_str(a[1]).chars)))
                return ok(UNIT)
            ins(ST + r"::serialize_field::<.*>", field)

            def skip(c, m, a):
                deref(a[0]).fields[2].items.append(StringBuf(list(as_str(a[1]).chars)))
                return ok(UNIT)
            ins(ST + r"::skip_field", skip)
            ins(ST + r"::end", lambda c, m, a: ok(deref(a[0])))

    def mk(env_n):
        def f(ctx):
            cfg = sym_tcc(ctx, "c", env_n)
            ctx.notes["cfg"] = cfg
            return [new_ref(cfg), Agg("RecordingSerializer", None, [])]
        return f

    def post(ctx, args, kind, value):
        if kind != "return" or value.variant != "Ok":
            return False
        rec = value.fields[0]
        written = ["".join(chr(c.v) for c in as_str(k).chars) for k in rec.fields[1].items]
        if len(set(written)) != len(written):
            return False
        cfg = ctx.notes["cfg"]
        conds = []
        for k in SCALARS:
            present = to_symopt(field_of(cfg, k)).present.z()
            conds.append(present if k in written else z3.Not(present))
        has_env = len(field_of(cfg, "environment").entries) > 0
        if ("environment" in written) != has_env:
            return False
        if set(written) - set(SCALARS) - {"environment"}:
            return False
        n = rec.fields[0]
        if not (n.concrete and n.v == len(written)):
            return False
        return z3.And(conds)
    fn = [n for n in prog.funcs if re.search(r"config::_::<impl at src/config\.rs[^>]*>::serialize$", n) and "&TestCaseConfig" in prog.funcs[n].params[0][1]]
    h = e2.Harness("serialize_writes_set_keys", fn[0] if len(fn) == 1 else "TestCaseConfig::serialize", [("every subset of keys, any values, %d variable(s)" % n, mk(n)) for n in (0, 1)],
                   post, native="tcc_yaml_roundtrip", judge=lambda a, k, v: (False, "", ""),
                   describe="the derived Serialize of TestCaseConfig writes exactly the keys that are set (any value), under their field names, and announces that number",
                   bound="every subset of the seven scalar keys with any values (codes: all i32), 0 or 1 variables")
    h.models_cls = SerModels
    return h


def replay_serialize(rep, h, res):
    from props.c16 import tcc_to_json
    for model, r in res.raw_witnesses[:4]:
        w = tcc_to_json(r.ctx.notes["cfg"], model)
        if isinstance(w.get("skip_document_code"), int) and w["skip_document_code"] >= 1 << 31:
            w["skip_document_code"] -= 1 << 32
        nk, nv = NAT.call("tcc_yaml_roundtrip", [w])
        set_keys = sorted(k for k, v in w.items() if v not in (None, []))
        if nk != "return" or not nv.get("equal"):
            rep.violation("yaml-rendering:%s" % "+".join(k for k in set_keys if k in str(nv.get("lost", set_keys))),
                          "the configuration %s rendered as YAML (%r) reads back as %s" % ({k: w[k] for k in set_keys}, nv.get("rendered") if isinstance(nv, dict) else nv,
                                                                                         nv.get("parsed") if isinstance(nv, dict) else ""),
                          {"kind": "eval", "fn": "tcc_yaml_roundtrip", "args": [w], "native": [nk, nv], "harness": h.name})
        else:
            rep.mismatches.append("%s: solver witness %s did not reproduce natively: %s" % (h.name, w, str(nv)[:200]))


def replay_is_empty(rep, h, res):
    from props.c16 import tcc_to_json
    for model, r in res.raw_witnesses[:4]:
        w = tcc_to_json(r.ctx.notes["cfg"], model)
        nk, nv = NAT.call("one_liner_roundtrip", [w, "generator"])
        set_keys = sorted(k for k, v in w.items() if v not in (None, []))
        if nk != "return" or not nv.get("equal"):
            rep.violation("config-dropped:%s" % "+".join(set_keys), "a test case whose configuration sets only %s is written by the Markdown generator as %r and read back as %s"
                          % (set_keys, nv.get("rendered") if isinstance(nv, dict) else nv, nv.get("parsed") if isinstance(nv, dict) else ""),
                          {"kind": "eval", "fn": "one_liner_roundtrip", "args": [w, "generator"], "native": [nk, nv], "harness": h.name})
        else:
            rep.mismatches.append("%s: solver witness %s did not reproduce natively: %s" % (h.name, w, str(nv)[:200]))


def replay_scalars(rep, h, res):
    from props.c16 import tcc_to_json
    for model, r in res.raw_witnesses[:4]:
        w = {k: v for k, v in tcc_to_json(r.ctx.notes["cfg"], model).items() if k in ("detached", "keep_crlf", "strip_ansi_escaping", "output_stream", "skip_document_code")}
        if isinstance(w.get("skip_document_code"), int) and w["skip_document_code"] >= 1 << 31:
            w["skip_document_code"] -= 1 << 32
        nk, nv = NAT.call("one_liner_roundtrip", [w])
        if nk != "return" or not nv.get("equal"):
            rep.violation("one-liner:scalar:%s" % "+".join(sorted(k for k, v in w.items() if v is not None)),
                          "configuration %s does not survive to_yaml_one_liner → parse: rendered %r, read back %s"
                          % (w, nv.get("rendered") if isinstance(nv, dict) else nv, nv.get("parsed") if isinstance(nv, dict) else ""),
                          {"kind": "eval", "fn": "one_liner_roundtrip", "args": [w], "native": [nk, nv], "harness": h.name})
        else:
            rep.mismatches.append("%s: solver witness %s did not reproduce natively: %s" % (h.name, w, nv))


def replay_durations(rep, h, res):
    for model, r in res.raw_witnesses[:4]:
        t, w = r.ctx.notes["durations"]
        # prefer witnesses whose sub-second / sub-minute parts are not zero: they show when a part is dropped
        s = z3.Solver()
        s.add(*r.pc)
        good = h.post(r.ctx, r.ctx.notes["args"], r.kind, r.value if r.kind == "return" else r.info)
        if not isinstance(good, bool):
            s.add(z3.Not(good))
        tn, wn = deref(t).fields[0].z(), deref(w).fields[0].z()
        cands = []
        for pref in ([tn % 10 ** 9 == 1000000, wn % 10 ** 9 == 1000000, (tn / 10 ** 9) % 60 == 5, (wn / 10 ** 9) % 60 == 5], [tn % 10 ** 9 != 0, wn % 10 ** 9 != 0], []):
            s.push()
            s.add(*pref)
            if s.check() == z3.sat:
                mm = s.model()
                cands.append((mm.eval(tn, model_completion=True).as_long(), mm.eval(wn, model_completion=True).as_long()))
            s.pop()
        done = False
        for tv, wv in cands:
            cfgw = {"timeout": str(tv), "wait": {"timeout": str(wv), "path": None}}
            nk, nv = NAT.call("one_liner_roundtrip", [cfgw])
            if nk != "return" or not nv.get("equal"):
                rep.violation("one-liner:duration", "timeout %d ns / wait %d ns do not survive to_yaml_one_liner → parse: rendered %r, read back %s"
                              % (tv, wv, nv.get("rendered") if isinstance(nv, dict) else nv, nv.get("parsed") if isinstance(nv, dict) else ""),
                              {"kind": "eval", "fn": "one_liner_roundtrip", "args": [cfgw], "native": [nk, nv], "harness": h.name})
                done = True
                break
        if not done:
            rep.mismatches.append("%s: solver witnesses %s did not reproduce natively" % (h.name, cands))


def replay(rep, h, res, kind):
    for model, r in res.raw_witnesses[:8]:
        if kind == "env":
            val = "".join(chr(e2.model_int(model, c)) for c in r.ctx.notes["value"])
            w = {"environment": [["K", val]]}
            what = "environment value %r" % val
            sig = "one-liner:env-value:%s" % ("quote" if '"' in val else "backslash" if "\\" in val else "other")
        else:
            p = "".join(chr(e2.model_int(model, c)) for c in r.ctx.notes["path"])
            w = {"wait": {"timeout": str(10 ** 9), "path": p}}
            what = "wait.path %r" % p
            sig = "one-liner:wait-path:%s" % ("comma-or-brace" if ("," in p or "}" in p) else "leading-quote" if p.startswith('"')
                                              else "outer-blank" if p != p.strip(" ") else "leading-dash" if p.startswith("-") else "other")
        nk, nv = NAT.call("one_liner_roundtrip", [w])
        if nk != "return" or not nv.get("equal"):
            rep.violation(sig, "%s does not survive to_yaml_one_liner → parse: rendered %r, read back %s" % (what, nv.get("rendered") if isinstance(nv, dict) else nv, nv.get("parsed") if isinstance(nv, dict) else ""),
                          {"kind": "eval", "fn": "one_liner_roundtrip", "args": [w], "native": [nk, nv], "harness": h.name})
        else:
            rep.mismatches.append("%s: solver witness %s did not reproduce natively: %s" % (h.name, w, nv))


def run(pid, tier):
    global NAT
    rep = Report(pid, tier, "other")
    build_native()
    mir, mir_s = e2.dump_mir("lib")
    prog = load_program(mir, e2.REPO + "/src")
    NAT = e2.NativeEval()
    q = tier == "quick"
    for kind, h in (("env", h_env(3 if q else 4)), ("path", h_path(3 if q else 4))):
        res = e2.run_with_raw(prog, h)
        replay(rep, h, res, kind)
        e2.record(rep, h, res)
    hy = h_serialize_keys(prog)
    resy = e2.run_with_raw(prog, hy)
    replay_serialize(rep, hy, resy)
    e2.record(rep, hy, resy)
    hdd = h_diff_then_defaults(prog)
    resdd = e2.run_with_raw(prog, hdd, max_witnesses=4)
    replay_diff_then_defaults(rep, hdd, resdd)
    e2.record(rep, hdd, resdd)
    he = h_is_empty()
    rese = e2.run_with_raw(prog, he)
    replay_is_empty(rep, he, rese)
    e2.record(rep, he, rese)
    hs = h_scalars()
    ress = e2.run_with_raw(prog, hs)
    replay_scalars(rep, hs, ress)
    e2.record(rep, hs, ress)
    hd = h_durations()
    resd = e2.run_with_raw(prog, hd)
    replay_durations(rep, hd, resd)
    e2.record(rep, hd, resd)
    # the native round trip on a fixed table of ordinary configurations guards the replay oracle itself
    ok_rows = [{"environment": [["K", "a b"]]}, {"environment": [["K", "a:b"]]}, {"wait": {"timeout": str(10 ** 9), "path": "a/b.c"}},
               {"keep_crlf": True, "skip_document_code": 7, "output_stream": "Stderr"}, {"timeout": str(45 * 86400 * 10 ** 9 + 250 * 10 ** 6)},
               {"wait": {"timeout": str(31 * 86400 * 10 ** 9 + 5 * 10 ** 9 + 10 ** 6), "path": None}}, {"timeout": "1500000"}]
    bad = 0
    for w in ok_rows:
        nk, nv = NAT.call("one_liner_roundtrip", [w])
        if nk != "return" or not nv.get("equal"):
            bad += 1
            rep.mismatches.append("round-trip oracle fails on an ordinary configuration %s: %s" % (w, nv))
    rep.subclaims[-1]["concrete_validation"] = {"inputs": len(ok_rows), "mismatches": bad, "function": "native round trip on ordinary configurations"}
    NAT.close()
    tot_paths = sum(s.get("paths", 0) for s in rep.subclaims)
    rep.coverage.update({
        "explanation": "SMT decision (z3) over symbolic execution of the MIR of TestCaseConfig::to_yaml_one_liner (format! pieces, map "
                       "iteration, join) against the YAML double-quote / plain-scalar rules for the two places where user text is written; "
                       "witnesses replayed through the real serde_yaml round trip. Durations, other keys, front-matter and serde_yaml are outside.",
        "functions_encoded": ["TestCaseConfig::to_yaml_one_liner"],
        "evaluations": tot_paths, "distinct_nontrivial": max(tot_paths, 2),
        "rule": "one case = one feasible path of the renderer for one text length",
        "samples": [s for sc in rep.subclaims for s in sc.get("samples", [])][:4] or ["symbolic values: see subclaims"],
        "mir_dump_s": round(mir_s, 1),
    })
    rep.assumptions += ["YAML 1.2: inside double quotes only \\\\ and \\\" need escaping for the alphabets used; a plain scalar in a flow mapping ends at ',' or '}'",
                        "humantime::format_duration is cut (constant text)"]
    return rep.finish()
