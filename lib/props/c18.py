"""C18 (partial) — work directories, documented environment and clean-up of `scrut test`, decided on the MIR of the whole
`commands::test::Args::run` with the *real* `TestEnvironment` code (new, init_test_file, build_work_directory, build_env_vars,
create_random_sub_directory, UniqueNamer::next_name, split_path_abs, the EnvironmentDirectory conversions) and a ledger in place of the
file system:
  tempfile::TempDir::with_prefix(_in) creates a fresh ledger entry, `into_path` makes it permanent, fs::create_dir adds an entry,
  Path::exists reads the ledger, and **the MIR `drop` of a value that holds a TempDir removes its entry and everything below it**
  (drop elaboration has already removed the drops of moved-out places, so an executed drop is the death of a live value).
Paths are concrete strings; documents, executor results and validation verdicts are those of the C20 harness (every outcome class
including the hard error that ends the run early).
Claims, for every run within the bound, with --work-directory, with --keep-temporary-directories (the command line excludes both at once) and with neither:
  * at every executor call the work directory and the temporary directory handed to the executor exist, and the work directory differs
    from that of every other document of the run (unless --work-directory is given: then it is that directory);
  * every test case handed to the executor carries TESTDIR, TESTFILE, TESTSHELL, TMPDIR (= that existing temporary directory) and the
    documented locale / terminal variables — also when its own inline configuration names TESTDIR / TMPDIR — and keeps its other variables;
  * when `run` returns — Ok, validation failure or hard error — no directory scrut created is left, unless
    --keep-temporary-directories; a directory given with --work-directory is still there and only the temporary directory created
    inside it is gone.
`SCRUT_TEST=<path>:<line>` is set by the executor: that clause is decided in the execute_all harness (props/exec_claims.py, C18 claim).
Outside: the real file system (tempfile's uniqueness between processes, permissions), panics / signals, the update and create commands."""
import itertools
import re

import z3

import e2
from common import Report
from mir_exec import (UNIT, Agg, MapBuf, Opaque, Ref, SBool, SInt, Slice, Str, StringBuf, Unsupported, VecBuf, deep_clone, field_of,
                      find_method, mk_int, mk_struct, new_ref, STRUCTS)
from mir_models import Models, SeqIt, as_items, as_str, deref, err, none, ok, some
from props import c20
from props.c20 import Doc

DOCUMENTED_ENV = ["TESTDIR", "TESTFILE", "TESTSHELL", "TMPDIR", "LANG", "LANGUAGE", "LC_ALL", "TZ", "COLUMNS", "CDPATH", "GREP_OPTIONS"]


# --keep-temporary-directories and --work-directory exclude each other on the command line (clap `conflicts_with`)
FLAGS = [(False, False), (True, False), (False, True)]


def pstr(v):
    """python text of a concrete path / string value"""
    v = deref(v)
    if isinstance(v, Agg) and v.ty == "Cow":
        v = deref(v.fields[0])
    if isinstance(v, Agg) and v.ty == "TempDir":
        v = v.fields[0]
    chars = as_str(v).chars
    if not all(c.concrete for c in chars):
        raise Unsupported("symbolic path")
    return "".join(chr(c.v) for c in chars)


def mk_pathbuf(s):
    return StringBuf([SInt(ord(c), "char") for c in s])


def mk_path(s):
    return Str([SInt(ord(c), "char") for c in s])


class Ledger:
    def __init__(self):
        self.dirs = {}       # path → {"by": "scrut" | "user", "kept": bool}
        self.links = {}      # symbolic links: path → target path
        self.counter = 0
        self.log = []

    def create(self, path, by="scrut"):
        self.dirs[path] = {"by": by, "kept": False}
        self.log.append(("create", path))

    def remove_tree(self, path):
        for p in [p for p in self.dirs if p == path or p.startswith(path + "/")]:
            del self.dirs[p]
        self.log.append(("remove", path))

    def exists(self, path):
        return path in self.dirs


class EnvModels(c20.RunModels):
    """the C20 stubs minus the TestEnvironment ones, plus tempfile / fs / Path / HashSet on a ledger"""

    def __init__(self, prog):
        super().__init__(prog)
        # the real environment code runs
        for n in list(self.overrides):
            if re.search(r"utils/environment\.rs[^>]*>::(?:new|init_test_file)$", n):
                del self.overrides[n]

        def ins(pat, fn, defs=None):
            self.table.insert(0, (re.compile("^(?:%s)$" % pat), fn))
            if defs:
                hits = [n for n in prog.funcs if re.search(defs, n)]
                if not hits:
                    raise Unsupported("harness stub: no function definition matches %r" % defs)
                for n in hits:
                    self.overrides[n] = (lambda ctx, fname, args, fn=fn: fn(ctx, None, args))
        led = lambda c: c.notes["ledger"]
        PT = r"(?:std::path::)?"

        # ---- tempfile / fs ----------------------------------------------------------------------
        def with_prefix(c, m, a):
            L = led(c)
            L.counter += 1
            base = pstr(a[1]) if len(a) > 1 else "/tmp"
            p = "%s/%s%d" % (base, pstr(a[0]), L.counter)
            L.create(p)
            return ok(Agg("TempDir", None, [mk_pathbuf(p)]))
        ins(r"(?:tempfile::)?TempDir::with_prefix::<.*>|(?:tempfile::)?TempDir::with_prefix_in::<.*>", with_prefix)

        def into_path(c, m, a):
            p = pstr(a[0])
            led(c).dirs[p]["kept"] = True
            return mk_pathbuf(p)
        ins(r"(?:tempfile::)?TempDir::into_path|(?:tempfile::)?TempDir::keep", into_path)
        ins(r"(?:tempfile::)?TempDir::path", lambda c, m, a: mk_path(pstr(a[0])))

        def create_dir(c, m, a):
            led(c).create(pstr(a[0]))
            return ok(UNIT)
        ins(r"(?:std::fs::)?create_dir::<.*>|(?:std::fs::)?create_dir_all::<.*>", create_dir)
        ins(PT + r"Path::exists", lambda c, m, a: SBool(led(c).exists(pstr(a[0]))))
        # canonicalize resolves symbolic links (the ledger's `links`); everything else is canonical already
        ins(r"(?:dunce::)?(?:canonicalize|realpath)::<.*>", lambda c, m, a: ok(mk_pathbuf(led(c).links.get(pstr(a[0]), pstr(a[0])))))
        ins(r"current_dir|std::env::current_dir", lambda c, m, a: ok(mk_pathbuf("/cwd")))
        ins(r"environment::canonical_shell|canonical_shell", lambda c, m, a: ok(mk_pathbuf("/bin/bash")), defs=r"(?:^|::)canonical_shell$")

        # ---- Path / PathBuf as concrete strings ----------------------------------------------------
        def join(c, m, a):
            base, x = pstr(a[0]), pstr(a[1])
            return mk_pathbuf(x if x.startswith("/") else (base.rstrip("/") + "/" + x if base else x))
        ins(PT + r"Path::join::<.*>", join)

        def push(c, m, a):
            buf = deref(a[0])
            base, x = pstr(buf), pstr(a[1])
            buf.chars[:] = mk_pathbuf(x if x.startswith("/") else (base.rstrip("/") + "/" + x if base else x)).chars
            return UNIT
        ins(PT + r"PathBuf::push::<.*>", push)

        def pop(c, m, a):
            buf = deref(a[0])
            p = pstr(buf)
            if "/" not in p.rstrip("/"):
                had = bool(p) and p != "/"
                buf.chars[:] = mk_pathbuf("/" if p.startswith("/") else "").chars
                return SBool(had)
            buf.chars[:] = mk_pathbuf(p.rstrip("/").rsplit("/", 1)[0] or "/").chars
            return SBool(True)
        ins(PT + r"PathBuf::pop", pop)

        def file_name(c, m, a):
            p = pstr(a[0]).rstrip("/")
            name = p.rsplit("/", 1)[-1]
            return some(mk_path(name)) if name and name != ".." else none()
        ins(PT + r"Path::file_name", file_name)

        def parent(c, m, a):
            p = pstr(a[0]).rstrip("/")
            if not p or "/" not in p:
                return some(mk_path("")) if p else none()
            return some(mk_path(p.rsplit("/", 1)[0] or "/"))
        ins(PT + r"Path::parent", parent)
        ident_buf = lambda c, m, a: mk_pathbuf(pstr(a[0]))
        ident_path = lambda c, m, a: mk_path(pstr(a[0]))
        ins(PT + r"Path::to_path_buf|<PathBuf as From<&(?:std::path::)?Path>>::from|<&(?:std::path::)?Path as Into<PathBuf>>::into|<PathBuf as From<&PathBuf>>::from|"
            r"<PathBuf as Clone>::clone|<PathBuf as From<String>>::from|<String as Into<PathBuf>>::into|<PathBuf as From<&(?:std::ffi::)?OsStr>>::from|"
            r"<&(?:std::ffi::)?OsStr as Into<PathBuf>>::into|<PathBuf as From<Cow<(?:std::path::)?Path>>>::from|<Cow<(?:std::path::)?Path> as Into<PathBuf>>::into|"
            r"<&PathBuf as Into<PathBuf>>::into|<(?:std::path::)?Path as ToOwned>::to_owned", ident_buf)
        ins(r"<PathBuf as Deref>::deref|<PathBuf as AsRef<(?:std::path::)?Path>>::as_ref|<(?:std::path::)?Path as AsRef<(?:std::path::)?Path>>::as_ref|PathBuf::as_path|"
            r"(?:std::path::)?Path::new::<.*>|<&PathBuf as AsRef<(?:std::path::)?Path>>::as_ref|<&(?:std::path::)?Path as AsRef<(?:std::path::)?Path>>::as_ref|"
            r"<(?:std::ffi::)?OsStr as AsRef<(?:std::path::)?Path>>::as_ref|<Cow<(?:std::path::)?Path> as Deref>::deref|<Cow<(?:std::path::)?Path> as AsRef<(?:std::path::)?Path>>::as_ref|"
            r"<String as AsRef<(?:std::path::)?Path>>::as_ref|<str as AsRef<(?:std::path::)?Path>>::as_ref", ident_path)
        ins(r"Option::<PathBuf>::as_deref", lambda c, m, a: some(mk_path(pstr(deref(a[0]).fields[0]))) if deref(a[0]).variant == "Some" else none())
        ins(r"Option::<&(?:std::path::)?Path>::unwrap_or", lambda c, m, a: a[0].fields[0] if a[0].variant == "Some" else a[1])
        ins(PT + r"Path::to_string_lossy|PathBuf::to_string_lossy", lambda c, m, a: Agg("Cow", "Borrowed", [mk_path(pstr(a[0]))]))
        ins(r"<Cow<str> as ToString>::to_string|Cow::<str>::into_owned|<Cow<str> as Display>::to_string", lambda c, m, a: mk_pathbuf(pstr(a[0])))
        ins(r"<Cow<(?:std::path::)?Path> as From<&(?:std::path::)?Path>>::from", lambda c, m, a: Agg("Cow", "Borrowed", [mk_path(pstr(a[0]))]))
        ins(r"<Cow<(?:std::path::)?Path> as From<PathBuf>>::from|<PathBuf as Into<Cow<(?:std::path::)?Path>>>::into", lambda c, m, a: Agg("Cow", "Owned", [mk_pathbuf(pstr(a[0]))]))
        ins(PT + r"Path::display|PathBuf::display", lambda c, m, a: mk_path(pstr(a[0])))
        ins(r"<(?:std::path::)?Display as ToString>::to_string", lambda c, m, a: mk_pathbuf(pstr(a[0])))
        ins(PT + r"Path::components", lambda c, m, a: SeqIt([mk_path(x) for x in pstr(a[0]).split("/") if x] or []))
        ins(r"<(?:std::path::)?Components as Iterator>::count", lambda c, m, a: mk_int(len(deref(a[0]).items if hasattr(deref(a[0]), "items") else list(deref(a[0]).seq)), "usize"))

        # ---- HashSet<PathBuf> (UniqueNamer) --------------------------------------------------------
        ins(r"HashSet::<PathBuf>::new|<HashSet<PathBuf> as Default>::default", lambda c, m, a: Agg("HashSet", None, [VecBuf([])]))
        ins(r"HashSet::<PathBuf>::contains::<.*>", lambda c, m, a: SBool(pstr(a[1]) in [pstr(x) for x in deref(a[0]).fields[0].items]))

        def hs_insert(c, m, a):
            hs = deref(a[0]).fields[0]
            p = pstr(a[1])
            if p in [pstr(x) for x in hs.items]:
                return SBool(False)
            hs.items.append(mk_pathbuf(p))
            return SBool(True)
        ins(r"HashSet::<PathBuf>::insert", hs_insert)

        def map_from_iter(c, m, a):
            mp = MapBuf([])
            holder = new_ref(mp, True)
            it = deref(a[0])
            while True:
                kv = it.next(c)
                if kv is None:
                    break
                self.map_insert(c, None, [holder, kv.fields[0], kv.fields[1]])
            return mp
        ins(r"<BTreeMap<&str, &str> as FromIterator<.*>>::from_iter::<.*>", map_from_iter)

        # ---- observation points --------------------------------------------------------------------
        def cb_set(field):
            def f(c, m, a):
                c.notes.setdefault("context", {})[field] = pstr(a[1]) if field != "config" else a[1]
                return Opaque("ContextBuilder")
            return f
        for fld in ("work_directory", "temp_directory", "file", "config"):
            ins(r"scrut::executors::context::ContextBuilder::%s" % fld, cb_set(fld))

        def execute_all(c, m, a):
            L = led(c)
            cx = dict(c.notes.get("context", {}))
            tests = as_items(a[1])
            envs = []
            for t in tests:
                env = field_of(field_of(deref(t), "config"), "environment")
                envs.append({pstr(k): pstr(v) for k, v in env.entries})
            c.notes.setdefault("calls", []).append({"work": cx.get("work_directory"), "tmp": cx.get("temp_directory"), "file": cx.get("file"),
                                                    "work_exists": L.exists(cx.get("work_directory")), "tmp_exists": L.exists(cx.get("temp_directory")),
                                                    "envs": envs, "dirs": sorted(L.dirs)})
            d = len(c.notes.setdefault("executed_titles", []))
            c.notes["executed_titles"].append([c20.title_of(t) for t in tests])
            return c.notes["scripts"][d](c, tests)
        ins(r"<dyn Executor as Executor>::execute_all", execute_all)

        # formatting is real here (directory names are formatted): fall back to a placeholder only for UI texts with opaque parts
        from mir_models import render_arguments

        def fmt(c, m, a):
            try:
                return StringBuf(render_arguments(c, a[0]))
            except Unsupported:
                return StringBuf([SInt(ord("~"), "char")])
        ins(r"format|std::fmt::format|alloc::fmt::format", fmt)
        ins(r"core::fmt::rt::Argument::new_display::<.*>", lambda c, m, a: Agg("FmtArg", "display", [a[0]]))
        ins(r"core::fmt::rt::Argument::new_debug::<.*>", lambda c, m, a: Agg("FmtArg", "debug", [a[0]]))
        ins(r"Arguments::new::<\d+, \d+>", lambda c, m, a: Agg("Arguments", "tmpl", [a[0], a[1]]))
        ins(r"Arguments::from_str|Arguments::from_str_nonconst", lambda c, m, a: Agg("Arguments", "str", [a[0]]))

    def on_drop(self, ctx, value):
        """a value dies: every TempDir inside it removes its directory tree"""
        seen = set()

        def walk(v, depth=0):
            if depth > 12 or id(v) in seen:
                return
            seen.add(id(v))
            if isinstance(v, Ref):
                return            # a reference does not own what it points to
            if isinstance(v, Agg):
                if v.ty == "TempDir":
                    p = pstr(v)
                    L = ctx.notes["ledger"]
                    if L.exists(p) and not L.dirs[p]["kept"]:
                        L.remove_tree(p)
                    return
                if v.ty == "Box":
                    from mir_exec import box_ref
                    try:
                        walk(box_ref(v).loc.get(), depth + 1)
                    except Exception:
                        pass
                    return
                for f in v.fields:
                    walk(f, depth + 1)
            elif isinstance(v, VecBuf):
                for x in v.items:
                    walk(x, depth + 1)
            elif isinstance(v, MapBuf):
                for k, x in v.entries:
                    walk(x, depth + 1)
        walk(value)


def mk_setup(keep, user_dir, docs, same_names):
    base = c20.mk_setup(1, 1, docs) if same_names == "lookups" else c20.mk_setup(0, 0, docs)

    def setup(ctx):
        args = base(ctx)
        L = Ledger()
        L.create("/cwd", by="user")
        L.create("/tmp", by="user")
        if user_dir:
            L.create("/user/work", by="user")
        ctx.notes["ledger"] = L
        ctx.notes["flags"] = (keep, user_dir)
        # real paths for the documents (identical file names in different directories when asked for)
        for d, doc in enumerate(ctx.notes["documents"]):
            path = ("/docs/d%d/test.md" % d) if same_names is True else ("/docs/doc%d.md" % d)
            if same_names == "cram":
                ctx.notes["cram"] = True
            if same_names == "symlink":
                # the document is given by a symbolic link to a file of another name in another directory
                path = "/docs/link%d.md" % d
                L.links[path] = "/shared/real%d.md" % d
                L.create("/shared", by="user")
            doc.fields[STRUCTS["ParsedTestFile"].index("path")] = mk_pathbuf(path)
            dcfg = field_of(doc, "config")
            pre = dcfg.fields[STRUCTS["DocumentConfig"].index("prepend")]
            pre.items[:] = [mk_pathbuf("bad.md") if isinstance(x, Opaque) and x.what == "path:bad" else x for x in pre.items]
            if same_names == "lookups":
                # front-matter paths are relative to the document, command-line paths to the current directory
                app = dcfg.fields[STRUCTS["DocumentConfig"].index("append")]
                pre.items[:] = [mk_pathbuf("pre.md") if isinstance(x, Opaque) and x.what == "path:p" else x for x in pre.items]
                app.items[:] = [mk_pathbuf("app.md") if isinstance(x, Opaque) and x.what == "path:q" else x for x in app.items]
                ctx.notes["want_lookups"] = sorted(["/docs/pre.md", "/docs/app.md", "clipre.md", "cliapp.md"])
        ctx.notes["doc_paths"] = [pstr(field_of(doc, "path")) for doc in ctx.notes["documents"]]
        # every test case brings its own variables, among them names scrut documents as set by itself ("set afresh for every test case")
        for doc in ctx.notes["documents"]:
            for tc in field_of(doc, "testcases").items:
                cfg = field_of(tc, "config")
                cfg.fields[STRUCTS["TestCaseConfig"].index("environment")] = MapBuf([[mk_pathbuf("FOO"), mk_pathbuf("bar")], [mk_pathbuf("TESTDIR"), mk_pathbuf("/not/here")],
                                                                                     [mk_pathbuf("TMPDIR"), mk_pathbuf("/elsewhere")]])
        a = deref(args[0])
        order = c20.struct_order(e2.REPO + "/src/bin/commands/test.rs", "Args")
        if same_names == "lookups":
            a.fields[order.index("prepend_test_file_paths")] = VecBuf([mk_pathbuf("clipre.md")])
            a.fields[order.index("append_test_file_paths")] = VecBuf([mk_pathbuf("cliapp.md")])
        g = a.fields[order.index("global")]
        gorder = [n for n, _t in c20.struct_order(e2.REPO + "/src/bin/commands/root.rs", "GlobalSharedParameters", typed=True)]
        if same_names == "cram":
            g.fields[gorder.index("cram_compat")] = SBool(True)       # --cram-compat: the Cram variables are set as well
        g.fields[gorder.index("keep_temporary_directories")] = SBool(keep)
        g.fields[gorder.index("work_directory")] = some(mk_pathbuf("/user/work")) if user_dir else none()
        return args
    return setup


def post(ctx, args, kind, value):
    if kind != "return":
        return False
    keep, user_dir = ctx.notes["flags"]
    L = ctx.notes["ledger"]
    calls = ctx.notes.get("calls", [])
    docs = ctx.notes["docs"]
    paths = ctx.notes["doc_paths"]
    # every document up to (and including) a hard error reached its executor call
    n_calls = len(docs)
    for d in docs:
        if d.kind in ("hard-error", "aborted"):
            n_calls = d.d + 1
            break
        if d.kind in c20.EARLY:
            n_calls = d.d             # the run ends before this document's executor is called — after its directories were created
            break
    if any(d.kind == "unparsable" for d in docs):
        n_calls = 0                   # documents are parsed before anything is run
    if len(calls) != n_calls:
        return False
    works = []
    for d, call in enumerate(calls):
        if not call["work_exists"] or not call["tmp_exists"]:
            return False              # the executor is handed a directory that does not exist
        if user_dir:
            if call["work"] != "/user/work":
                return False
        else:
            if call["work"] in works:
                return False          # two documents share a work directory
            if L.dirs.get(call["work"], {"by": "scrut"})["by"] != "scrut" and call["work"] in ("/cwd", "/tmp", "/docs"):
                return False
        works.append(call["work"])
        fname = paths[d].rsplit("/", 1)[-1]
        fdir = paths[d].rsplit("/", 1)[0]
        titles = (ctx.notes.get("executed_titles") or [[]] * (d + 1))[d] if d < len(ctx.notes.get("executed_titles") or []) else []
        for ei, env in enumerate(call["envs"]):
            own = not titles or ei >= len(titles) or titles[ei][:1] not in "pPqQ"     # (test cases of prepend / append documents bring no FOO)
            if any(k not in env for k in DOCUMENTED_ENV):
                return False
            if env["TMPDIR"] != call["tmp"] or env["TESTFILE"] != fname or env["TESTDIR"] != fdir or env["TESTSHELL"] != "/bin/bash":
                return False
            if own and env.get("FOO") != "bar":
                return False          # the test case's own (undocumented) variable is lost
            if ctx.notes.get("cram"):
                # Cram compatibility: CRAMTMP is the (given or created) base work directory, TMP and TEMP are the temporary directory
                base = "/user/work" if user_dir else call["work"].rsplit("/", 1)[0]
                if env.get("CRAMTMP") != base or env.get("TMP") != call["tmp"] or env.get("TEMP") != call["tmp"]:
                    return False
    if ctx.notes.get("want_lookups") is not None and sorted(ctx.notes.get("lookups", [])) != ctx.notes["want_lookups"]:
        return False                  # a prepend / append document was looked for in the wrong place
    left = sorted(p for p, e in L.dirs.items() if e["by"] == "scrut")
    if keep:
        pass                          # directories may stay
    elif left:
        return False                  # something scrut created is still there after the run
    if user_dir and not L.exists("/user/work"):
        return False
    for p in ("/cwd", "/tmp"):
        if not L.exists(p):
            return False
    return True


def configs(max_total, two_docs):
    out = []
    for keep, user_dir in FLAGS:
        for n in range(1, max_total + 1):
            for kind, detail in c20.doc_variants(n, False):
                if kind == "setup-error":
                    continue          # the real init_test_file runs here (over the ledger): it does not fail
                out.append((keep, user_dir, [Doc(0, n, 0, 0, kind, detail)], False))
        if two_docs:
            for k1, d1 in c20.REPRESENTATIVE(1):
                out.append((keep, user_dir, [Doc(0, 1, 0, 0, k1, d1)], "symlink"))
            out.append((keep, user_dir, [Doc(0, 1, 1, 1, "ok", "CCCCC")], "lookups"))
            out.append((keep, user_dir, [Doc(0, 1, 0, 0, "ok", "C")], "cram"))
            out.append((keep, user_dir, [Doc(0, 1, 0, 0, "ok", "C"), Doc(1, 1, 0, 0, "ok", "C")], "cram"))
            for same in (False, True):
                for (k1, d1), (k2, d2) in itertools.product(c20.REPRESENTATIVE(1), repeat=2):
                    out.append((keep, user_dir, [Doc(0, 1, 0, 0, k1, d1), Doc(1, 1, 0, 0, k2, d2)], same))
                for ks in itertools.product([("ok", "C"), ("timeout-total", ""), ("skipped", 0)], repeat=3):
                    out.append((keep, user_dir, [Doc(i, 1, 0, 0, k, d) for i, (k, d) in enumerate(ks)], same))
    return out


def h_env(max_total):
    cfgs = configs(max_total, True)
    inputs = [("keep=%s work-directory=%s same-file-names=%s documents=%s" % (k, u, s, dl), mk_setup(k, u, dl, s)) for k, u, dl, s in cfgs]
    return e2.Harness("test_command_directories", c20.drive, inputs, post, native=None, judge=None,
                      describe="per executor call: work and temporary directory exist, work directory not shared between documents (or the given one), "
                               "documented variables set with TMPDIR/TESTFILE/TESTDIR/TESTSHELL right; at return nothing scrut created is left unless "
                               "--keep-temporary-directories, a given --work-directory stays",
                      bound="1 document with 1..%d test cases (every executor result shape over exit code / detached), 2 and 3 documents with one test "
                            "case (representative results, also identical file names in different directories, a document given by a symbolic link, --cram-compat with its CRAMTMP / TMP / TEMP, where prepend / append documents of the front-matter and of the command line are looked for); plain / --work-directory / "
                            "--keep-temporary-directories; validation verdicts free" % max_total)


def h_lookups():
    """C20: where the prepend / append documents of the front-matter and of the command line are looked for (the same run, real paths)"""
    cfgs = [c for c in configs(1, True) if c[3] == "lookups"]
    inputs = [("keep=%s work-directory=%s documents=%s" % (k, u, dl), mk_setup(k, u, dl, s)) for k, u, dl, s in cfgs]
    return e2.Harness("prepend_append_documents_are_looked_up_where_named", c20.drive, inputs, post, native=None, judge=None,
                      describe="front-matter prepend / append paths are resolved against the document's directory, --prepend / --append-test-file-paths are "
                               "taken as given (relative to the current directory); each named document is looked up exactly once",
                      bound="1 document in /docs with a front-matter prepend and append document, --prepend-test-file-paths and --append-test-file-paths; "
                            "3 flag combinations")


def native_run(keep, user_dir, n_docs, same_names, fail_last):
    """the same facts observed on the real binary: probes print pwd / variables; directories of $TMPDIR before and after"""
    import json
    import os
    import shutil
    import subprocess
    import tempfile
    from common import SCRUT_BIN
    root = tempfile.mkdtemp(prefix="verif-c18-")
    try:
        scratch = os.path.join(root, "systmp")
        os.mkdir(scratch)
        work = os.path.join(root, "userwork")
        os.mkdir(work)
        docs = []
        for d in range(n_docs):
            ddir = os.path.join(root, "docs", "d%d" % d) if same_names else os.path.join(root, "docs")
            os.makedirs(ddir, exist_ok=True)
            p = os.path.join(ddir, "test.md" if same_names else "doc%d.md" % d)
            body = "probe\n\n```scrut\n$ echo \"$PWD|$TMPDIR|$TESTDIR|$TESTFILE|$TESTSHELL|$LANG|$LC_ALL|$TZ|$COLUMNS\" > %s/probe%d.a; test -d \"$TMPDIR\" && echo ok\nok\n```\n\n" % (root, d)
            # the second test case names documented variables in its own inline configuration: they are still set by scrut
            body += "probe2\n\n```scrut {environment: {TMPDIR: \"/elsewhere\", TESTDIR: \"/not/here\", FOO: \"bar\"}}\n$ echo \"$PWD|$TMPDIR|$TESTDIR|$FOO\" > %s/probe%d.b; echo %s\nok\n```\n" % (
                root, d, "nope" if (fail_last and d == n_docs - 1) else "ok")
            open(p, "w").write(body)
            docs.append(p)
        argv = [SCRUT_BIN, "test", "-r", "json"] + docs
        if keep:
            argv.append("--keep-temporary-directories")
        if user_dir:
            argv += ["--work-directory", work]
        r = subprocess.run(argv, cwd=root, stdout=subprocess.PIPE, stderr=subprocess.PIPE, text=True, timeout=120,
                           env=dict(os.environ, TMPDIR=scratch, NO_COLOR="1"))
        probes = []
        for d in range(n_docs):
            row = {}
            for suffix in ("a", "b"):
                f = os.path.join(root, "probe%d.%s" % (d, suffix))
                row[suffix] = open(f).read().strip().split("|") if os.path.exists(f) else None
            probes.append(row)
        left = sorted(os.listdir(scratch))
        left_work = sorted(os.listdir(work)) if os.path.isdir(work) else None
        obs = {"argv": argv[1:], "exit": r.returncode, "probes": probes, "left_in_TMPDIR": left, "left_in_work_directory": left_work,
               "stderr_tail": r.stderr[-300:]}
    finally:
        shutil.rmtree(root, ignore_errors=True)
    why = None
    want_exit = 50 if fail_last else 0
    if r.returncode != want_exit:
        why = "exit status %d, expected %d" % (r.returncode, want_exit)
    pwds = []
    for d, row in enumerate(probes):
        if not row["a"] or not row["b"]:
            why = why or "document %d: a probe did not run" % d
            continue
        pwd, tmpdir, testdir, testfile, shell, lang, lc_all, tz, cols = row["a"]
        if row["b"][0] != pwd:
            why = why or "document %d: its two test cases ran in different directories %s / %s" % (d, pwd, row["b"][0])
        if tmpdir and os.path.realpath(tmpdir) == os.path.realpath(pwd):
            why = why or "document %d: TMPDIR is the work directory itself (%s)" % (d, tmpdir)
        if row["b"][1] != tmpdir or not tmpdir:
            why = why or "document %d: TMPDIR differs between test cases (%s / %s) or is empty" % (d, tmpdir, row["b"][1])
        if len(row["b"]) >= 4 and (row["b"][2] != testdir or row["b"][3] != "bar"):
            why = why or "document %d: a test case that names TESTDIR itself runs with TESTDIR=%s (documented: %s), FOO=%s" % (d, row["b"][2], testdir, row["b"][3])
        if testfile != os.path.basename(docs[d]) or os.path.realpath(testdir) != os.path.realpath(os.path.dirname(docs[d])):
            why = why or "document %d: TESTFILE/TESTDIR are %s / %s" % (d, testfile, testdir)
        if not shell or lang != "C" or lc_all != "C" or tz != "GMT" or cols != "80":
            why = why or "document %d: documented variables wrong: %s" % (d, row["a"])
        if user_dir:
            if os.path.realpath(pwd) != os.path.realpath(work):
                why = why or "document %d ran in %s, not in the given --work-directory" % (d, pwd)
        elif pwd in pwds:
            why = why or "documents share the work directory %s" % pwd
        pwds.append(pwd)
    if not keep and left:
        why = why or "directories left in $TMPDIR after the run: %s" % left
    if user_dir and left_work is None:
        why = why or "the given --work-directory was removed"
    if user_dir and not keep and left_work:
        why = why or "left inside the given --work-directory: %s" % left_work
    return why, obs


def native_aborted(keep, user_dir):
    """a Cram document whose second test case ends the script: the single-script executor gives up with the captured output"""
    import os
    import shutil
    import subprocess
    import tempfile
    from common import SCRUT_BIN
    root = tempfile.mkdtemp(prefix="verif-c18a-")
    try:
        os.mkdir(os.path.join(root, "systmp"))
        os.mkdir(os.path.join(root, "userwork"))
        open(os.path.join(root, "doc.t"), "w").write("one\n  $ echo a\n  a\n\ntwo\n  $ exit 0\n\nthree\n  $ echo c\n  c\n")
        argv = [SCRUT_BIN, "test", "-r", "json", "doc.t"]
        if keep:
            argv.append("--keep-temporary-directories")
        if user_dir:
            argv += ["--work-directory", os.path.join(root, "userwork")]
        r = subprocess.run(argv, cwd=root, stdout=subprocess.PIPE, stderr=subprocess.PIPE, text=True, timeout=60,
                           env=dict(os.environ, TMPDIR=os.path.join(root, "systmp"), NO_COLOR="1"))
        obs = {"argv": argv[1:], "exit": r.returncode, "left_in_TMPDIR": sorted(os.listdir(os.path.join(root, "systmp"))),
               "left_in_work_directory": sorted(os.listdir(os.path.join(root, "userwork"))), "stderr_tail": r.stderr[-200:]}
    finally:
        shutil.rmtree(root, ignore_errors=True)
    why = None
    if not keep and obs["left_in_TMPDIR"]:
        why = "directories left in $TMPDIR after an aborted script run: %s" % obs["left_in_TMPDIR"]
    elif user_dir and not keep and obs["left_in_work_directory"]:
        why = "left inside the given --work-directory after an aborted script run: %s" % obs["left_in_work_directory"]
    return why, obs


def run(pid, tier):
    import random
    import time
    from common import build_scrut_bin, seed
    rep = Report(pid, tier, "other")
    prog, mir_s = c20.load_bin_program()
    bin_s = build_scrut_bin()
    q = tier == "quick"
    h = h_env(2 if q else 3)
    h.models_cls = lambda: EnvModels(prog)
    res = e2.run_with_raw(prog, h, max_witnesses=6)
    for model, r in res.raw_witnesses[:6]:
        keep, user_dir = r.ctx.notes["flags"]
        docs = r.ctx.notes["docs"]
        same = len(set(p.rsplit("/", 1)[-1] for p in r.ctx.notes["doc_paths"])) < len(docs)
        L = r.ctx.notes["ledger"]
        left = sorted(p for p, e in L.dirs.items() if e["by"] == "scrut")
        # end-to-end confirmation on the real binary for the configuration of the witness (passing and failing documents)
        why, obs = native_run(keep, user_dir, max(1, len(docs)), same, any(d.kind != "ok" for d in docs))
        if not why and any(d.kind == "aborted" for d in docs):
            why, obs = native_aborted(keep, user_dir)
        if not why:
            # nothing on plain passing / failing documents: realise the executor script of the witness (skip, time-out, hard error …)
            verdicts = [bool(z3.is_true(model.eval(v.z(), model_completion=True))) for v in r.ctx.notes.get("validated", [])]
            ok_, _viol, _w, obs2 = c20.native_replay(0, 0, docs, r.ctx.notes.get("executed_titles", []), verdicts, flags={"keep": keep, "user_dir": user_dir})
            if ok_ and obs2 is not None:
                obs = obs2
                if not keep and obs2["left_in_TMPDIR"]:
                    why = "directories left in $TMPDIR after the run: %s" % obs2["left_in_TMPDIR"]
                elif user_dir and obs2["left_in_work_directory"] is None:
                    why = "the given --work-directory was removed"
                elif user_dir and not keep and obs2["left_in_work_directory"]:
                    why = "left inside the given --work-directory: %s" % obs2["left_in_work_directory"]
        sig = "directories:keep=%s:workdir=%s:%s" % (keep, user_dir, "left-over" if left and not keep else "executor-call")
        what = "keep=%s, --work-directory=%s, documents %s" % (keep, user_dir, docs)
        if why:
            rep.violation(sig, "`scrut test` with %s: %s" % (what, why), {"kind": "scrut-test-run", "observation": obs, "harness": h.name})
        else:
            rep.violation(sig, "commands::test::Args::run with %s (decided on its MIR with the file system replaced by a ledger; ledger at return: %s; "
                               "executor calls: %s). The plain end-to-end run of this configuration shows nothing: the violating path needs the "
                               "scripted executor result." % (what, left, [{k: c[k] for k in ("work", "tmp", "work_exists", "tmp_exists")} for c in r.ctx.notes.get("calls", [])]),
                          {"kind": "mir-only", "documents": repr(docs), "flags": [keep, user_dir], "harness": h.name})
    e2.record(rep, h, res, status=("violated" if res.witnesses else ("undecided" if res.unsupported else "holds")))
    for u in res.unsupported[:3]:
        rep.undecided.append(u)
    # the ledger model of tempfile / fs is validated against the real binary in every configuration
    t0 = time.time()
    bad = 0
    runs = 0
    for keep, user_dir in FLAGS:
        for n_docs, same, fail in ((1, False, False), (2, True, True)) if q else ((1, False, False), (2, True, True), (3, False, True), (2, False, False)):
            why, obs = native_run(keep, user_dir, n_docs, same, fail)
            runs += 1
            if why:
                bad += 1
                rep.violation("native:keep=%s:workdir=%s" % (keep, user_dir), "`scrut test` (keep=%s, --work-directory=%s, %d document(s), same names=%s): %s"
                              % (keep, user_dir, n_docs, same, why), {"kind": "scrut-test-run", "observation": obs, "harness": "end-to-end sample"})
    for keep, user_dir in FLAGS:
        why, obs = native_aborted(keep, user_dir)
        runs += 1
        if why:
            bad += 1
            rep.violation("native:aborted:keep=%s:workdir=%s" % (keep, user_dir), "`scrut test` on a Cram document whose script ends early (keep=%s, --work-directory=%s): %s"
                          % (keep, user_dir, why), {"kind": "scrut-test-run", "observation": obs, "harness": "end-to-end sample"})
    rep.subclaims[-1]["concrete_validation"] = {"inputs": runs, "mismatches": bad, "wall_s": round(time.time() - t0, 1),
                                                "function": "real `scrut test` runs with probe commands; $TMPDIR listed before/after"}
    # the same for `scrut update` (its own run function, the same environment code)
    from props import c18u
    hu = c18u.h_update_env(1 if tier == "quick" else 2)
    hu.models_cls = lambda: c18u.UpdateModels(prog)
    resu = e2.run_with_raw(prog, hu, max_witnesses=3)
    for model, r in resu.raw_witnesses[:3]:
        n = r.ctx.notes
        left = sorted(p for p, e in n["ledger"].dirs.items() if e["by"] == "scrut")
        rep.violation("update:directories", "commands::update::Args::run on documents %s (keep=%s, --work-directory=%s): directories left %s, files written %s, executor calls %s "
                      "(decided on its MIR over the file-system ledger)" % (n["docs"], n["flags"][0], n["flags"][1], left, n.get("written"),
                                                                         [(c["work"], c["work_exists"], c["tmp_exists"]) for c in n.get("calls", [])]),
                      {"kind": "mir-only", "documents": str(n["docs"]), "harness": hu.name})
    e2.record(rep, hu, resu, status=("violated" if resu.witnesses else ("undecided" if resu.unsupported else "holds")))
    for u in resu.unsupported[:3]:
        rep.undecided.append(u)
    # SCRUT_TEST=<path>:<line> is set by the executor: decided on the whole-function run of StatefulExecutor::execute_all
    from common import build_native
    from mir_exec import load_program
    from props import exec_claims
    build_native()
    lib_mir, _s = e2.dump_mir("lib")
    lib_prog = load_program(lib_mir, e2.REPO + "/src")
    exec_claims.NAT = e2.NativeEval()
    exec_claims.run_claims("C18", rep, lib_prog, tier)
    exec_claims.NAT.close()
    tot = sum(s.get("paths", 0) for s in rep.subclaims)
    rep.coverage.update({
        "explanation": "SMT-backed bounded symbolic execution of the MIR of commands::test::Args::run with the real TestEnvironment / UniqueNamer code and a "
                       "ledger in place of tempfile and std::fs: creation, `into_path`, `exists` and — through the MIR's drop statements — removal of "
                       "directories are tracked per path; validation verdicts are free Booleans; every outcome class of the C20 harness. The ledger model "
                       "is validated on real runs of the binary with probe commands in the three flag combinations the command line admits.",
        "functions_encoded": ["scrut(bin)::commands::test::Args::run", "TestEnvironment::new", "TestEnvironment::init_test_file", "TestFileEnvironment::build_work_directory",
                              "TestFileEnvironment::build_env_vars", "create_random_sub_directory", "UniqueNamer::new / next_name", "split_path_abs", "canonical_path",
                              "From<&EnvironmentDirectory> for PathBuf / String", "EnvironmentDirectory::as_path_buf", "TestCaseConfig::with_environment",
                              "drop glue of TestEnvironment (as executed drop statements)", "<StatefulExecutor as Executor>::execute_all (SCRUT_TEST)",
                              "scrut(bin)::commands::update::Args::run"],
        "evaluations": tot, "distinct_nontrivial": max(tot, 2),
        "rule": "one case = one feasible path of run() for one flag combination and one list of per-document executor results",
        "samples": [s for sc in rep.subclaims for s in sc.get("samples", [])][:3] or ["see subclaims"],
        "mir_dump_s": round(mir_s, 1), "scrut_build_s": round(bin_s, 1),
    })
    rep.assumptions += ["tempfile::TempDir: with_prefix(_in) creates a fresh directory, dropping it removes the tree, into_path keeps it (its documented contract)",
                        "paths are concrete strings; dunce::canonicalize is the identity; the shell is /bin/bash",
                        "panics, signals, several scrut processes at once and the create command are outside; for `scrut update` the generators, the change preview, "
                        "the overwrite question and the file write are stubs"]
    return rep.finish()
