"""C18 for `scrut update`: the MIR of the whole `commands::update::Args::run` (bin crate) with the real TestEnvironment / UniqueNamer code
over the file-system ledger of props/c18.py.  The update / conversion generators, the change preview, the overwrite question and the file
write are stubs (free outcomes); documents and executor results are scripted as in C20 / C18.
Claims: at every executor call the work and temporary directory exist and the work directory is not shared between documents; when `run`
returns — documents updated, unchanged, skipped (no test cases, prepend, skip code, declined overwrite) or a hard error — nothing scrut
created is left unless --keep-temporary-directories; a given --work-directory stays."""
import itertools
import re

import z3

import e2
from mir_exec import (UNIT, Agg, MapBuf, Opaque, SBool, SInt, Slice, Str, StringBuf, Unsupported, VecBuf, deep_clone, field_of, find_method,
                      mk_int, mk_struct, new_ref, STRUCTS)
from mir_models import as_items, as_str, deref, err, none, ok, some
from props import c18, c20

UPDATE_RS = "/src/bin/commands/update.rs"
# what happens to one document: executor result × what the generator returns × the overwrite question
DOC_KINDS = [("ok", "changed"), ("ok", "unchanged"), ("ok", "declined"), ("skipped", None), ("hard-error", None), ("empty", None), ("has-prepend", None),
             ("generator-error", None)]


class UpdateModels(c18.EnvModels):
    def __init__(self, prog):
        super().__init__(prog)

        def ins(pat, fn, defs=None):
            self.table.insert(0, (re.compile("^(?:%s)$" % pat), fn))
            if defs:
                hits = [n for n in prog.funcs if re.search(defs, n)]
                if not hits:
                    raise Unsupported("harness stub: no function definition matches %r" % defs)
                for n in hits:
                    self.overrides[n] = (lambda ctx, fname, args, fn=fn: fn(ctx, None, args))

        def turn(c):
            """the document whose generator / question is being asked: the last one that reached its executor"""
            return c.notes["runs"][len(c.notes.get("calls", [])) - 1]

        def generate(c, m, a):
            d = turn(c)
            if d.kind == "generator-error":
                return err(Opaque("anyhow:other"))
            same = d.detail == "unchanged"
            text = StringBuf(list(as_str(field_of(deref(a[1]), "content")).chars) + ([] if same else [SInt(ord("+"), "char")]))
            return ok(Agg("tuple", None, [text, Agg("ParserType", "Markdown", [])]))
        ins(r"update::Args::update_test", generate, defs=r"bin/commands/update\.rs[^>]*>::update_test$")
        ins(r"update::Args::convert_test", generate, defs=r"bin/commands/update\.rs[^>]*>::convert_test$")
        ins(r"update::Args::print_changes", lambda c, m, a: UNIT, defs=r"bin/commands/update\.rs[^>]*>::print_changes$")
        ins(r"update::Args::print_summary", lambda c, m, a: ok(UNIT), defs=r"bin/commands/update\.rs[^>]*>::print_summary$")
        ins(r"update::Args::([a-z_]+)", lambda c, m, a: c.call(find_method(prog, "bin/commands/update.rs", m.group(1)), a))

        def confirm(c, m, a):
            c.notes.setdefault("asked", []).append(len(c.notes.get("calls", [])) - 1)
            return ok(SBool(turn(c).detail != "declined"))
        ins(r"(?:utils::)?(?:ui::)?confirm", confirm, defs=r"(?:^|::)confirm$")
        ins(r"ProgressWriter::suspend::<.*>", lambda c, m, a: c.call_callable(a[1], []), defs=r"utils/ui\.rs[^>]*>::suspend$")
        ins(r"(?:std::ffi::)?OsStr::to_string_lossy", lambda c, m, a: Agg("Cow", "Borrowed", [c18.mk_path(c18.pstr(a[0]))]))

        def fs_write(c, m, a):
            c.notes.setdefault("written", []).append(c18.pstr(a[0]))
            return ok(UNIT)
        ins(r"(?:std::fs::)?write::<.*>", fs_write)
        # the output path exists already (the question is asked unless --assume-yes)
        PT = r"(?:std::path::)?"
        ins(PT + r"Path::exists", lambda c, m, a: SBool(c.notes["ledger"].exists(c18.pstr(a[0])) or c18.pstr(a[0]).startswith("/docs/")))
        ins(PT + r"Path::extension", lambda c, m, a: (lambda n: some(c18.mk_path(n.rsplit(".", 1)[1])) if "." in n.strip(".") else none())(c18.pstr(a[0]).rsplit("/", 1)[-1]))
        ins(PT + r"Path::file_stem", lambda c, m, a: (lambda n: some(c18.mk_path(n.rsplit(".", 1)[0] if "." in n.strip(".") else n)) if n else none())(c18.pstr(a[0]).rsplit("/", 1)[-1]))

        def with_extension(c, m, a):
            p, ext = c18.pstr(a[0]), c18.pstr(a[1])
            head, name = p.rsplit("/", 1) if "/" in p else ("", p)
            stem = name.rsplit(".", 1)[0] if "." in name.strip(".") else name
            new = stem + ("." + ext if ext else "")
            return c18.mk_pathbuf((head + "/" if "/" in p else "") + new)
        ins(PT + r"Path::with_extension::<.*>|PathBuf::with_extension::<.*>", with_extension)
        ins(r"<PathBuf as PartialEq>::eq|<(?:std::path::)?Path as PartialEq>::eq", lambda c, m, a: SBool(c18.pstr(a[0]) == c18.pstr(a[1])))
        ins(r"<String as PartialEq>::eq|<String as PartialEq<String>>::eq", lambda c, m, a: SBool([ch.v for ch in as_str(a[0]).chars] == [ch.v for ch in as_str(a[1]).chars]))
        ins(r"TestCaseConfig::without_environment", lambda c, m, a: deep_clone(deref(a[0])))
        ins(r"debug_testcases", lambda c, m, a: UNIT, defs=r"(?:^|::)debug_testcases$")
        ins(r"<Vec<.*> as DerefMut>::deref_mut", lambda c, m, a: deref(a[0]))        # in-place algorithms (reverse) work on the buffer itself


def mk_setup(keep, user_dir, docs, replace, assume_yes):
    def setup(ctx):
        L = c18.Ledger()
        for p in ("/cwd", "/tmp", "/docs"):
            L.create(p, by="user")
        if user_dir:
            L.create("/user/work", by="user")
        ctx.notes["ledger"] = L
        ctx.notes["flags"] = (keep, user_dir)
        ctx.notes["docs"] = docs
        documents = []
        for doc in docs:
            n = 0 if doc.kind == "empty" else doc.n
            d = c20.mk_document(ctx, "doc%d" % doc.d, ["%s%d" % (chr(ord("a") + doc.d), i) for i in range(n)],
                                ["path:p"] if doc.kind == "has-prepend" else [], [])
            d.fields[STRUCTS["ParsedTestFile"].index("path")] = c18.mk_pathbuf("/docs/doc%d.md" % doc.d)
            d.fields[STRUCTS["ParsedTestFile"].index("content")] = StringBuf([SInt(ord(c), "char") for c in "content %d" % doc.d])
            pre = field_of(d, "config").fields[STRUCTS["DocumentConfig"].index("prepend")]
            pre.items[:] = [c18.mk_pathbuf("pre.md") for _x in pre.items]
            for tc in field_of(d, "testcases").items:
                cfg = field_of(tc, "config")
                cfg.fields[STRUCTS["TestCaseConfig"].index("environment")] = MapBuf([[c18.mk_pathbuf("FOO"), c18.mk_pathbuf("bar")]])
            documents.append(d)
        ctx.notes["documents"] = documents
        ctx.notes["doc_paths"] = ["/docs/doc%d.md" % doc.d for doc in docs]
        ctx.notes["extra"] = {}
        # executor scripts in call order: only documents that reach their executor have one
        runs = [doc for doc in docs if doc.kind in ("ok", "skipped", "hard-error", "generator-error")]
        ctx.notes["scripts"] = [c20.doc_script({"generator-error": "ok"}.get(doc.kind, doc.kind), "C" * doc.n if doc.kind in ("ok", "generator-error") else 0) for doc in runs]
        ctx.notes["runs"] = runs
        g = c20.mk_global()
        gorder = [n for n, _t in c20.struct_order(e2.REPO + "/src/bin/commands/root.rs", "GlobalSharedParameters", typed=True)]
        g.fields[gorder.index("keep_temporary_directories")] = SBool(keep)
        g.fields[gorder.index("work_directory")] = some(c18.mk_pathbuf("/user/work")) if user_dir else none()
        args = c20.mk_struct_at(e2.REPO + UPDATE_RS, "Args", paths=VecBuf([]), debug=SBool(False), markdown_languages=VecBuf([StringBuf([SInt(ord("s"), "char")])]),
                                output_suffix=StringBuf([SInt(ord(c), "char") for c in ".new"]), assume_yes=SBool(assume_yes), match_cram=StringBuf([]),
                                match_markdown=StringBuf([]), replace=SBool(replace), absolute_line_numbers=SBool(False), convert=none(), verbose=SBool(False),
                                **{"global": g})
        return [new_ref(args)]
    return setup


def drive(ctx, args):
    """commands::update::Args::run with stubbed documents / executor / validation / generators / question / file write"""
    return ctx.call(find_method(ctx.program, "bin/commands/update.rs", "run"), [args[0]])


class Doc:
    def __init__(self, d, n, kind, detail):
        self.d, self.n, self.kind, self.detail = d, n, kind, detail
        self.pre = self.app = 0

    def __repr__(self):
        return "(%d tests → %s%s)" % (self.n, self.kind, " " + self.detail if self.detail else "")


def post(ctx, args, kind, value):
    if kind != "return":
        return False
    keep, user_dir = ctx.notes["flags"]
    L = ctx.notes["ledger"]
    calls = ctx.notes.get("calls", [])
    docs = ctx.notes["docs"]
    # which documents reach their executor: all with test cases and no prepend, up to (and including) a hard error
    expect_calls = []
    ends_in_error = False
    for d in docs:
        if d.kind in ("empty", "has-prepend"):
            continue
        expect_calls.append(d)
        if d.kind in ("hard-error", "generator-error"):
            ends_in_error = True
            break
    if len(calls) != len(expect_calls):
        return False
    if ends_in_error != (value.variant == "Err"):
        return False
    works = []
    for d, call in zip(expect_calls, calls):
        if not call["work_exists"] or not call["tmp_exists"]:
            return False
        if user_dir:
            if call["work"] != "/user/work":
                return False
        elif call["work"] in works or call["work"] in ("/cwd", "/tmp", "/docs"):
            return False
        works.append(call["work"])
        for env in call["envs"]:
            if any(k not in env for k in c18.DOCUMENTED_ENV) or env.get("FOO") != "bar":
                return False
            if env["TMPDIR"] != call["tmp"] or env["TESTFILE"] != "doc%d.md" % d.d or env["TESTDIR"] != "/docs":
                return False
    # a document is written iff it was updated with a changed content and the overwrite was not declined
    want_written = [("/docs/doc%d.md" if ctx.notes["replace"] else "/docs/doc%d.md.new") % d.d for d in expect_calls
                    if d.kind == "ok" and d.detail in ("changed",) or (d.kind == "ok" and d.detail == "declined" and ctx.notes["assume_yes"])]
    if ctx.notes.get("written", []) != want_written:
        return False
    left = sorted(p for p, e in L.dirs.items() if e["by"] == "scrut")
    if not keep and left:
        return False
    if user_dir and not L.exists("/user/work"):
        return False
    return all(L.exists(p) for p in ("/cwd", "/tmp", "/docs"))


def h_update_env(max_docs):
    cfgs = []
    for keep, user_dir in c18.FLAGS:
        for kind, detail in DOC_KINDS:
            for replace, yes in ((False, False), (True, True), (True, False)):
                cfgs.append((keep, user_dir, [Doc(0, 1, kind, detail)], replace, yes))
        if max_docs >= 2:
            for (k1, d1), (k2, d2) in itertools.product(DOC_KINDS, repeat=2):
                cfgs.append((keep, user_dir, [Doc(0, 1, k1, d1), Doc(1, 2, k2, d2)], True, True))

    def mk(keep, user_dir, docs, replace, yes):
        base = mk_setup(keep, user_dir, docs, replace, yes)

        def setup(ctx):
            ctx.notes["replace"], ctx.notes["assume_yes"] = replace, yes
            return base(ctx)
        return setup
    inputs = [("keep=%s work-directory=%s replace=%s assume-yes=%s documents=%s" % (k, u, r, y, dl), mk(k, u, dl, r, y)) for k, u, dl, r, y in cfgs]
    return e2.Harness("update_command_directories", drive, inputs, post, native=None, judge=None,
                      describe="`scrut update`: per executor call the work and temporary directory exist, the work directory is not shared between documents "
                               "(or is the given one), the documented variables are set; a document is written iff its content changed and the overwrite was "
                               "not declined; at return nothing scrut created is left unless --keep-temporary-directories, a given --work-directory stays",
                      bound="1 document (%d outcome kinds × replace / assume-yes) and 2 documents (every pair of kinds); plain / --work-directory / "
                            "--keep-temporary-directories; validation verdicts free" % len(DOC_KINDS))
