"""C19 (partial) — the pretty renderer cannot crash on the two computations that index / subtract:
   (a) `space_start_index`: the split index handed to `&input[0..i]` / `&input[i..]` by
       `higlight_tailing_spaces` is a char boundary <= len and is exactly the start of the trailing
       whitespace;  (b) `Decorator::output_line_number`: `width - digits(num)` cannot underflow for
       num <= the maximum the decorator was built for."""
import random

import z3

import e2
import kani
from common import Report, build_native, seed
from mir_exec import SInt, Agg, load_program
from mir_models import is_whitespace, none, some, z_and, z_or, z_not

WS = [9, 10, 11, 12, 13, 0x20, 0x85, 0xA0, 0x1680, 0x2000, 0x2003, 0x200A, 0x2028, 0x2029, 0x202F, 0x205F, 0x3000]


def py_is_ws(cp):
    return cp in (9, 10, 11, 12, 13, 0x20, 0x85, 0xA0, 0x1680, 0x2028, 0x2029, 0x202F, 0x205F, 0x3000) or 0x2000 <= cp <= 0x200A


def h_space_start(max_bytes):
    def post(ctx, args, kind, value):
        if kind != "return":
            return False
        s = args[0]
        widths = [ctx.cwidth(c) for c in s.chars]
        bounds = [0]
        for w in widths:
            bounds.append(bounds[-1] + w)
        if not value.concrete:
            return False
        if value.v not in bounds:
            return False
        k = bounds.index(value.v)
        # everything from k on is whitespace, the char before k is not
        conds = [is_whitespace(c) for c in s.chars[k:]]
        if k > 0:
            conds.append(z_not(is_whitespace(s.chars[k - 1])))
        return z_and(conds)

    def judge(args, nk, nv):
        text = args[0]
        if nk != "return":
            return True, "space_start_index panics on %r" % text, "space-index:panic"
        b = text.encode("utf-8")
        want = len(text.rstrip("".join(chr(c) for c in range(0x3001) if py_is_ws(c))).encode("utf-8"))
        # does the index split a character?
        bounds, pos = {0}, 0
        for ch in text:
            pos += len(ch.encode("utf-8"))
            bounds.add(pos)
        if nv not in bounds:
            hk, hv = NAT.call("higlight_tailing_spaces", [text])
            return True, ("trailing-whitespace index %d is not a char boundary of %r (%d bytes); "
                          "higlight_tailing_spaces → %s" % (nv, text, len(b), hk)), "space-index:not-char-boundary"
        if nv != want:
            return True, "trailing-whitespace index %d != %d for %r" % (nv, want, text), "space-index:wrong-split"
        return False, "", ""
    inputs = [("widths=%s" % sh, (lambda ctx, sh=sh: [ctx.sym_str("s", sh)])) for sh in e2.str_shapes(max_bytes)]
    return e2.Harness("space_start_index", "pretty::space_start_index", inputs, post, native="space_start_index",
                      describe="index is a char boundary <= len and is exactly where the trailing whitespace starts",
                      bound="all valid UTF-8 strings of <= %d bytes" % max_bytes, judge=judge)


def h_line_number():
    def setup(ctx):
        mx = ctx.sym_int("max", "usize")
        num = ctx.sym_int("num", "usize")
        ctx.assume(z3.ULE(num.z(), mx.z()))
        return [mx, some(num)]

    def post(ctx, args, kind, value):
        return kind == "return"

    def judge(args, nk, nv):
        if nk != "return":
            return True, "Decorator::new(%s).output_line_number(%s) panics" % (args[0], args[1]), "line-number:underflow"
        return False, "", ""
    return e2.Harness("decorator_line_number", "pretty::verif_hooks::decorator_output_line_number",
                      [("num<=max", setup)], post, native="decorator_output_line_number",
                      describe="Decorator::new(max).output_line_number(Some(num)) does not panic for num <= max",
                      bound="all usize max, num with num <= max (digit counts enumerated by forking)", judge=judge)


NAT = None


def run(pid, tier):
    global NAT
    rep = Report(pid, tier, "other")
    build_native()
    mir, mir_s = e2.dump_mir("lib")
    prog = load_program(mir, e2.REPO + "/src")
    NAT = e2.NativeEval()
    rnd = random.Random(seed())
    n = 6 if tier == "quick" else 8
    val = []
    alphabet = [ord("a"), 0x20, 9, 0xA0, 0x3000, 0xe9, 0x1F600]
    for _ in range(40):
        k = rnd.randint(0, 5)
        val.append([e2.concrete_str("".join(chr(rnd.choice(alphabet)) for _ in range(k)))])
    e2.process(rep, prog, NAT, h_space_start(n), tier, validate_inputs=val)
    hl = h_line_number()
    val2 = [[SInt(m, "usize"), some(SInt(rnd.randint(0, m), "usize"))] for m in (0, 1, 9, 10, 99, 100, 12345)]
    e2.process(rep, prog, NAT, hl, tier, validate_inputs=val2,
               to_native_args=lambda a: [a[0], a[1]["Some"] if isinstance(a[1], dict) else a[1]])
    # second engine on the same claim: Kani on the compiled function (quick: it takes ~20 s)
    k = kani.run_harness("c19::c19_space_start_index_is_char_boundary", timeout_s=600)
    st = {"pass": "holds", "fail": "violated", "undecided": "undecided"}[k["status"]]
    if k["status"] == "fail" and not k.get("unwinding_failure"):
        bs = kani.decode_bytes_len(k["playback"][0], 5) if k.get("playback") else None
        ok = False
        if bs is not None:
            try:
                text = bytes(bs).decode("utf-8")
                nk, nv = NAT.call("space_start_index", [text])
                bounds, pos = {0}, 0
                for ch in text:
                    pos += len(ch.encode())
                    bounds.add(pos)
                if nk != "return" or nv not in bounds:
                    ok = True
                    rep.violation("space-index:not-char-boundary",
                                  "trailing-whitespace index %s is not a char boundary of %r (Kani counterexample)" % (nv, text),
                                  {"kind": "eval", "fn": "space_start_index", "args": [text], "native": [nk, nv], "harness": k["harness"]})
            except UnicodeDecodeError:
                pass
        if not ok:
            rep.mismatches.append("Kani counterexample for %s did not reproduce natively: %s" % (k["harness"], bs))
    elif k["status"] != "pass":
        rep.undecided.append("%s: %s" % (k["harness"], k.get("why", "unwinding bound too small")))
        st = "undecided"
    rep.subclaim(name=k["harness"], engine="E1 (Kani/CBMC)", bound="valid UTF-8 <= 5 bytes, unwind 8, unwinding assertions on",
                 what="index <= len and is_char_boundary(index)", result=st, checks=k.get("checks"), covers=k.get("covers"),
                 cbmc_s=k.get("cbmc_s"), wall_s=k["wall_s"], sat_vars=k.get("sat_vars"), sat_clauses=k.get("sat_clauses"))
    NAT.close()
    tot_paths = sum(s.get("paths", 0) for s in rep.subclaims)
    rep.coverage.update({
        "explanation": "SMT decision (z3) over a bounded symbolic execution of the MIR of the real functions "
                       "(concrete UTF-8 shapes, symbolic contents), cross-checked by a Kani harness on the compiled function; "
                       "witnesses replayed natively. Claimed only for the two crash-prone computations of the pretty renderer; "
                       "diff/json/yaml renderers and 'every difference is shown' are outside.",
        "functions_encoded": ["scrut::renderers::pretty::space_start_index", "scrut::renderers::pretty::Decorator::new",
                              "scrut::renderers::pretty::Decorator::output_line_number"],
        "evaluations": tot_paths, "distinct_nontrivial": tot_paths,
        "rule": "one case = one feasible path of the MIR under one input shape; distinct by path condition",
        "samples": [s for sc in rep.subclaims for s in sc.get("samples", [])][:4] or ["see subclaims"],
        "mir_dump_s": round(mir_s, 1),
    })
    rep.assumptions += ["std contract models of mir_models.py (str::chars, Rev, Enumerate, char::is_whitespace, str::len, "
                        "usize::to_string, format!) — validated on concrete inputs against the native build on every run",
                        "compositional link: numbers passed to the decorator are <= its maximum by C02's conservation facts"]
    return rep.finish()
