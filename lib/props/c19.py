"""C19 (partial) — the pretty renderer cannot crash on the two computations that index / subtract:
   (a) `space_start_index`: the split index handed to `&input[0..i]` / `&input[i..]` by
       `higlight_tailing_spaces` is a char boundary <= len and is exactly the start of the trailing
       whitespace;  (b) `Decorator::output_line_number`: `width - digits(num)` cannot underflow for
       num <= the maximum the decorator was built for."""
import json
import random
import re

import z3

import e2
import kani
from common import Report, build_native, seed
from mir_exec import SBool, SInt, Agg, Unsupported, load_program
from mir_models import is_whitespace, none, some, z_and, z_or, z_not

WS = [9, 10, 11, 12, 13, 0x20, 0x85, 0xA0, 0x1680, 0x2000, 0x2003, 0x200A, 0x2028, 0x2029, 0x202F, 0x205F, 0x3000]


def py_is_ws(cp):
    return cp in (9, 10, 11, 12, 13, 0x20, 0x85, 0xA0, 0x1680, 0x2028, 0x2029, 0x202F, 0x205F, 0x3000) or 0x2000 <= cp <= 0x200A


def h_space_start(max_bytes):
    def post(ctx, args, kind, value):
        if kind != "return":
            return False
        s = args[0]
        widths = [ctx.cwidth(c) for c in s.chars]
        bounds = [0]
        for w in widths:
            bounds.append(bounds[-1] + w)
        if not value.concrete:
            return False
        if value.v not in bounds:
            return False
        k = bounds.index(value.v)
        # everything from k on is whitespace, the char before k is not
        conds = [is_whitespace(c) for c in s.chars[k:]]
        if k > 0:
            conds.append(z_not(is_whitespace(s.chars[k - 1])))
        return z_and(conds)

    def judge(args, nk, nv):
        text = args[0]
        if nk != "return":
            return True, "space_start_index panics on %r" % text, "space-index:panic"
        b = text.encode("utf-8")
        want = len(text.rstrip("".join(chr(c) for c in range(0x3001) if py_is_ws(c))).encode("utf-8"))
        # does the index split a character?
        bounds, pos = {0}, 0
        for ch in text:
            pos += len(ch.encode("utf-8"))
            bounds.add(pos)
        if nv not in bounds:
            hk, hv = NAT.call("higlight_tailing_spaces", [text])
            return True, ("trailing-whitespace index %d is not a char boundary of %r (%d bytes); "
                          "higlight_tailing_spaces → %s" % (nv, text, len(b), hk)), "space-index:not-char-boundary"
        if nv != want:
            return True, "trailing-whitespace index %d != %d for %r" % (nv, want, text), "space-index:wrong-split"
        return False, "", ""
    inputs = [("widths=%s" % sh, (lambda ctx, sh=sh: [ctx.sym_str("s", sh)])) for sh in e2.str_shapes(max_bytes)]
    return e2.Harness("space_start_index", "pretty::space_start_index", inputs, post, native="space_start_index",
                      describe="index is a char boundary <= len and is exactly where the trailing whitespace starts",
                      bound="all valid UTF-8 strings of <= %d bytes" % max_bytes, judge=judge)


def h_line_number():
    def setup(ctx):
        mx = ctx.sym_int("max", "usize")
        num = ctx.sym_int("num", "usize")
        ctx.assume(z3.ULE(num.z(), mx.z()))
        return [mx, some(num)]

    def post(ctx, args, kind, value):
        return kind == "return"

    def judge(args, nk, nv):
        if nk != "return":
            return True, "Decorator::new(%s).output_line_number(%s) panics" % (args[0], args[1]), "line-number:underflow"
        return False, "", ""
    return e2.Harness("decorator_line_number", "pretty::verif_hooks::decorator_output_line_number",
                      [("num<=max", setup)], post, native="decorator_output_line_number",
                      describe="Decorator::new(max).output_line_number(Some(num)) does not panic for num <= max",
                      bound="all usize max, num with num <= max (digit counts enumerated by forking)", judge=judge)


NAT = None


class PrettyModels(__import__("mir_models").Models):
    """render_malformed_output with the styling / text parts cut: `Decorator::line` is replaced by calls to the two real
    number-formatting methods (the only arithmetic), expectation / output texts are constant"""

    def __init__(self, prog):
        super().__init__()
        import re
        from mir_exec import StringBuf, Str, find_method as fm, new_ref as nr
        from mir_models import deref as dr, usize
        line = fm(prog, "renderers/pretty.rs", "line")
        eln = fm(prog, "renderers/pretty.rs", "expectation_line_number")
        oln = fm(prog, "renderers/pretty.rs", "output_line_number")

        def line_override(ctx, fname, args):
            dec, line_no, exp_no, multiline = args[0], args[1], args[2], args[3]
            ctx.notes.setdefault("numbers", []).append((line_no, exp_no))
            ctx.call(eln, [dec, exp_no, multiline])
            ctx.call(oln, [dec, line_no])
            return StringBuf([SInt(ord("L"), "char")])
        self.overrides[line] = line_override
        tes = prog.resolve_call("Expectation::to_expression_string")
        if tes:
            self.overrides[tes] = lambda ctx, fname, args: StringBuf([SInt(ord("e"), "char")])
        esc = prog.resolve_call("Escaper::escaped_expectation")
        if esc:
            self.overrides[esc] = lambda ctx, fname, args: StringBuf([SInt(ord("o"), "char")])
        ins = lambda pat, fn: self.table.insert(0, (re.compile("^(?:%s)$" % pat), fn))
        ins(r"<String as TailingSpacesHighlighter>::higlight_tailing_spaces|<&str as TailingSpacesHighlighter>::higlight_tailing_spaces",
            lambda c, m, a: StringBuf(list(__import__("mir_models").as_str(a[0]).chars)))

        def vec_len(c, m, a):
            v = dr(a[0])
            n = getattr(v, "sym_len", None)
            return n if n is not None else usize(len(v.items))
        ins(r"Vec::<Expectation>::len", vec_len)
        ins(r"<usize as Add<&usize>>::add|<usize as Add>::add", lambda c, m, a: c.binop("Add", dr(a[0]), dr(a[1])))
        ins(r"<&\[u8\] as BytesNewline>::ends_in_newline", lambda c, m, a: SBool(True))

        def str_matches_count(c, m, a):
            return __import__("mir_models").SeqIt([])
        ins(r"core::str::<impl str>::matches::<char>", str_matches_count)


def h_gutter():
    from mir_exec import Agg, Opaque, SBool, StringBuf, VecBuf, mk_struct, new_ref, find_method as fm, mk_int
    from mir_models import none

    def expectation(ctx, tag):
        return mk_struct("Expectation", optional=SBool(False), multiline=ctx.sym_bool(tag + "_multi"), rule=Opaque("rule"), original=StringBuf([]))

    def item(ctx, kind, tag, n, m):
        if kind == "U":
            i = ctx.sym_int(tag + "_i", "usize")
            ctx.add(z3.ULT(i.z(), n.z()))
            return Agg("DiffLine", "UnmatchedExpectation", [i, expectation(ctx, tag)])
        j = ctx.sym_int(tag + "_j", "usize")
        ctx.add(z3.ULT(j.z(), m.z()))
        lines = VecBuf([Agg("tuple", None, [j, VecBuf([SInt(ord("x"), "u8"), SInt(10, "u8")], "u8")])])
        if kind == "X":
            return Agg("DiffLine", "UnexpectedLines", [lines])
        i = ctx.sym_int(tag + "_i", "usize")
        ctx.add(z3.ULT(i.z(), n.z()))
        return Agg("DiffLine", "MatchedExpectation", [i, expectation(ctx, tag), lines])

    def mk(kinds):
        def setup(ctx):
            n = ctx.sym_int("n_expectations", "usize")
            m = ctx.sym_int("n_output_lines", "usize")
            ln = ctx.sym_int("line_number", "usize")
            for v in (n, m, ln):
                ctx.add(z3.ULT(v.z(), z3.BitVecVal(1200, 64)))
            ctx.add(z3.UGE(ln.z(), 1))
            items = [item(ctx, k, "it%d" % ix, n, m) for ix, k in enumerate(kinds)]
            exps = VecBuf([])
            exps.sym_len = n
            tc = mk_struct("TestCase", title=StringBuf([]), shell_expression=StringBuf([SInt(ord("x"), "char")]), expectations=exps,
                           exit_code=none(), line_number=ln, config=Opaque("config"))
            outcome = mk_struct("Outcome", location=none(), output=Opaque("output"), testcase=tc, format=Opaque("format"),
                                escaping=Agg("Escaper", "Unicode", []), result=Opaque("result"))
            # counters as Diff::new computes them from the items; the line count is only bounded from below
            nm = sum(1 for k in kinds if k == "M")
            nu = sum(1 for k in kinds if k == "U")
            nlines = sum(1 for k in kinds if k in ("M", "X"))
            ctx.add(z3.UGE(m.z(), nlines))
            diff = mk_struct("Diff", lines=VecBuf(items), count_matched=mk_int(nm, "usize"), count_unmatched=mk_int(nu, "usize"), count_output_lines=m)
            rend = mk_struct("PrettyColorRenderer", max_surrounding_lines=mk_int(5, "usize"), absolute_line_numbers=ctx.sym_bool("absolute"),
                             summarize=SBool(True))
            ctx.notes["kinds"] = kinds
            return [new_ref(rend), new_ref(outcome), new_ref(diff)]
        return setup

    def drive(ctx, args):
        """PrettyColorRenderer::render_malformed_output (styling cut, number formatting real)"""
        f = fm(ctx.program, "renderers/pretty.rs", "render_malformed_output")
        return ctx.call(f, list(args))

    def post(ctx, args, kind, value):
        return kind == "return"
    kinds_list = [["U"], ["M"], ["X"], ["U", "M"], ["M", "U"], ["X", "M"], ["M", "X"], ["U", "X"]]
    inputs = [("diff items=%s" % "".join(k), mk(k)) for k in kinds_list]
    return e2.Harness("pretty_gutter_width", drive, inputs, post, native="pretty_render", judge=None,
                      describe="render_malformed_output never panics in its line-number arithmetic for any number of expectations / output "
                               "lines and any diff items whose indices respect C02 (index < #expectations, line < #lines)",
                      bound="1–2 diff items of every kind; #expectations, #output lines, test line number < 1200 symbolic (digit-count boundaries 10/100/1000); relative and absolute numbering")


class TextModels(__import__("props.c09", fromlist=["GenModels"]).GenModels):
    """the renderers with their real text handling; console styling is the identity on the text"""

    def __init__(self):
        super().__init__()
        import re
        from mir_exec import StringBuf
        from mir_models import as_str, deref as dr
        ins = lambda pat, fn: self.table.insert(0, (re.compile("^(?:%s)$" % pat), fn))
        ident = lambda c, m, a: a[0]
        ins(r"(?:console::)?style::<.*>", ident)
        ins(r"(?:console::)?StyledObject::<.*>::[a-z_0-9]+", ident)
        ins(r"<(?:console::)?StyledObject<.*> as ToString>::to_string", lambda c, m, a: StringBuf(list(as_str(dr(a[0])).chars)))
        ins(r"(?:console::)?strip_ansi_codes", lambda c, m, a: __import__("mir_exec").Agg("Cow", "Borrowed", [as_str(a[0])]))
        ins(r"(?:console::)?colors_enabled", lambda c, m, a: SBool(False))
        # blanket impl `impl<T: AsRef<str>> TailingSpacesHighlighter for T`: the one body, T = String / &str
        from mir_exec import find_method as fm
        ins(r"<(?:String|&str|str) as TailingSpacesHighlighter>::higlight_tailing_spaces",
            lambda c, m, a: c.call(fm(c.program, "renderers/pretty.rs", "higlight_tailing_spaces"), a))
        ins(r"<T as AsRef<str>>::as_ref", lambda c, m, a: as_str(a[0]))


def long_texts(n):
    """two texts of n multi-byte characters whose character boundaries are disjoint (except 0 and the ends): a renderer that cuts at a
    fixed byte offset inside the text hits the middle of a character in one of them"""
    return ["\u00e9" * n, "a" + "\u00e9" * n]


def h_long_lines(renderer, sizes):
    """a failed test case whose matched / unmatched expectations and unexpected output line are long multi-byte texts"""
    from mir_exec import Agg, Opaque, Slice, Str, StringBuf, VecBuf, find_method, mk_int, mk_struct, new_ref
    from mir_models import none
    from props.c08 import get_maker

    def mk(text, surrounding):
        def setup(ctx):
            ctx.notes["text"] = text
            ctx.notes["surrounding"] = surrounding
            return []
        return setup

    def drive(ctx, args):
        """render(&[&outcome]) of the named renderer"""
        prog = ctx.program
        text = ctx.notes["text"]
        parse = find_method(prog, "src/expectation.rs", "parse")
        maker = get_maker(ctx)

        def exp(t):
            r = ctx.call(parse, [new_ref(maker), Str([SInt(ord(c), "char") for c in t])])
            if r.variant != "Ok":
                raise Unsupported("expectation does not parse")
            return r.fields[0]
        raw = lambda t: VecBuf([SInt(b, "u8") for b in (t + "\n").encode("utf-8")], "u8")
        e0, e1 = exp(text), exp(text + "x")
        diff = mk_struct("Diff", lines=VecBuf([
            Agg("DiffLine", "MatchedExpectation", [mk_int(0, "usize"), e0, VecBuf([Agg("tuple", None, [mk_int(0, "usize"), raw(text)])])]),
            Agg("DiffLine", "UnmatchedExpectation", [mk_int(1, "usize"), e1]),
            Agg("DiffLine", "UnexpectedLines", [VecBuf([Agg("tuple", None, [mk_int(1, "usize"), raw(text + "y")])])])]),
            count_matched=mk_int(1, "usize"), count_unmatched=mk_int(1, "usize"), count_output_lines=mk_int(2, "usize"))
        tc = mk_struct("TestCase", title=StringBuf([SInt(ord("t"), "char")]), shell_expression=StringBuf([SInt(ord(c), "char") for c in "cmd"]),
                       expectations=VecBuf([e0, e1]), exit_code=none(), line_number=mk_int(3, "usize"), config=Opaque("config"))
        out = mk_struct("Output", stderr=Agg("OutputStream", None, [VecBuf([], "u8")]), stdout=Agg("OutputStream", None, [VecBuf([], "u8")]),
                        exit_code=Agg("ExitStatus", "Code", [mk_int(0, "i32")]))
        outcome = mk_struct("Outcome", location=none(), output=out, testcase=tc, format=Agg("ParserType", "Markdown", []), escaping=Agg("Escaper", "Unicode", []),
                            result=Agg("Result", "Err", [Agg("TestCaseError", "MalformedOutput", [diff])]))
        if renderer == "diff":
            f = prog.resolve_call("<DiffRenderer as Renderer>::render")
            return ctx.call(f, [new_ref(Agg("DiffRenderer", None, [])), Slice([new_ref(outcome)])])
        rend = mk_struct("PrettyColorRenderer", max_surrounding_lines=mk_int(ctx.notes["surrounding"], "usize"), absolute_line_numbers=SBool(False), summarize=SBool(False))
        f = prog.resolve_call("<PrettyColorRenderer as Renderer>::render")
        return ctx.call(f, [new_ref(rend), Slice([new_ref(outcome)])])

    def post(ctx, args, kind, value):
        if kind != "return" or value.variant != "Ok":
            return False
        from mir_models import as_str
        text = "".join(chr(c.v) if c.concrete else "?" for c in as_str(value.fields[0]).chars)
        # both differences are shown in full
        return (ctx.notes["text"] + "x") in text and (ctx.notes["text"] + "y") in text
    inputs = []
    for n in sizes:
        for t in long_texts(n):
            for sur in ((0, 5) if renderer == "pretty" else (0,)):
                inputs.append(("%s… (%d chars, %d bytes), surrounding=%d" % (t[:2], len(t), len(t.encode()), sur), mk(t, sur)))
    h = e2.Harness("%s_renderer_long_multibyte_lines" % renderer, drive, inputs, post, native=None, judge=None,
                   describe="the %s renderer returns a rendering without panicking for a failed test case whose matched / unmatched expectations and "
                            "unexpected line are long multi-byte texts, and shows both differences in full" % renderer,
                   bound="texts of %s two-byte characters, with and without a leading one-byte character (every byte offset inside the text is a "
                         "non-boundary in one of the two)%s" % (list(sizes), "; 0 and 5 surrounding lines" if renderer == "pretty" else ""))
    h.models_cls = TextModels
    return h


def h_every_difference(renderer):
    """every diff shape of up to three items: each unmatched expectation and each unexpected line is in the rendering"""
    import itertools
    from mir_exec import Agg, Opaque, Slice, Str, StringBuf, VecBuf, find_method, mk_int, mk_struct, new_ref
    from mir_models import as_str, none
    from props.c08 import get_maker

    def mk(kinds, surrounding):
        def setup(ctx):
            ctx.notes["kinds"] = kinds
            ctx.notes["surrounding"] = surrounding
            return []
        return setup

    def drive(ctx, args):
        """render(&[&outcome]) for a diff made of matched / unmatched / unexpected items with distinct texts"""
        prog = ctx.program
        parse = find_method(prog, "src/expectation.rs", "parse")
        maker = get_maker(ctx)
        kinds = ctx.notes["kinds"]
        items, exps, must = [], [], []
        ei = li = 0
        for k in kinds:
            if k in "MU":
                text = "exp%dq" % ei
                r = ctx.call(parse, [new_ref(maker), Str([SInt(ord(c), "char") for c in text])])
                e = r.fields[0]
                exps.append(e)
            if k == "U":
                items.append(Agg("DiffLine", "UnmatchedExpectation", [mk_int(ei, "usize"), e]))
                must.append(text)
                ei += 1
            elif k == "M":
                line = VecBuf([SInt(b, "u8") for b in (text + "\n").encode()], "u8")
                items.append(Agg("DiffLine", "MatchedExpectation", [mk_int(ei, "usize"), e, VecBuf([Agg("tuple", None, [mk_int(li, "usize"), line])])]))
                ei += 1
                li += 1
            else:
                # a run of two unexpected lines
                run = []
                for _ in range(2):
                    t = "out%dz" % li
                    run.append(Agg("tuple", None, [mk_int(li, "usize"), VecBuf([SInt(b, "u8") for b in (t + "\n").encode()], "u8")]))
                    must.append(t)
                    li += 1
                items.append(Agg("DiffLine", "UnexpectedLines", [VecBuf(run)]))
        ctx.notes["must"] = must
        diff = mk_struct("Diff", lines=VecBuf(items), count_matched=mk_int(sum(1 for k in kinds if k == "M"), "usize"),
                         count_unmatched=mk_int(sum(1 for k in kinds if k == "U"), "usize"), count_output_lines=mk_int(li, "usize"))
        tc = mk_struct("TestCase", title=StringBuf([SInt(ord("t"), "char")]), shell_expression=StringBuf([SInt(ord(c), "char") for c in "cmd"]),
                       expectations=VecBuf(exps), exit_code=none(), line_number=mk_int(3, "usize"), config=Opaque("config"))
        out = mk_struct("Output", stderr=Agg("OutputStream", None, [VecBuf([], "u8")]), stdout=Agg("OutputStream", None, [VecBuf([], "u8")]),
                        exit_code=Agg("ExitStatus", "Code", [mk_int(0, "i32")]))
        outcome = mk_struct("Outcome", location=none(), output=out, testcase=tc, format=Agg("ParserType", "Markdown", []), escaping=Agg("Escaper", "Unicode", []),
                            result=Agg("Result", "Err", [Agg("TestCaseError", "MalformedOutput", [diff])]))
        if renderer == "diff":
            return ctx.call(prog.resolve_call("<DiffRenderer as Renderer>::render"), [new_ref(Agg("DiffRenderer", None, [])), Slice([new_ref(outcome)])])
        rend = mk_struct("PrettyColorRenderer", max_surrounding_lines=mk_int(ctx.notes["surrounding"], "usize"), absolute_line_numbers=SBool(False), summarize=SBool(True))
        return ctx.call(prog.resolve_call("<PrettyColorRenderer as Renderer>::render"), [new_ref(rend), Slice([new_ref(outcome)])])

    def post(ctx, args, kind, value):
        if kind != "return" or value.variant != "Ok":
            return False
        text = "".join(chr(c.v) if c.concrete else "?" for c in as_str(value.fields[0]).chars)
        return all(t in text for t in ctx.notes["must"])
    inputs = []
    for n in (1, 2, 3):
        for kinds in itertools.product("MUX", repeat=n):
            if "U" not in kinds and "X" not in kinds:
                continue
            for sur in ((0, 1, 5) if renderer == "pretty" else (0,)):
                inputs.append(("diff items=%s surrounding=%d" % ("".join(kinds), sur), mk("".join(kinds), sur)))
    if renderer == "pretty":
        # differences separated by more matched lines than the context shows (the renderer elides the middle): nothing after the gap is lost
        for head, tail in itertools.product("UX", repeat=2):
            for gap, sur in ((3, 1), (4, 1), (5, 2)):
                inputs.append(("diff items=%s surrounding=%d" % (head + "M" * gap + tail, sur), mk(head + "M" * gap + tail, sur)))
            inputs.append(("diff items=%s surrounding=1" % ("M" * 4 + tail), mk("M" * 4 + tail, 1)))
    h = e2.Harness("%s_renderer_every_difference" % renderer, drive, inputs, post, native=None, judge=None,
                   describe="the %s rendering of a failed test case contains every unmatched expectation and every unexpected output line" % renderer,
                   bound="every sequence of 1..3 diff items (matched / unmatched expectation / run of two unexpected lines) with at least one difference%s"
                         % ("; 0, 1 and 5 surrounding lines; two differences separated by 3..5 matched lines with 1..2 surrounding lines (context elided)" if renderer == "pretty" else ""))
    h.models_cls = TextModels
    return h


def h_outcome_lists(renderer, max_len):
    """lists of outcomes of every result kind: a rendering comes back, it shows every difference of every failed test case and has no section
    for a test case that passed"""
    import itertools
    from mir_exec import UNIT, Agg, Opaque, Slice, Str, StringBuf, VecBuf, find_method, mk_int, mk_struct, new_ref
    from mir_models import as_str, none, some
    from props.c08 import get_maker

    def mk(kinds, located):
        def setup(ctx):
            ctx.notes["kinds"] = kinds
            ctx.notes["located"] = located
            return []
        return setup

    def drive(ctx, args):
        """render(&[&outcome…]) for passed / malformed-output / wrong-exit-code / timed-out / skipped outcomes with distinct texts"""
        from mir_exec import STRUCTS as STRUCTS_
        prog = ctx.program
        parse = find_method(prog, "src/expectation.rs", "parse")
        maker = get_maker(ctx)
        outcomes, must, must_not = [], [], []
        for i, k in enumerate(ctx.notes["kinds"]):
            text = lambda t: [SInt(ord(c), "char") for c in t]
            exp = ctx.call(parse, [new_ref(maker), Str(text("want%dq" % i))]).fields[0]
            line = VecBuf([SInt(b, "u8") for b in ("got%dz\n" % i).encode()], "u8")
            # located == "same": every outcome carries the same location and line number (test cases of prepend / append documents are reported
            # under the document's location with the line numbers of their own files)
            same = ctx.notes["located"] == "same"
            tc = mk_struct("TestCase", title=StringBuf(text("title%dt" % i)), shell_expression=StringBuf(text("cmd%dc" % i)), expectations=VecBuf([exp]),
                           exit_code=none(), line_number=mk_int(3 if same else 3 + 10 * i, "usize"), config=Opaque("config"))
            status = Agg("ExitStatus", "Code", [mk_int(4 if k in "CZ" else 0, "i32")])
            if k == "Z":
                # wrong exit code of a test case that spells out `[0]`
                tc.fields[STRUCTS_["TestCase"].index("exit_code")] = some(mk_int(0, "i32"))
            if k == "P":
                res = Agg("Result", "Ok", [UNIT])
                must_not += ["title%dt" % i, "cmd%dc" % i, "want%dq" % i]
            elif k == "F":
                diff = mk_struct("Diff", lines=VecBuf([Agg("DiffLine", "UnmatchedExpectation", [mk_int(0, "usize"), exp]),
                                                       Agg("DiffLine", "UnexpectedLines", [VecBuf([Agg("tuple", None, [mk_int(0, "usize"), line])])])]),
                                 count_matched=mk_int(0, "usize"), count_unmatched=mk_int(1, "usize"), count_output_lines=mk_int(1, "usize"))
                res = Agg("Result", "Err", [Agg("TestCaseError", "MalformedOutput", [diff])])
                must += ["want%dq" % i, "got%dz" % i]
            elif k in "CZ":
                res = Agg("Result", "Err", [Agg("TestCaseError", "InvalidExitCode", [mk_int(4, "i32"), mk_int(0, "i32")])])
                must += ["4"] + (["-[0]", "+[4]"] if k == "Z" and renderer == "diff" else [])
            elif k == "T":
                res = Agg("Result", "Err", [Agg("TestCaseError", "Timeout", [])])
            else:
                res = Agg("Result", "Err", [Agg("TestCaseError", "Skipped", [])])
            out = mk_struct("Output", stderr=Agg("OutputStream", None, [VecBuf([], "u8")]),
                            stdout=Agg("OutputStream", None, [VecBuf(list(line.items) if k in "FCZ" else [], "u8")]), exit_code=status)
            loc = some(StringBuf(text("doc%d.md" % (0 if same else i % 2)))) if ctx.notes["located"] else none()
            outcomes.append(new_ref(mk_struct("Outcome", location=loc, output=out, testcase=tc, format=Agg("ParserType", "Markdown", []),
                                              escaping=Agg("Escaper", "Unicode", []), result=res)))
        ctx.notes["must"], ctx.notes["must_not"] = must, must_not
        if renderer == "diff":
            return ctx.call(prog.resolve_call("<DiffRenderer as Renderer>::render"), [new_ref(Agg("DiffRenderer", None, [])), Slice(outcomes)])
        rend = mk_struct("PrettyColorRenderer", max_surrounding_lines=mk_int(1, "usize"), absolute_line_numbers=SBool(False), summarize=SBool(True))
        return ctx.call(prog.resolve_call("<PrettyColorRenderer as Renderer>::render"), [new_ref(rend), Slice(outcomes)])

    def post(ctx, args, kind, value):
        if kind != "return" or value.variant != "Ok":
            return False
        text = "".join(chr(c.v) if c.concrete else "?" for c in as_str(value.fields[0]).chars)
        return all(t in text for t in ctx.notes["must"]) and not any(t in text for t in ctx.notes["must_not"])
    inputs = [("outcomes=%s located=%s" % ("".join(k), loc), mk("".join(k), loc)) for n in range(0, max_len + 1) for k in itertools.product("PFCZTS" if n < 3 else "PFCTS", repeat=n) for loc in (False, True, "same") if not (loc == "same" and n < 2)]
    h = e2.Harness("%s_renderer_outcome_lists" % renderer, drive, inputs, post, native=None, judge=None,
                   describe="the %s renderer returns a rendering for every list of outcomes; it contains the unmatched expectation and the unexpected line of every "
                            "test case that failed on its output and the actual exit code of one that failed on its exit code, and nothing (title, command, "
                            "expectation) of a test case that passed" % renderer,
                   bound="every list of 0..%d outcomes over passed / malformed output / wrong exit code (also of a test that writes `[0]`) / timed out / skipped; with and without locations "
                         "(two documents alternating; or one location and one line number for all, as test cases of prepend / append documents have)" % max_len)
    h.models_cls = TextModels
    return h


def h_outcome_serialize():
    """`impl Serialize for Outcome` (what the json / yaml renderers write per outcome) against a recording serializer"""
    import re
    from mir_exec import Agg, Opaque, StringBuf, VecBuf, find_method, mk_int, mk_struct, new_ref, UNIT
    from mir_models import Models, as_str, deref, none, ok, some

    class SerModels(Models):
        def __init__(self):
            super().__init__()
            ins = lambda pat, fn: self.table.insert(0, (re.compile("^(?:%s)$" % pat), fn))
            ins(r"<S as (?:[a-z_:]+::)?Serializer>::serialize_map", lambda c, m, a: ok(Agg("RecordingMap", None, [a[1], VecBuf([])])))

            def entry(c, m, a):
                mp = deref(a[0])
                mp.fields[1].items.append(StringBuf(list(as_str(a[1]).chars)))
                return ok(UNIT)
            ins(r"<<S as (?:[a-z_:]+::)?Serializer>::SerializeMap as (?:[a-z_:]+::)?SerializeMap>::serialize_entry::<.*>", entry)
            ins(r"<<S as (?:[a-z_:]+::)?Serializer>::SerializeMap as (?:[a-z_:]+::)?SerializeMap>::end", lambda c, m, a: ok(deref(a[0])))

    def mk(location, title, result):
        def setup(ctx):
            ctx.notes["case"] = (location, title, result)
            res = Agg("Result", "Ok", [UNIT]) if result == "passed" else Agg("Result", "Err", [Agg("TestCaseError", {"timeout": "Timeout", "skipped": "Skipped"}[result], [])])
            tc = mk_struct("TestCase", title=StringBuf([SInt(ord(c), "char") for c in title]), shell_expression=StringBuf([SInt(ord("x"), "char")]),
                           expectations=VecBuf([]), exit_code=none(), line_number=mk_int(1, "usize"), config=Opaque("config"))
            outcome = mk_struct("Outcome", location=some(StringBuf([SInt(ord(c), "char") for c in location])) if location else none(), output=Opaque("output"),
                                testcase=tc, format=Agg("ParserType", "Markdown", []), escaping=Agg("Escaper", "Unicode", []), result=res)
            return [new_ref(outcome), Agg("RecordingSerializer", None, [])]
        return setup

    def post(ctx, args, kind, value):
        if kind != "return" or value.variant != "Ok":
            return False
        mp = value.fields[0]
        declared, keys = mp.fields[0], ["".join(chr(c.v) for c in as_str(k).chars) for k in mp.fields[1].items]
        location, title, result = ctx.notes["case"]
        if declared.variant == "Some" and not (declared.fields[0].concrete and declared.fields[0].v == len(keys)):
            return False          # the announced number of entries is what some serializers (serde_json for 0) act on
        if len(set(keys)) != len(keys) or "result" not in keys:
            return False
        if (location != "") != ("location" in keys):
            return False
        return ("title" in keys) if result == "passed" else ("output" in keys and "testcase" in keys)
    inputs = [("location=%r title=%r result=%s" % (l, t, r), mk(l, t, r)) for l in ("", "doc.md") for t in ("", "a title") for r in ("passed", "timeout", "skipped")]
    h = e2.Harness("outcome_serialization_entries", "outcome::<impl at src/outcome.rs", inputs, post, native=None, judge=None,
                   describe="every outcome is written as one map whose announced size equals the entries written, with a `result` entry, `location` iff set, "
                            "`title` for a passed test and `output` + `testcase` for a failed one",
                   bound="location unset / set × title empty / non-empty × result passed / timed out / skipped")
    h.models_cls = SerModels
    return h


def h_diff_renderer(max_bytes):
    """`-r diff` on one failed test case whose diff has an unmatched expectation and one unexpected output line of arbitrary bytes"""
    from mir_exec import Agg, Opaque, Slice, Str, StringBuf, VecBuf, find_method, mk_int, mk_struct, new_ref
    from mir_models import as_str, none
    from props.c08 import get_maker

    def mk(n, nl):
        def setup(ctx):
            bs = [ctx.sym_int("b%d" % i, "u8") for i in range(n)]
            for b in bs:
                ctx.add(b.z() != 10)
            ctx.notes["bytes"] = bs
            ctx.notes["nl"] = nl
            return []
        return setup

    def drive(ctx, args):
        """<DiffRenderer as Renderer>::render(&[&outcome])"""
        prog = ctx.program
        parse = find_method(prog, "src/expectation.rs", "parse")
        r = ctx.call(parse, [new_ref(get_maker(ctx)), Str([SInt(ord(c), "char") for c in "want"])])
        exp = r.fields[0]
        line = list(ctx.notes["bytes"]) + ([SInt(10, "u8")] if ctx.notes["nl"] else [])
        diff = mk_struct("Diff", lines=VecBuf([Agg("DiffLine", "UnmatchedExpectation", [mk_int(0, "usize"), exp]),
                                               Agg("DiffLine", "UnexpectedLines", [VecBuf([Agg("tuple", None, [mk_int(0, "usize"), VecBuf(line, "u8")])])])]),
                         count_matched=mk_int(0, "usize"), count_unmatched=mk_int(1, "usize"), count_output_lines=mk_int(1, "usize"))
        tc = mk_struct("TestCase", title=StringBuf([SInt(ord("t"), "char")]), shell_expression=StringBuf([SInt(ord(c), "char") for c in "cmd"]),
                       expectations=VecBuf([exp]), exit_code=none(), line_number=mk_int(3, "usize"), config=Opaque("config"))
        out = mk_struct("Output", stderr=Agg("OutputStream", None, [VecBuf([], "u8")]), stdout=Agg("OutputStream", None, [VecBuf(line, "u8")]),
                        exit_code=Agg("ExitStatus", "Code", [mk_int(0, "i32")]))
        outcome = mk_struct("Outcome", location=none(), output=out, testcase=tc, format=Agg("ParserType", "Markdown", []), escaping=Agg("Escaper", "Unicode", []),
                            result=Agg("Result", "Err", [Agg("TestCaseError", "MalformedOutput", [diff])]))
        render = prog.resolve_call("<DiffRenderer as Renderer>::render")
        return ctx.call(render, [new_ref(Agg("DiffRenderer", None, [])), Slice([new_ref(outcome)])])

    def post(ctx, args, kind, value):
        if kind != "return":
            return False              # a panic is a crash
        if value.variant != "Ok":
            return False              # no rendering for a failed test case
        text = list(as_str(value.fields[0]).chars)
        lines, cur = [], []
        for ch in text:
            if ch.concrete and ch.v == 10:
                lines.append(cur)
                cur = []
            else:
                cur.append(ch)
        minus = [ln for ln in lines if ln and ln[0].concrete and ln[0].v == ord("-")]
        plus = [ln for ln in lines if ln and ln[0].concrete and ln[0].v == ord("+")]
        if len(minus) != 1 or len(plus) != 1:
            return False              # the unmatched expectation and the unexpected line are each shown once
        return all(c.concrete and c.v == ord(x) for c, x in zip(minus[0][1:], "want")) and len(minus[0]) == 5 and len(plus[0]) > 1 or ctx.notes["bytes"] == []
    inputs = [("unexpected line of %d byte(s), newline=%s" % (n, nl), mk(n, nl)) for n in range(0, max_bytes + 1) for nl in (True, False)]
    return e2.Harness("diff_renderer_shows_every_difference", drive, inputs, post, native=None, judge=None,
                      describe="the diff renderer returns a rendering (no error, no panic) with one `-` line for the unmatched expectation and one `+` "
                               "line for the unexpected output line, whatever bytes that line holds",
                      bound="one failed test case; unexpected line of 0..%d arbitrary bytes (valid and invalid UTF-8) with/without final newline" % max_bytes)


def run(pid, tier):
    global NAT
    rep = Report(pid, tier, "other")
    build_native()
    mir, mir_s = e2.dump_mir("lib")
    prog = load_program(mir, e2.REPO + "/src")
    NAT = e2.NativeEval()
    rnd = random.Random(seed())
    n = 6 if tier == "quick" else 8
    val = []
    alphabet = [ord("a"), 0x20, 9, 0xA0, 0x3000, 0xe9, 0x1F600]
    for _ in range(40):
        k = rnd.randint(0, 5)
        val.append([e2.concrete_str("".join(chr(rnd.choice(alphabet)) for _ in range(k)))])
    e2.process(rep, prog, NAT, h_space_start(n), tier, validate_inputs=val)
    hl = h_line_number()
    val2 = [[SInt(m, "usize"), some(SInt(rnd.randint(0, m), "usize"))] for m in (0, 1, 9, 10, 99, 100, 12345)]
    e2.process(rep, prog, NAT, hl, tier, validate_inputs=val2,
               to_native_args=lambda a: [a[0], a[1]["Some"] if isinstance(a[1], dict) else a[1]])
    hg = h_gutter()
    hg.models_cls = lambda: PrettyModels(prog)
    resg = e2.run_with_raw(prog, hg)
    for model, r in resg.raw_witnesses[:4]:
        kinds = r.ctx.notes["kinds"]
        args = r.ctx.notes["args"]
        diff = args[2].loc.get()
        outcome = args[1].loc.get()
        from mir_exec import field_of as fo
        n = e2.model_int(model, fo(fo(outcome, "testcase"), "expectations").sym_len)
        its = []
        for it in fo(diff, "lines").items:
            if it.variant == "UnmatchedExpectation":
                its.append({"kind": "U", "index": e2.model_int(model, it.fields[0])})
            elif it.variant == "MatchedExpectation":
                its.append({"kind": "M", "index": e2.model_int(model, it.fields[0]), "line": e2.model_int(model, it.fields[2].items[0].fields[0]),
                            "multiline": bool(z3.is_true(model.eval(it.fields[1].fields[1].z(), model_completion=True)))})
            else:
                its.append({"kind": "X", "line": e2.model_int(model, it.fields[0].items[0].fields[0])})
        w = {"expectations": min(n, 2000), "items": its, "absolute": bool(z3.is_true(model.eval(args[0].loc.get().fields[1].z(), model_completion=True))),
             "line_number": min(e2.model_int(model, fo(fo(outcome, "testcase"), "line_number")), 10 ** 6)}
        nk, nv = NAT.call("pretty_render", [w])
        if nk == "panic":
            rep.violation("pretty:gutter-underflow", "the pretty renderer panics (%s) on a failed test with %d expectations and diff items %s"
                          % (str(nv)[:60], w["expectations"], its), {"kind": "eval", "fn": "pretty_render", "args": [w], "native": [nk, nv], "harness": hg.name})
        else:
            rep.mismatches.append("pretty_gutter_width: solver witness did not reproduce natively: %s → %s" % (w, str(nv)[:80]))
    e2.record(rep, hg, resg)
    # the diff renderer on arbitrary output bytes
    from props.c09 import GenModels
    hd = h_diff_renderer(2 if tier == "quick" else 3)
    hd.models_cls = GenModels
    resd = e2.run_with_raw(prog, hd, max_witnesses=6)
    for model, r in resd.raw_witnesses[:6]:
        line = bytes(e2.model_int(model, b) for b in r.ctx.notes["bytes"]) + (b"\n" if r.ctx.notes["nl"] else b"")
        nk, nv = NAT.call("render_unexpected_line", [list(line)])
        bad = [k for k in ("diff", "pretty", "json", "yaml") if nk != "return" or "Ok" not in nv.get(k, {})]
        try:
            line.decode("utf-8")
            cls = "valid-utf8"
        except UnicodeDecodeError:
            cls = "invalid-utf8"
        if bad:
            rep.violation("renderer-fails:%s:%s" % ("+".join(bad), cls), "renderer(s) %s return no rendering for a failed test case whose unexpected output line is %r: %s"
                          % (bad, line, {k: nv.get(k) for k in bad} if nk == "return" else nv),
                          {"kind": "eval", "fn": "render_unexpected_line", "args": [list(line)], "native": [nk, nv], "harness": hd.name})
        elif nk == "return" and ("\n-want\n" not in "\n" + nv["diff"]["Ok"]
                                 or [len(ln) > 1 or line in (b"", b"\n") for ln in nv["diff"]["Ok"].split("\n") if ln.startswith("+")] != [True]):
            rep.violation("diff-renderer:difference-missing:%s" % cls, "the diff rendering of an unmatched expectation `want` and the unexpected line %r lacks one of them: %r"
                          % (line, nv["diff"]["Ok"]), {"kind": "eval", "fn": "render_unexpected_line", "args": [list(line)], "native": [nk, nv], "harness": hd.name})
        else:
            rep.mismatches.append("%s: solver witness %r did not reproduce natively: %s" % (hd.name, line, str(nv)[:200]))
    e2.record(rep, hd, resd)
    # long multi-byte lines through the real text paths of the pretty and diff renderers
    sizes = [40, 100, 200] if tier == "quick" else [20, 40, 70, 100, 150, 200, 300, 500]
    for rend in ("pretty", "diff"):
        hl2 = h_long_lines(rend, sizes)
        resl = e2.run_with_raw(prog, hl2, max_witnesses=4)
        for model, r in resl.raw_witnesses[:4]:
            text = r.ctx.notes["text"]
            nk, nv = NAT.call("render_long_lines", [text, r.ctx.notes["surrounding"]])
            got = nv.get(rend) if nk == "return" else None
            if nk == "panic" or got is None or "Ok" not in got or (text + "x") not in got["Ok"] or (text + "y") not in got["Ok"]:
                rep.violation("%s-renderer:long-multibyte-line:%s" % (rend, "panic" if nk == "panic" or (got and "panic" in got) else "difference-missing"),
                              "the %s renderer %s on a failed test case whose lines are %d two-byte characters%s (%d surrounding lines): %s"
                              % (rend, "panics" if nk == "panic" or (got and "panic" in got) else "does not show both differences in full", text.count("\u00e9"),
                                 " after one ASCII character" if text.startswith("a") else "", r.ctx.notes["surrounding"], str(nv if got is None else got)[:160]),
                              {"kind": "eval", "fn": "render_long_lines", "args": [text, r.ctx.notes["surrounding"]], "native": [nk, str(nv)[:400]], "harness": hl2.name})
            else:
                rep.mismatches.append("%s: solver witness (%d chars) did not reproduce natively" % (hl2.name, len(text)))
        e2.record(rep, hl2, resl)
    # what json / yaml write per outcome
    hs = h_outcome_serialize()
    hs.func = [n for n in prog.funcs if re.search(r"<impl at src/outcome\.rs[^>]*>::serialize$", n)][0]
    ress = e2.run_with_raw(prog, hs, max_witnesses=4)
    for model, r in ress.raw_witnesses[:4]:
        location, title, result = r.ctx.notes["case"]
        nk, nv = NAT.call("render_structured", [location or None, title, result])
        bad = None
        if nk != "return":
            bad = "the structured renderers panic: %s" % str(nv)[:100]
        else:
            try:
                entries = json.loads(nv["json"]["Ok"])
                if not (isinstance(entries, list) and len(entries) == 1 and "result" in entries[0]):
                    bad = "json has not one entry with its result: %r" % nv["json"]["Ok"][:120]
            except Exception as e:
                bad = "json is not well-formed (%s): %r" % (e, str(nv.get("json"))[:120])
        if bad:
            rep.violation("structured-renderer:%s:%s:%s" % ("located" if location else "no-location", "titled" if title else "untitled", result),
                          "outcome with location=%r title=%r result=%s: %s" % (location, title, result, bad),
                          {"kind": "eval", "fn": "render_structured", "args": [location or None, title, result], "native": [nk, nv], "harness": hs.name})
        else:
            rep.mismatches.append("%s: solver witness %s did not reproduce natively: %s" % (hs.name, (location, title, result), str(nv)[:200]))
    e2.record(rep, hs, ress)
    # every difference of every small diff shape is in the rendering
    for rend in ("pretty", "diff"):
        he = h_every_difference(rend)
        rese = e2.run_with_raw(prog, he, max_witnesses=4)
        for model, r in rese.raw_witnesses[:4]:
            kinds, sur = r.ctx.notes["kinds"], r.ctx.notes["surrounding"]
            nk, nv = NAT.call("render_diff_shape", [kinds, sur])
            got = nv.get(rend) if nk == "return" else None
            text = got.get("Ok") if isinstance(got, dict) else None
            missing = [t for t in r.ctx.notes["must"] if text is None or t not in text]
            if missing:
                rep.violation("%s-renderer:difference-not-shown" % rend, "the %s rendering of the diff shape %s (%d surrounding lines) lacks %s: %s"
                              % (rend, kinds, sur, missing, str(got)[:200]),
                              {"kind": "eval", "fn": "render_diff_shape", "args": [kinds, sur], "native": [nk, str(nv)[:600]], "harness": he.name})
            else:
                rep.mismatches.append("%s: solver witness %s/%d did not reproduce natively" % (he.name, kinds, sur))
        e2.record(rep, he, rese)
    # lists of outcomes of every result kind
    for rend in ("pretty", "diff"):
        ho = h_outcome_lists(rend, 2 if tier == "quick" else 3)
        reso = e2.run_with_raw(prog, ho, max_witnesses=4)
        for model, r in reso.raw_witnesses[:4]:
            kinds, located = r.ctx.notes["kinds"], r.ctx.notes["located"]
            nk, nv = NAT.call("render_outcome_list", [kinds, located])
            got = nv.get(rend) if nk == "return" else None
            text = got.get("Ok") if isinstance(got, dict) else None
            missing = [t for t in r.ctx.notes["must"] if text is None or t not in text]
            extra = [t for t in r.ctx.notes["must_not"] if text is not None and t in text]
            if text is None or missing or extra:
                rep.violation("%s-renderer:outcome-list:%s" % (rend, "no-rendering" if text is None else "difference-not-shown" if missing else "section-for-passed-test"),
                              "the %s rendering of the outcomes %s (located=%s) %s: %s" % (rend, kinds, located, "fails" if text is None else
                                                                                       ("lacks %s" % missing if missing else "shows %s of a passed test" % extra), str(got)[:300]),
                              {"kind": "eval", "fn": "render_outcome_list", "args": [kinds, located], "native": [nk, str(nv)[:800]], "harness": ho.name})
            else:
                rep.mismatches.append("%s: solver witness %s/%s did not reproduce natively" % (ho.name, kinds, located))
        e2.record(rep, ho, reso)
    # second engine on the same claim: Kani on the compiled function (quick: it takes ~20 s)
    k = kani.run_harness("c19::c19_space_start_index_is_char_boundary", timeout_s=600)
    st = {"pass": "holds", "fail": "violated", "undecided": "undecided"}[k["status"]]
    if k["status"] == "fail" and not k.get("unwinding_failure"):
        bs = kani.decode_bytes_len(k["playback"][0], 5) if k.get("playback") else None
        ok = False
        if bs is not None:
            try:
                text = bytes(bs).decode("utf-8")
                nk, nv = NAT.call("space_start_index", [text])
                bounds, pos = {0}, 0
                for ch in text:
                    pos += len(ch.encode())
                    bounds.add(pos)
                if nk != "return" or nv not in bounds:
                    ok = True
                    rep.violation("space-index:not-char-boundary",
                                  "trailing-whitespace index %s is not a char boundary of %r (Kani counterexample)" % (nv, text),
                                  {"kind": "eval", "fn": "space_start_index", "args": [text], "native": [nk, nv], "harness": k["harness"]})
            except UnicodeDecodeError:
                pass
        if not ok:
            rep.mismatches.append("Kani counterexample for %s did not reproduce natively: %s" % (k["harness"], bs))
    elif k["status"] != "pass":
        rep.undecided.append("%s: %s" % (k["harness"], k.get("why", "unwinding bound too small")))
        st = "undecided"
    rep.subclaim(name=k["harness"], engine="E1 (Kani/CBMC)", bound="valid UTF-8 <= 5 bytes, unwind 8, unwinding assertions on",
                 what="index <= len and is_char_boundary(index)", result=st, checks=k.get("checks"), covers=k.get("covers"),
                 cbmc_s=k.get("cbmc_s"), wall_s=k["wall_s"], sat_vars=k.get("sat_vars"), sat_clauses=k.get("sat_clauses"))
    NAT.close()
    tot_paths = sum(s.get("paths", 0) for s in rep.subclaims)
    rep.coverage.update({
        "explanation": "SMT decision (z3) over a bounded symbolic execution of the MIR of the real functions "
                       "(concrete UTF-8 shapes, symbolic contents), cross-checked by a Kani harness on the compiled function; "
                       "witnesses replayed natively. Claimed only for the two crash-prone computations of the pretty renderer; "
                       "diff/json/yaml renderers and 'every difference is shown' are outside.",
        "functions_encoded": ["scrut::renderers::pretty::space_start_index", "scrut::renderers::pretty::Decorator::new",
                              "scrut::renderers::pretty::Decorator::output_line_number", "Decorator::expectation_line_number",
                              "<PrettyColorRenderer as ErrorRenderer>::render_malformed_output (styling cut)"],
        "evaluations": tot_paths, "distinct_nontrivial": tot_paths,
        "rule": "one case = one feasible path of the MIR under one input shape; distinct by path condition",
        "samples": [s for sc in rep.subclaims for s in sc.get("samples", [])][:4] or ["see subclaims"],
        "mir_dump_s": round(mir_s, 1),
    })
    rep.assumptions += ["std contract models of mir_models.py (str::chars, Rev, Enumerate, char::is_whitespace, str::len, "
                        "usize::to_string, format!) — validated on concrete inputs against the native build on every run",
                        "compositional link: numbers passed to the decorator are <= its maximum by C02's conservation facts"]
    return rep.finish()
