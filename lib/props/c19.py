"""C19 (partial) — the pretty renderer cannot crash on the two computations that index / subtract:
   (a) `space_start_index`: the split index handed to `&input[0..i]` / `&input[i..]` by
       `higlight_tailing_spaces` is a char boundary <= len and is exactly the start of the trailing
       whitespace;  (b) `Decorator::output_line_number`: `width - digits(num)` cannot underflow for
       num <= the maximum the decorator was built for."""
import random

import z3

import e2
import kani
from common import Report, build_native, seed
from mir_exec import SInt, Agg, load_program
from mir_models import is_whitespace, none, some, z_and, z_or, z_not

WS = [9, 10, 11, 12, 13, 0x20, 0x85, 0xA0, 0x1680, 0x2000, 0x2003, 0x200A, 0x2028, 0x2029, 0x202F, 0x205F, 0x3000]


def py_is_ws(cp):
    return cp in (9, 10, 11, 12, 13, 0x20, 0x85, 0xA0, 0x1680, 0x2028, 0x2029, 0x202F, 0x205F, 0x3000) or 0x2000 <= cp <= 0x200A


def h_space_start(max_bytes):
    def post(ctx, args, kind, value):
        if kind != "return":
            return False
        s = args[0]
        widths = [ctx.cwidth(c) for c in s.chars]
        bounds = [0]
        for w in widths:
            bounds.append(bounds[-1] + w)
        if not value.concrete:
            return False
        if value.v not in bounds:
            return False
        k = bounds.index(value.v)
        # everything from k on is whitespace, the char before k is not
        conds = [is_whitespace(c) for c in s.chars[k:]]
        if k > 0:
            conds.append(z_not(is_whitespace(s.chars[k - 1])))
        return z_and(conds)

    def judge(args, nk, nv):
        text = args[0]
        if nk != "return":
            return True, "space_start_index panics on %r" % text, "space-index:panic"
        b = text.encode("utf-8")
        want = len(text.rstrip("".join(chr(c) for c in range(0x3001) if py_is_ws(c))).encode("utf-8"))
        # does the index split a character?
        bounds, pos = {0}, 0
        for ch in text:
            pos += len(ch.encode("utf-8"))
            bounds.add(pos)
        if nv not in bounds:
            hk, hv = NAT.call("higlight_tailing_spaces", [text])
            return True, ("trailing-whitespace index %d is not a char boundary of %r (%d bytes); "
                          "higlight_tailing_spaces → %s" % (nv, text, len(b), hk)), "space-index:not-char-boundary"
        if nv != want:
            return True, "trailing-whitespace index %d != %d for %r" % (nv, want, text), "space-index:wrong-split"
        return False, "", ""
    inputs = [("widths=%s" % sh, (lambda ctx, sh=sh: [ctx.sym_str("s", sh)])) for sh in e2.str_shapes(max_bytes)]
    return e2.Harness("space_start_index", "pretty::space_start_index", inputs, post, native="space_start_index",
                      describe="index is a char boundary <= len and is exactly where the trailing whitespace starts",
                      bound="all valid UTF-8 strings of <= %d bytes" % max_bytes, judge=judge)


def h_line_number():
    def setup(ctx):
        mx = ctx.sym_int("max", "usize")
        num = ctx.sym_int("num", "usize")
        ctx.assume(z3.ULE(num.z(), mx.z()))
        return [mx, some(num)]

    def post(ctx, args, kind, value):
        return kind == "return"

    def judge(args, nk, nv):
        if nk != "return":
            return True, "Decorator::new(%s).output_line_number(%s) panics" % (args[0], args[1]), "line-number:underflow"
        return False, "", ""
    return e2.Harness("decorator_line_number", "pretty::verif_hooks::decorator_output_line_number",
                      [("num<=max", setup)], post, native="decorator_output_line_number",
                      describe="Decorator::new(max).output_line_number(Some(num)) does not panic for num <= max",
                      bound="all usize max, num with num <= max (digit counts enumerated by forking)", judge=judge)


NAT = None


class PrettyModels(__import__("mir_models").Models):
    """render_malformed_output with the styling / text parts cut: `Decorator::line` is replaced by calls to the two real
    number-formatting methods (the only arithmetic), expectation / output texts are constant"""

    def __init__(self, prog):
        super().__init__()
        import re
        from mir_exec import StringBuf, Str, find_method as fm, new_ref as nr
        from mir_models import deref as dr, usize
        line = fm(prog, "renderers/pretty.rs", "line")
        eln = fm(prog, "renderers/pretty.rs", "expectation_line_number")
        oln = fm(prog, "renderers/pretty.rs", "output_line_number")

        def line_override(ctx, fname, args):
            dec, line_no, exp_no, multiline = args[0], args[1], args[2], args[3]
            ctx.notes.setdefault("numbers", []).append((line_no, exp_no))
            ctx.call(eln, [dec, exp_no, multiline])
            ctx.call(oln, [dec, line_no])
            return StringBuf([SInt(ord("L"), "char")])
        self.overrides[line] = line_override
        tes = prog.resolve_call("Expectation::to_expression_string")
        if tes:
            self.overrides[tes] = lambda ctx, fname, args: StringBuf([SInt(ord("e"), "char")])
        esc = prog.resolve_call("Escaper::escaped_expectation")
        if esc:
            self.overrides[esc] = lambda ctx, fname, args: StringBuf([SInt(ord("o"), "char")])
        ins = lambda pat, fn: self.table.insert(0, (re.compile("^(?:%s)$" % pat), fn))
        ins(r"<String as TailingSpacesHighlighter>::higlight_tailing_spaces|<&str as TailingSpacesHighlighter>::higlight_tailing_spaces",
            lambda c, m, a: StringBuf(list(__import__("mir_models").as_str(a[0]).chars)))

        def vec_len(c, m, a):
            v = dr(a[0])
            n = getattr(v, "sym_len", None)
            return n if n is not None else usize(len(v.items))
        ins(r"Vec::<Expectation>::len", vec_len)
        ins(r"<usize as Add<&usize>>::add|<usize as Add>::add", lambda c, m, a: c.binop("Add", dr(a[0]), dr(a[1])))
        ins(r"<&\[u8\] as BytesNewline>::ends_in_newline", lambda c, m, a: SBool(True))

        def str_matches_count(c, m, a):
            return __import__("mir_models").SeqIt([])
        ins(r"core::str::<impl str>::matches::<char>", str_matches_count)


def h_gutter():
    from mir_exec import Agg, Opaque, SBool, StringBuf, VecBuf, mk_struct, new_ref, find_method as fm, mk_int
    from mir_models import none

    def expectation(ctx, tag):
        return mk_struct("Expectation", optional=SBool(False), multiline=ctx.sym_bool(tag + "_multi"), rule=Opaque("rule"), original=StringBuf([]))

    def item(ctx, kind, tag, n, m):
        if kind == "U":
            i = ctx.sym_int(tag + "_i", "usize")
            ctx.add(z3.ULT(i.z(), n.z()))
            return Agg("DiffLine", "UnmatchedExpectation", [i, expectation(ctx, tag)])
        j = ctx.sym_int(tag + "_j", "usize")
        ctx.add(z3.ULT(j.z(), m.z()))
        lines = VecBuf([Agg("tuple", None, [j, VecBuf([SInt(ord("x"), "u8"), SInt(10, "u8")], "u8")])])
        if kind == "X":
            return Agg("DiffLine", "UnexpectedLines", [lines])
        i = ctx.sym_int(tag + "_i", "usize")
        ctx.add(z3.ULT(i.z(), n.z()))
        return Agg("DiffLine", "MatchedExpectation", [i, expectation(ctx, tag), lines])

    def mk(kinds):
        def setup(ctx):
            n = ctx.sym_int("n_expectations", "usize")
            m = ctx.sym_int("n_output_lines", "usize")
            ln = ctx.sym_int("line_number", "usize")
            for v in (n, m, ln):
                ctx.add(z3.ULT(v.z(), z3.BitVecVal(1200, 64)))
            ctx.add(z3.UGE(ln.z(), 1))
            items = [item(ctx, k, "it%d" % ix, n, m) for ix, k in enumerate(kinds)]
            exps = VecBuf([])
            exps.sym_len = n
            tc = mk_struct("TestCase", title=StringBuf([]), shell_expression=StringBuf([SInt(ord("x"), "char")]), expectations=exps,
                           exit_code=none(), line_number=ln, config=Opaque("config"))
            outcome = mk_struct("Outcome", location=none(), output=Opaque("output"), testcase=tc, format=Opaque("format"),
                                escaping=Agg("Escaper", "Unicode", []), result=Opaque("result"))
            # counters as Diff::new computes them from the items; the line count is only bounded from below
            nm = sum(1 for k in kinds if k == "M")
            nu = sum(1 for k in kinds if k == "U")
            nlines = sum(1 for k in kinds if k in ("M", "X"))
            ctx.add(z3.UGE(m.z(), nlines))
            diff = mk_struct("Diff", lines=VecBuf(items), count_matched=mk_int(nm, "usize"), count_unmatched=mk_int(nu, "usize"), count_output_lines=m)
            rend = mk_struct("PrettyColorRenderer", max_surrounding_lines=mk_int(5, "usize"), absolute_line_numbers=ctx.sym_bool("absolute"),
                             summarize=SBool(True))
            ctx.notes["kinds"] = kinds
            return [new_ref(rend), new_ref(outcome), new_ref(diff)]
        return setup

    def drive(ctx, args):
        """PrettyColorRenderer::render_malformed_output (styling cut, number formatting real)"""
        f = fm(ctx.program, "renderers/pretty.rs", "render_malformed_output")
        return ctx.call(f, list(args))

    def post(ctx, args, kind, value):
        return kind == "return"
    kinds_list = [["U"], ["M"], ["X"], ["U", "M"], ["M", "U"], ["X", "M"], ["M", "X"], ["U", "X"]]
    inputs = [("diff items=%s" % "".join(k), mk(k)) for k in kinds_list]
    return e2.Harness("pretty_gutter_width", drive, inputs, post, native="pretty_render", judge=None,
                      describe="render_malformed_output never panics in its line-number arithmetic for any number of expectations / output "
                               "lines and any diff items whose indices respect C02 (index < #expectations, line < #lines)",
                      bound="1–2 diff items of every kind; #expectations, #output lines, test line number < 1200 symbolic (digit-count boundaries 10/100/1000); relative and absolute numbering")


def run(pid, tier):
    global NAT
    rep = Report(pid, tier, "other")
    build_native()
    mir, mir_s = e2.dump_mir("lib")
    prog = load_program(mir, e2.REPO + "/src")
    NAT = e2.NativeEval()
    rnd = random.Random(seed())
    n = 6 if tier == "quick" else 8
    val = []
    alphabet = [ord("a"), 0x20, 9, 0xA0, 0x3000, 0xe9, 0x1F600]
    for _ in range(40):
        k = rnd.randint(0, 5)
        val.append([e2.concrete_str("".join(chr(rnd.choice(alphabet)) for _ in range(k)))])
    e2.process(rep, prog, NAT, h_space_start(n), tier, validate_inputs=val)
    hl = h_line_number()
    val2 = [[SInt(m, "usize"), some(SInt(rnd.randint(0, m), "usize"))] for m in (0, 1, 9, 10, 99, 100, 12345)]
    e2.process(rep, prog, NAT, hl, tier, validate_inputs=val2,
               to_native_args=lambda a: [a[0], a[1]["Some"] if isinstance(a[1], dict) else a[1]])
    hg = h_gutter()
    hg.models_cls = lambda: PrettyModels(prog)
    resg = e2.run_with_raw(prog, hg)
    for model, r in resg.raw_witnesses[:4]:
        kinds = r.ctx.notes["kinds"]
        args = r.ctx.notes["args"]
        diff = args[2].loc.get()
        outcome = args[1].loc.get()
        from mir_exec import field_of as fo
        n = e2.model_int(model, fo(fo(outcome, "testcase"), "expectations").sym_len)
        its = []
        for it in fo(diff, "lines").items:
            if it.variant == "UnmatchedExpectation":
                its.append({"kind": "U", "index": e2.model_int(model, it.fields[0])})
            elif it.variant == "MatchedExpectation":
                its.append({"kind": "M", "index": e2.model_int(model, it.fields[0]), "line": e2.model_int(model, it.fields[2].items[0].fields[0]),
                            "multiline": bool(z3.is_true(model.eval(it.fields[1].fields[1].z(), model_completion=True)))})
            else:
                its.append({"kind": "X", "line": e2.model_int(model, it.fields[0].items[0].fields[0])})
        w = {"expectations": min(n, 2000), "items": its, "absolute": bool(z3.is_true(model.eval(args[0].loc.get().fields[1].z(), model_completion=True))),
             "line_number": min(e2.model_int(model, fo(fo(outcome, "testcase"), "line_number")), 10 ** 6)}
        nk, nv = NAT.call("pretty_render", [w])
        if nk == "panic":
            rep.violation("pretty:gutter-underflow", "the pretty renderer panics (%s) on a failed test with %d expectations and diff items %s"
                          % (str(nv)[:60], w["expectations"], its), {"kind": "eval", "fn": "pretty_render", "args": [w], "native": [nk, nv], "harness": hg.name})
        else:
            rep.mismatches.append("pretty_gutter_width: solver witness did not reproduce natively: %s → %s" % (w, str(nv)[:80]))
    e2.record(rep, hg, resg)
    # second engine on the same claim: Kani on the compiled function (quick: it takes ~20 s)
    k = kani.run_harness("c19::c19_space_start_index_is_char_boundary", timeout_s=600)
    st = {"pass": "holds", "fail": "violated", "undecided": "undecided"}[k["status"]]
    if k["status"] == "fail" and not k.get("unwinding_failure"):
        bs = kani.decode_bytes_len(k["playback"][0], 5) if k.get("playback") else None
        ok = False
        if bs is not None:
            try:
                text = bytes(bs).decode("utf-8")
                nk, nv = NAT.call("space_start_index", [text])
                bounds, pos = {0}, 0
                for ch in text:
                    pos += len(ch.encode())
                    bounds.add(pos)
                if nk != "return" or nv not in bounds:
                    ok = True
                    rep.violation("space-index:not-char-boundary",
                                  "trailing-whitespace index %s is not a char boundary of %r (Kani counterexample)" % (nv, text),
                                  {"kind": "eval", "fn": "space_start_index", "args": [text], "native": [nk, nv], "harness": k["harness"]})
            except UnicodeDecodeError:
                pass
        if not ok:
            rep.mismatches.append("Kani counterexample for %s did not reproduce natively: %s" % (k["harness"], bs))
    elif k["status"] != "pass":
        rep.undecided.append("%s: %s" % (k["harness"], k.get("why", "unwinding bound too small")))
        st = "undecided"
    rep.subclaim(name=k["harness"], engine="E1 (Kani/CBMC)", bound="valid UTF-8 <= 5 bytes, unwind 8, unwinding assertions on",
                 what="index <= len and is_char_boundary(index)", result=st, checks=k.get("checks"), covers=k.get("covers"),
                 cbmc_s=k.get("cbmc_s"), wall_s=k["wall_s"], sat_vars=k.get("sat_vars"), sat_clauses=k.get("sat_clauses"))
    NAT.close()
    tot_paths = sum(s.get("paths", 0) for s in rep.subclaims)
    rep.coverage.update({
        "explanation": "SMT decision (z3) over a bounded symbolic execution of the MIR of the real functions "
                       "(concrete UTF-8 shapes, symbolic contents), cross-checked by a Kani harness on the compiled function; "
                       "witnesses replayed natively. Claimed only for the two crash-prone computations of the pretty renderer; "
                       "diff/json/yaml renderers and 'every difference is shown' are outside.",
        "functions_encoded": ["scrut::renderers::pretty::space_start_index", "scrut::renderers::pretty::Decorator::new",
                              "scrut::renderers::pretty::Decorator::output_line_number", "Decorator::expectation_line_number",
                              "<PrettyColorRenderer as ErrorRenderer>::render_malformed_output (styling cut)"],
        "evaluations": tot_paths, "distinct_nontrivial": tot_paths,
        "rule": "one case = one feasible path of the MIR under one input shape; distinct by path condition",
        "samples": [s for sc in rep.subclaims for s in sc.get("samples", [])][:4] or ["see subclaims"],
        "mir_dump_s": round(mir_s, 1),
    })
    rep.assumptions += ["std contract models of mir_models.py (str::chars, Rev, Enumerate, char::is_whitespace, str::len, "
                        "usize::to_string, format!) — validated on concrete inputs against the native build on every run",
                        "compositional link: numbers passed to the decorator are <= its maximum by C02's conservation facts"]
    return rep.finish()
