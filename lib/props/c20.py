"""C20 (partial) — run accounting and exit status of `scrut test`, decided on the MIR of the whole `commands::test::Args::run`
(bin crate, 576 blocks) and of `main`'s exit mapping, executed with the environment replaced by stubs:
  documents    : `FileParser::find_and_parse` returns the harness' documents (1–2 documents × 1–2 test cases)
  executor     : `<dyn Executor>::execute_all` answers per document with a scripted result — Ok(outputs: Code | Detached …),
                 Err(Skipped(i)), Err(Timeout(Total | Index(k), outputs…)), or a hard error
  validation   : `TestCase::validate` = a free Boolean per executed test case
  everything else (progress UI, styling, environment directories, renderer) is opaque; the outcomes handed to the renderer are the observable.
Claims: documents are processed in order; exactly one outcome per test case that is not detached (and at most one per test case), in
test-case order, with the kind the statement prescribes (passed / failed / timed out / skipped); a skipped document contributes only
skipped outcomes and never a failure; after a time-out the remaining test cases are skipped; `run` returns Err(ValidationFailed) iff some
test case failed or timed out, another error iff a document could not be executed, Ok otherwise; `main` maps these to 50 / 1 / 0.
Not claimed: that executors run every test case once and in order (C14/C15 cover the Markdown executor), prepend/append document order,
file discovery, rendering."""
import itertools
import time
import re

import z3

import e2
from common import Report, build_native
from mir_exec import (UNIT, Agg, MapBuf, Opaque, Program, Ref, SBool, SInt, Slice, Str, StringBuf, Unsupported, VecBuf, deep_clone, field_of,
                      find_method, mk_box, mk_int, mk_struct, new_ref, STRUCTS)
from mir_models import Models, SeqIt, as_items, as_str, deref, err, none, ok, some

DOC_KINDS = ["ok", "skipped", "timeout-total", "timeout-index", "hard-error"]
# early aborts of one document's turn, before its executor is called: a prepend document that does not parse, a work directory that cannot be
# set up, no executor for the shell
EARLY = ("prepend-unparsable", "setup-error", "no-executor", "unparsable")      # unparsable: the given document itself does not parse


class RunModels(Models):
    def __init__(self, prog):
        super().__init__()
        def ins(pat, fn, defs=None):
            """model for calls that do not resolve to a MIR body; `defs`: regex on definition names of MIR bodies to replace as well"""
            self.table.insert(0, (re.compile("^(?:%s)$" % pat), fn))
            if defs:
                rx = re.compile(defs)
                hits = [n for n in prog.funcs if rx.search(n)]
                if not hits:
                    raise Unsupported("harness stub: no function definition matches %r" % defs)
                for n in hits:
                    self.overrides[n] = (lambda ctx, fname, args, fn=fn: fn(ctx, None, args))
        opaque = lambda what: (lambda c, m, a: Opaque(what))
        unit = lambda c, m, a: UNIT
        # tracing off, UI / styling / formatting opaque
        ins(r"<Level as PartialOrd<LevelFilter>>::le|<Level as PartialOrd>::le", lambda c, m, a: SBool(False))
        ins(r"Interest::never|Interest::always|Interest::sometimes", opaque("Interest"))
        ins(r"tracing::__macro_support::__disabled_span", opaque("Span"))
        ins(r"Span::enter", opaque("Entered"))
        ins(r"<DefaultCallsite as Callsite>::metadata", opaque("Metadata"))
        ins(r"ui::get_log_level|get_log_level", opaque("Level"), defs=r"(?:^|::)get_log_level$")
        ins(r"ui::ProgressWriter::try_new", lambda c, m, a: ok(Opaque("ProgressWriter")), defs=r"utils/ui\.rs[^>]*>::try_new$")
        ins(r"ui::ProgressWriter::(?:inc|println::<.*>|set_message::<.*>|finish_and_clear)", unit, defs=r"utils/ui\.rs[^>]*>::(?:inc|println|set_message|finish_and_clear)$")
        ins(r"style::<.*>|StyledObject::<.*>::(?:bold|green|red|blue|yellow|magenta|underlined)", opaque("Styled"))
        ins(r"format|std::fmt::format|alloc::fmt::format", lambda c, m, a: StringBuf([SInt(ord("~"), "char")]))
        ins(r"core::fmt::rt::Argument::new_(?:display|debug)::<.*>", opaque("FmtArg"))
        ins(r"Arguments::new::<\d+, \d+>|Arguments::from_str", opaque("Arguments"))
        ins(r"std::io::_print|std::io::_eprint", unit)
        ins(r"colors_enabled|console::colors_enabled", lambda c, m, a: SBool(False))
        ins(r"std::path::Path::display|Path::display", opaque("Display"))
        ins(r"<std::path::Display as ToString>::to_string|<Display as ToString>::to_string", lambda c, m, a: StringBuf([SInt(ord("p"), "char")]))
        ins(r"std::path::Path::to_string_lossy|Path::to_string_lossy", lambda c, m, a: Agg("Cow", "Borrowed", [Str([SInt(ord("p"), "char")])]))
        ins(r"std::path::Path::parent|Path::parent", lambda c, m, a: none())
        ins(r"Option::<&(?:std::path::)?Path>::unwrap_or", lambda c, m, a: a[1])
        ins(r"(?:std::path::)?Path::join::<.*>", lambda c, m, a: deep_clone(deref(a[1])))      # directory prefix: identity on the harness' path tokens
        ins(r"<PathBuf as Deref>::deref|<PathBuf as Clone>::clone|<PathBuf as From<&PathBuf>>::from|Option::<PathBuf>::as_deref|Option::<PathBuf>::as_ref", lambda c, m, a: deref(a[0]) if not isinstance(deref(a[0]), Agg) else a[0])
        ins(r"current_dir|std::env::current_dir", lambda c, m, a: ok(Opaque("cwd")))
        ins(r"display::<.*>|debug::<.*>", opaque("tracing-value"))
        # documents, environment, executor
        ins(r"file_parser::FileParser::new|FileParser::new", lambda c, m, a: ok(Opaque("FileParser")), defs=r"utils/file_parser\.rs[^>]*>::new$")

        def find_and_parse(c, m, a):
            what = "".join(chr(ch.v) for ch in as_str(a[1]).chars)
            if what == "test":
                if any(d.kind == "unparsable" for d in c.notes.get("docs") or []):
                    return err(Opaque("anyhow:other"))           # one of the given documents does not parse: nothing is run
                return ok(VecBuf(list(c.notes["documents"])))
            out = []
            for p in as_items(a[2]):
                p = deref(p)
                if isinstance(p, Opaque) and p.what == "path:bad":
                    return err(Opaque("anyhow:other"))           # a document that does not parse
                if not isinstance(p, Opaque):
                    from props import c18
                    if c18.pstr(p).endswith("bad.md"):
                        return err(Opaque("anyhow:other"))       # the same with real paths (C18)
                    # real paths (C18): the path asked for is recorded, the document is found by its file name
                    c.notes.setdefault("lookups", []).append(c18.pstr(p))
                    key = {"pre.md": "path:p", "app.md": "path:q", "clipre.md": "path:P", "cliapp.md": "path:Q"}.get(c18.pstr(p).rsplit("/", 1)[-1])
                    if key is None:
                        raise Unsupported("find_and_parse(%s) of %r" % (what, c18.pstr(p)))
                    out.append(c.notes["extra"][key](c))
                    continue
                if not isinstance(p, Opaque) or p.what not in c.notes["extra"]:
                    raise Unsupported("find_and_parse(%s) of %r" % (what, p))
                out.append(c.notes["extra"][p.what](c))
            return ok(VecBuf(out))
        ins(r"file_parser::FileParser::find_and_parse|FileParser::find_and_parse", find_and_parse, defs=r"utils/file_parser\.rs[^>]*>::find_and_parse$")
        ins(r"environment::canonical_shell|canonical_shell", lambda c, m, a: ok(Opaque("shell")), defs=r"(?:^|::)canonical_shell$")
        ins(r"environment::TestEnvironment::new|TestEnvironment::new",
            lambda c, m, a: ok(mk_struct("TestEnvironment", shell=Opaque("shell"), work_directory=Agg("EnvironmentDirectory", "Kept", [Opaque("wd")]), tmp_directory=Agg("EnvironmentDirectory", "Kept", [Opaque("tmp")]), namer=Opaque("namer"))),
            defs=r"utils/environment\.rs[^>]*>::new$")
        def turn_kind(c, counter):
            """kind of the document whose turn it is: the `counter`-th call of this stage belongs to the counter-th document"""
            k = c.notes.get(counter, 0)
            c.notes[counter] = k + 1
            docs = c.notes.get("docs") or []
            return docs[k].kind if k < len(docs) else None

        def init_test_file(c, m, a):
            if turn_kind(c, "n_init") == "setup-error":
                return err(Opaque("anyhow:other"))
            return ok(Agg("tuple", None, [Agg("EnvironmentDirectory", "Kept", [Opaque("work-dir")]), VecBuf([])]))
        ins(r"environment::TestEnvironment::init_test_file|TestEnvironment::init_test_file", init_test_file, defs=r"utils/environment\.rs[^>]*>::init_test_file$")

        def make_executor(c, m, a):
            if turn_kind(c, "n_mkexec") == "no-executor":
                return err(Opaque("anyhow:other"))
            return ok(mk_box(Agg("StubExecutor", None, [])))
        ins(r"executorutil::make_executor|make_executor", make_executor, defs=r"(?:^|::)make_executor$")
        ins(r"scrut::executors::context::ContextBuilder::(?:config|file|temp_directory|work_directory)|<scrut::executors::context::ContextBuilder as Default>::default", opaque("ContextBuilder"))
        ins(r"scrut::executors::context::ContextBuilder::build", lambda c, m, a: ok(Opaque("Context")))
        ins(r"<BTreeMap<&str, &str> as FromIterator<.*>>::from_iter::<.*>", lambda c, m, a: MapBuf([]))
        def output_from_triple(c, m, a):
            hits = [n for n, f in prog.funcs.items() if re.search(r"<impl at src/output\.rs[^>]*>::from$", n) and f.params and f.params[0][1].replace(" ", "").startswith("(T,U,")
                    and f.params[0][1].count(",") == 2]
            if len(hits) != 1:
                raise Unsupported("From<(T, U, Option<i32>)> for Output: %d candidates" % len(hits))
            return c.call(hits[0], [a[0]])
        ins(r"<\(&str, &str, Option<i32>\) as Into<(?:scrut::output::)?Output>>::into", output_from_triple)
        ins(r"<[TU] as ToString>::to_string", lambda c, m, a: StringBuf(list(as_str(a[0]).chars)))    # T = U = &str in this instantiation
        ins(r"GlobalSharedParameters::output_escaping", lambda c, m, a: Agg("Escaper", "Unicode", []), defs=r"commands/root\.rs[^>]*>::output_escaping$")

        def execute_all(c, m, a):
            d = len(c.notes.setdefault("executed_titles", []))
            c.notes["executed_titles"].append([title_of(t) for t in as_items(a[1])])
            if d >= len(c.notes["scripts"]):
                raise Unsupported("more executor calls than documents")
            return c.notes["scripts"][d](c, as_items(a[1]))
        ins(r"<dyn Executor as Executor>::execute_all", execute_all)

        def validate(c, m, a):
            k = len(c.notes.setdefault("validated", []))
            v = c.sym_bool("passes%d" % k)
            c.notes["validated"].append(v)
            if c.decide(v.v):
                return Agg("Result", "Ok", [UNIT])
            return Agg("Result", "Err", [Agg("TestCaseError", "MalformedOutput", [Opaque("Diff")])])
        ins(r"TestCase::validate|scrut::testcase::TestCase::validate", validate, defs=r"src/testcase\.rs[^>]*>::validate$")

        def render(c, m, a):
            c.notes["rendered"] = [deref(o) for o in as_items(a[1])]
            return ok(StringBuf([]))
        ins(r"<dyn Renderer as Renderer>::render", render)
        ins(r"<Box<(?:DiffRenderer|JsonRenderer|YamlRenderer)> as Default>::default|Box::<Pretty(?:Color|Monochrome)Renderer>::new|PrettyMonochromeRenderer::new", opaque("renderer"))
        ins(r"anyhow::kind::Trait::new::<ValidationFailedError>", opaque("anyhow:ValidationFailedError"))
        ins(r"<ValidationFailedError as anyhow::kind::TraitKind>::anyhow_kind", opaque("kind"))
        ins(r"anyhow::__private::must_use", lambda c, m, a: a[0])
        ins(r"anyhow::error::<impl anyhow::Error>::msg::<.*>|anyhow::__private::format_err", opaque("anyhow:other"))
        ins(r"<Result<.*> as anyhow::Context<.*>>::context::<.*>", lambda c, m, a: a[0] if a[0].variant == "Ok" else err(Opaque("anyhow:other")))
        # zip / flat_map / iter_mut used by the loop
        from mir_models import It

        class ZipIt(It):
            def __init__(self, x, y):
                self.x, self.y = x, y

            def next(self, ctx):
                p = self.x.next(ctx)
                if p is None:
                    return None
                q = self.y.next(ctx)
                if q is None:
                    return None
                return Agg("tuple", None, [p, q])
        from mir_models import to_iter
        ins(r"<.* as Iterator>::zip::<.*>", lambda c, m, a: ZipIt(deref(a[0]) if hasattr(deref(a[0]), "next") else to_iter(c, a[0]), to_iter(c, a[1])))

        def flat_map(c, m, a):
            out = []
            it = deref(a[0])
            while True:
                v = it.next(c)
                if v is None:
                    break
                out += as_items(c.call_callable(a[1], [v]))
            return SeqIt(out)
        ins(r"<.* as Iterator>::flat_map::<.*>", flat_map)
        ins(r"core::slice::<impl \[.*\]>::iter_mut", lambda c, m, a: SeqIt([new_ref(x, True) for x in as_items(a[0])]))
        ins(r"Vec::<.*>::as_slice|<Vec<.*> as DerefMut>::deref_mut", lambda c, m, a: Slice(as_items(a[0])))
        ins(r"<.* as Clone>::clone", lambda c, m, a: deep_clone(deref(a[0])))
        ins(r"Result::<\(\), TestCaseError>::is_err", lambda c, m, a: SBool(deref(a[0]).variant == "Err"))
        ins(r"<scrut::output::ExitStatus as PartialEq>::eq|<ExitStatus as PartialEq>::eq", lambda c, m, a: SBool(deref(a[0]).variant == deref(a[1]).variant))
        ins(r"<ParserType as PartialEq>::eq", lambda c, m, a: SBool(False))
        ins(r"Option::<std::time::Duration>::map_or_else::<.*>|Option::<Duration>::map_or_else::<.*>", lambda c, m, a: StringBuf([]))
        # several bin modules have an `Args`: the module prefix of the call names the file
        ins(r"test::Args::([a-z_]+)", lambda c, m, a: c.call(find_method(prog, "bin/commands/test.rs", m.group(1)), a))
        ins(r"TestCaseConfig::with_environment", lambda c, m, a: deep_clone(deref(a[0])))


def struct_order(path, name, typed=False):
    """field order of `struct name {…}` in one source file (several bin modules define a struct called Args)"""
    text = re.sub(r"//[^\n]*", "", open(path).read())
    mo = re.search(r"\bstruct\s+%s\s*\{" % name, text)
    if not mo:
        raise Unsupported("struct %s not found in %s" % (name, path))
    i = j = mo.end()
    depth = 1
    while depth:
        depth += {"{": 1, "}": -1}.get(text[j], 0)
        j += 1
    body = re.sub(r"#\[[^\]]*\]", "", re.sub(r'"(?:[^"\\\n]|\\.)*"', '""', text[i:j - 1]))
    return re.findall(r"(?m)^\s*(?:pub(?:\([^)]*\))?\s+)?([a-z_][A-Za-z0-9_]*)\s*:", body) if not typed else \
        re.findall(r"(?m)^\s*(?:pub(?:\([^)]*\))?\s+)?([a-z_][A-Za-z0-9_]*)\s*:\s*([^,\n]+)", body)


def mk_struct_at(path, name, **fields):
    order = struct_order(path, name)
    if sorted(order) != sorted(fields):
        raise Unsupported("struct %s in %s has fields %s, harness gives %s" % (name, path, order, sorted(fields)))
    return Agg(name, None, [fields[f] for f in order])


def mk_output(status):
    return mk_struct("Output", stderr=Agg("OutputStream", None, [VecBuf([], "u8")]), stdout=Agg("OutputStream", None, [VecBuf([], "u8")]), exit_code=status)


def doc_script(kind, detail):
    """executor behaviour for one execute_all call"""
    def run(ctx, tests):
        code = lambda: Agg("ExitStatus", "Code", [mk_int(0, "i32")])
        status = {"C": code, "D": lambda: Agg("ExitStatus", "Detached", []), "U": lambda: Agg("ExitStatus", "Unknown", [])}
        if kind == "ok":
            return ok(VecBuf([mk_output(status[x]()) for x in detail]))
        if kind == "skipped":
            return err(Agg("ExecutionError", "Skipped", [mk_int(detail, "usize")]))
        if kind in ("timeout-total", "timeout-index"):
            outs = [mk_output(status[x]()) for x in detail]
            outs.append(mk_output(Agg("ExitStatus", "Timeout", [Agg("Duration", None, [mk_int(10 ** 9, "nat")])])))
            which = Agg("ExecutionTimeout", "Total", []) if kind == "timeout-total" else Agg("ExecutionTimeout", "Index", [mk_int(len(detail), "usize")])
            return err(Agg("ExecutionError", "Timeout", [which, VecBuf(outs)]))
        if kind == "aborted":
            # the single-script executor's way of giving up: an error that carries the output captured so far
            return err(Agg("ExecutionError", "AbortedExecutions", [Opaque("anyhow"), some(mk_output(code()))]))
        return err(Agg("ExecutionError", "FailedExecution", [mk_int(0, "usize"), Opaque("anyhow")]))
    return run


def doc_variants(t, rich):
    """every result shape the executors can hand back for t test cases (see StatefulExecutor / SequentialExecutor::execute_all):
    Ok(one output per test case: exit code | detached | unknown), Skipped(i), Timeout(Total | Index(k), k finished outputs + the
    timed-out one), hard error"""
    alpha = "CDU" if rich else "CD"
    out = [("ok", "".join(p)) for p in itertools.product(alpha, repeat=t)]
    out += [("skipped", i) for i in range(t)]
    for k in range(t):
        for pre in itertools.product("CD" if rich else "C", repeat=k):
            out += [("timeout-total", "".join(pre)), ("timeout-index", "".join(pre))]
    out.append(("hard-error", 0))
    out.append(("aborted", 0))
    out += [(k, 0) for k in EARLY]
    return out


def mk_global():
    """GlobalSharedParameters of a plain `scrut test <paths>`: no flag given"""
    vals = []
    for name, ty in struct_order(e2.REPO + "/src/bin/commands/root.rs", "GlobalSharedParameters", typed=True):
        ty = ty.strip()
        if ty == "bool":
            vals.append(SBool(False))
        elif ty.startswith("Option<"):
            vals.append(none())
        elif ty.endswith("LogLevel"):
            vals.append(Agg("LogLevel", "Warn", []))
        else:
            raise Unsupported("GlobalSharedParameters.%s: %s" % (name, ty))
    return Agg("GlobalSharedParameters", None, vals)


class Doc:
    """one given document: n own test cases, optional front-matter prepend / append (one document with one test case each)"""

    def __init__(self, d, n, pre, app, kind, detail):
        self.d, self.n, self.pre, self.app, self.kind, self.detail = d, n, pre, app, kind, detail

    def __repr__(self):
        return "(%s%d tests%s → %s %s)" % ("prepend+" if self.pre else "", self.n, "+append" if self.app else "", self.kind, self.detail)


def titles_of(doc, cli_pre, cli_app):
    pre = (["P0"] if cli_pre else []) + (["p0"] if doc.pre else [])
    main = ["%s%d" % (chr(ord("a") + doc.d), i) for i in range(doc.n)]
    app = (["q0"] if doc.app else []) + (["Q0"] if cli_app else [])
    return pre, main, app


def expected_kinds(doc, t):
    """per executed position: 'V' validated (free verdict), 'T' timed out, 'S' skipped, '?' detached: a result is allowed, not required;
    None = hard error"""
    if doc.kind == "ok":
        return ["?" if x == "D" else "V" for x in doc.detail]
    if doc.kind == "skipped":
        return ["S"] * t
    if doc.kind in ("timeout-total", "timeout-index"):
        k = len(doc.detail)
        # a detached test case that finished before the time-out may or may not be reported ('at most one result')
        return ["?" if x == "D" else "V" for x in doc.detail] + ["T"] + ["S"] * (t - k - 1)
    return None


def mk_testcase(ctx, title, line):
    cfg = ctx.call(ctx.program.resolve_call("TestCaseConfig::empty"), [])
    return mk_struct("TestCase", title=StringBuf([SInt(ord(c), "char") for c in title]), shell_expression=StringBuf([SInt(ord("x"), "char")]),
                     expectations=VecBuf([]), exit_code=none(), line_number=mk_int(line, "usize"), config=cfg)


def mk_document(ctx, path, titles, prepend=(), append=()):
    dcfg = ctx.call(ctx.program.resolve_call("DocumentConfig::empty"), [])
    order = STRUCTS["DocumentConfig"]
    dcfg.fields[order.index("prepend")] = VecBuf([Opaque(x) for x in prepend])
    dcfg.fields[order.index("append")] = VecBuf([Opaque(x) for x in append])
    return mk_struct("ParsedTestFile", path=Opaque(path), content=StringBuf([]), parser_type=Agg("ParserType", "Markdown", []),
                     testcases=VecBuf([mk_testcase(ctx, t, i + 1) for i, t in enumerate(titles)]), config=dcfg)


def mk_setup(cli_pre, cli_app, docs):
    def setup(ctx):
        ctx.notes["documents"] = [mk_document(ctx, "doc%d" % doc.d, titles_of(doc, 0, 0)[1],
                                              (["path:p"] if doc.pre else []) + (["path:bad"] if doc.kind == "prepend-unparsable" else []),
                                              ["path:q"] if doc.app else [])
                                  for doc in docs]
        ctx.notes["extra"] = {"path:p": lambda c: mk_document(c, "pre", ["p0"]), "path:q": lambda c: mk_document(c, "app", ["q0"]),
                              "path:P": lambda c: mk_document(c, "cli-pre", ["P0"]), "path:Q": lambda c: mk_document(c, "cli-app", ["Q0"])}
        ctx.notes["scripts"] = [doc_script(doc.kind, doc.detail) for doc in docs]
        ctx.notes["docs"] = docs
        ctx.notes["cli"] = (cli_pre, cli_app)
        args = mk_struct_at(e2.REPO + "/src/bin/commands/test.rs", "Args", test_file_paths=VecBuf([]),
                            prepend_test_file_paths=VecBuf([Opaque("path:P")] if cli_pre else []),
                            append_test_file_paths=VecBuf([Opaque("path:Q")] if cli_app else []),
                            debug=SBool(False), markdown_languages=VecBuf([StringBuf([SInt(ord("s"), "char")])]),
                            match_cram=StringBuf([]), match_markdown=StringBuf([]), renderer=Agg("ScrutRenderer", "Diff", []),
                            absolute_line_numbers=SBool(False), verbose=SBool(False), **{"global": mk_global()})
        return [new_ref(args)]
    return setup


def drive(ctx, args):
    """commands::test::Args::run with stubbed documents / executor / validation / renderer"""
    f = find_method(ctx.program, "bin/commands/test.rs", "run")
    return ctx.call(f, [args[0]])


def outcome_kind(o):
    r = field_of(o, "result")
    if r.variant == "Ok":
        return "pass"
    e = r.fields[0]
    return {"MalformedOutput": "fail", "InvalidExitCode": "fail", "InternalError": "fail", "Timeout": "timeout", "Skipped": "skipped"}[e.variant]


def title_of(tc):
    return "".join(chr(c.v) for c in as_str(field_of(deref(tc), "title")).chars)


def post(ctx, args, kind, value):
    if kind == "panic":
        # `std::process::exit(n)` ends the process with status n: as good as returning the error main maps to n
        mo = re.search(r"std::process::exit\(SInt\((\d+):", str(value))
        if not mo:
            return False
        docs = ctx.notes["docs"]
        hard = [d for d in docs if d.kind in ("hard-error", "aborted")]
        return bool(hard) and int(mo.group(1)) == 1 and len(ctx.notes.get("executed_titles", [])) == hard[0].d + 1
    if kind != "return":
        return False
    docs = ctx.notes["docs"]
    cli_pre, cli_app = ctx.notes["cli"]
    received = ctx.notes.get("executed_titles", [])
    is_err = lambda what: value.variant == "Err" and isinstance(value.fields[0], Opaque) and value.fields[0].what == what
    want = []            # (title, kind) in order
    aborted = None
    for doc in docs:
        if doc.kind in EARLY:
            # scrut could not do its job for this document: the run ends here with an error that is not a validation failure
            return is_err("anyhow:other") and len(received) == (0 if any(d.kind == "unparsable" for d in docs) else doc.d)
        if doc.d >= len(received):
            return False                                  # a document was not executed
        pre, main, app = titles_of(doc, cli_pre, cli_app)
        got = received[doc.d]
        # every test case once: prepend documents' test cases first (any order among prepend documents), then the document's own in
        # order, then the append documents'
        if sorted(got[:len(pre)]) != sorted(pre) or got[len(pre):len(pre) + len(main)] != main or sorted(got[len(pre) + len(main):]) != sorted(app):
            return False
        kinds = expected_kinds(doc, len(got))
        if kinds is None:
            aborted = doc.d
            break
        want += list(zip(got, kinds))
    if aborted is not None:
        # a document that cannot be executed ends the run with an error that is not a validation failure
        return is_err("anyhow:other") and len(received) == aborted + 1
    if len(received) != len(docs):
        return False
    got = ctx.notes.get("rendered")
    if got is None:
        return False
    validated = ctx.notes.get("validated", [])
    vi = gi = 0
    failed = False
    conds = []
    for title, k in want:
        o = got[gi] if gi < len(got) else None
        here = o is not None and title_of(field_of(o, "testcase")) == title
        if k in "-?":             # detached: the statement allows a result ("at most one"), it does not require one
            if not here:
                continue
            k = "V"
        if not here:
            return False          # missing outcome / wrong test case / wrong order
        gi += 1
        ok_ = outcome_kind(o)
        if k == "V":
            if vi >= len(validated) or ok_ not in ("pass", "fail"):
                return False
            conds.append(validated[vi].z() == z3.BoolVal(ok_ == "pass"))   # the verdict was decided on this path: the outcome must agree
            vi += 1
            failed = failed or ok_ == "fail"
        elif k == "T":
            if ok_ != "timeout":
                return False
            failed = True
        elif ok_ != "skipped":
            return False
    if gi != len(got) or vi != len(validated):
        return False              # more outcomes than test cases / a validation whose outcome is not reported
    if not (is_err("anyhow:ValidationFailedError") if failed else value.variant == "Ok"):
        return False
    return z3.And(conds) if conds else True


REPRESENTATIVE = lambda t: [("ok", "C" * t), ("ok", "D" + "C" * (t - 1)), ("skipped", t - 1), ("timeout-total", ""), ("timeout-index", "C" * (t - 1)),
                            ("hard-error", 0), ("prepend-unparsable", 0), ("no-executor", 0)]


def run_configs(max_docs, max_total, rich):
    """(cli_pre, cli_app, [Doc…]) for every combination within the bound"""
    out = []
    for cli_pre, cli_app in itertools.product((0, 1), repeat=2):
        for n in range(0, max_total + 1):
            for pre, app in itertools.product((0, 1), repeat=2):
                t = cli_pre + pre + n + app + cli_app
                if t > max_total or t == 0:
                    continue      # (n = 0: a document without test cases of its own still runs what is prepended / appended to it)
                for kind, detail in doc_variants(t, rich):
                    out.append((cli_pre, cli_app, [Doc(0, n, pre, app, kind, detail)]))
        if max_docs >= 2 and not cli_app:
            # two documents: own test cases only (plus --prepend-test-file-paths), one representative result per kind
            for n1, n2 in itertools.product((1, 2), repeat=2):
                for (k1, d1), (k2, d2) in itertools.product(REPRESENTATIVE(n1 + cli_pre), REPRESENTATIVE(n2 + cli_pre)):
                    out.append((cli_pre, cli_app, [Doc(0, n1, 0, 0, k1, d1), Doc(1, n2, 0, 0, k2, d2)]))
    return out


def h_run(max_docs, max_total, rich=True, plain_total=0):
    cfgs = run_configs(max_docs, max_total, rich)
    if plain_total > max_total:
        # one size further with the smaller alphabet (exit code / detached; time-outs after passing test cases only)
        cfgs += [c for c in run_configs(1, plain_total, False) if len(c[2]) == 1 and c[0] + c[1] + c[2][0].pre + c[2][0].n + c[2][0].app > max_total]
    inputs = [("cli prepend=%d append=%d documents=%s" % (cp, ca, dl), mk_setup(cp, ca, dl)) for cp, ca, dl in cfgs]
    return e2.Harness("test_command_accounting", drive, inputs, post, native=None, judge=None,
                      describe="every document executed once in order, its executor call gets prepend + own + append test cases (own in order); "
                               "one outcome per non-detached test case in order with the prescribed kind; skipped documents never fail the "
                               "run; after a time-out the rest is skipped; Err(ValidationFailed) ⇔ something failed or timed out; hard error ⇒ other Err",
                      bound="1 document with ≤ %d test cases per executor call (own + front-matter prepend/append + --prepend/--append-test-file-paths, "
                            "one test case each)%s; per call every executor result shape (exit code / detached / unknown per test case, "
                            "Skipped(i), Timeout(Total|Index(k)) after any finished prefix, hard error); validation verdict of every executed "
                            "test case free%s" % (max_total, "; 2 documents with 1..2 own test cases (with and without --prepend-test-file-paths), one representative executor result per kind each" if max_docs >= 2 else "",
                                                   "; calls of %d test cases with exit code / detached only" % plain_total if plain_total > max_total else ""))


# ---- end-to-end replay through the real binary -----------------------------------------------------------------------------

def behaviours(doc, got, verdicts):
    """what each test case of one executor call has to do so that the real executor produces the scripted result;
    None when the script cannot be produced with real commands (exit status `Unknown`)"""
    out = {}
    for i, title in enumerate(got):
        if doc.kind == "ok":
            x = doc.detail[i]
        elif doc.kind == "skipped":
            x = "skip" if i == doc.detail else "P"
        elif doc.kind in ("timeout-total", "timeout-index"):
            k = len(doc.detail)
            x = doc.detail[i] if i < k else (doc.kind if i == k else "P")
        else:
            x = "P"
        if x == "U":
            return None
        if x == "C":
            x = "pass" if (verdicts.pop(0) if verdicts else True) else "fail"      # (a test case that was never validated on this path: let it pass)
        out[title] = {"P": "pass", "D": "detached"}.get(x, x)
    return out


def native_replay(cli_pre, cli_app, docs, received, verdicts, flags=None):
    """build real documents for the scripts, run the real `scrut test -r json`, judge the run against the statement itself.
    returns (replayable, violated, why, observation)"""
    import json
    import os
    import shutil
    import subprocess
    import tempfile
    from common import SCRUT_BIN
    verdicts = list(verdicts)
    if any(d.kind == "aborted" for d in docs):
        return False, False, "an aborted script run (single-script executor) is not realised by the Markdown documents of this replay", None
    per_doc = []
    for doc in docs:
        pre, main, app = titles_of(doc, cli_pre, cli_app)
        got = received[doc.d] if doc.d < len(received) else pre + main + app
        b = behaviours(doc, got, verdicts)
        if b is None:
            return False, False, "exit status Unknown cannot be produced by a command", None
        per_doc.append(b)
        if doc.kind in ("hard-error", "aborted") or doc.kind in EARLY:
            break
    if any(d.kind in ("setup-error", "no-executor") for d in docs):
        return False, False, "a work directory that cannot be set up / a missing executor is not realised by the documents of this replay", None
    # test cases of shared (prepend / append) documents pick their behaviour by $TESTFILE; `detached` and `timeout` are static
    files = {}          # file → {title → {docfile → behaviour}}
    for doc, b in zip(docs, per_doc):
        for title, beh in b.items():
            fname = {"p": "pre.md", "q": "app.md", "P": "clipre.md", "Q": "cliapp.md"}.get(title[0], "doc%d.md" % doc.d)
            files.setdefault(fname, {}).setdefault(title, {})["doc%d.md" % doc.d] = beh
    for doc in docs[:len(per_doc)]:
        files.setdefault("doc%d.md" % doc.d, {})        # a document without test cases of its own is a file, too
    for fname, tests in files.items():
        for title, by_doc in tests.items():
            if "detached" in by_doc.values() and len(set(by_doc.values())) > 1:
                return False, False, "a shared test case would have to be detached for one document only", None
    tmp = tempfile.mkdtemp(prefix="verif-c20-")
    try:
        cmd_of = {"pass": "echo hello", "fail": "echo other", "skip": "exit 80", "detached": "true", "timeout-index": "sleep 30", "timeout-total": "sleep 30"}
        for fname, tests in files.items():
            text = ""
            if fname.startswith("doc"):
                doc = docs[int(fname[3:-3])]
                fm = []
                if doc.pre or doc.kind == "prepend-unparsable":
                    fm.append("prepend: [%s]" % ", ".join((["pre.md"] if doc.pre else []) + (["bad.md"] if doc.kind == "prepend-unparsable" else [])))
                    if doc.kind == "prepend-unparsable":
                        # a document whose front-matter is not a configuration
                        open(os.path.join(tmp, "bad.md"), "w").write("---\nno_such_key: [\n---\n\n# t\n\n```scrut\n$ echo hello\nhello\n```\n")
                if doc.app:
                    fm.append("append: [app.md]")
                if doc.kind == "timeout-total":
                    fm.append("total_timeout: 2s")
                if doc.kind == "unparsable":
                    fm.append("no_such_key: [")
                if doc.kind == "hard-error":
                    # a shell that exists but cannot be started: the executor itself reports the failure (ExecutionError::FailedExecution)
                    with open(os.path.join(tmp, "notashell"), "w") as fh:
                        fh.write("not executable\n")
                    os.chmod(os.path.join(tmp, "notashell"), 0o644)
                    fm.append("shell: %s" % os.path.join(tmp, "notashell"))
                if fm:
                    text += "---\n" + "\n".join(fm) + "\n---\n\n"
                if not tests:
                    text += "Nothing to run in this document itself.\n"
            for title in sorted(tests, key=lambda t: int(t[1:])):
                by_doc = tests[title]
                cfg = ""
                if "detached" in by_doc.values():
                    cfg = " {detached: true}"
                elif "timeout-index" in by_doc.values():
                    cfg = " {timeout: 1s}"
                arms = " ".join("%s) %s;;" % (d, cmd_of[x]) for d, x in sorted(by_doc.items()))
                text += "%s\n\n```scrut%s\n$ case \"$(basename \"$TESTFILE\")\" in %s *) echo unexpected-document;; esac\n%s```\n\n" % (
                    title, cfg, arms, "" if "detached" in by_doc.values() else "hello\n")
            with open(os.path.join(tmp, fname), "w") as fh:
                fh.write(text)
        for extra, flag in (("clipre.md", cli_pre), ("cliapp.md", cli_app), ("pre.md", any(d.pre for d in docs)), ("app.md", any(d.app for d in docs))):
            if flag and extra not in files:     # referenced but never reached (an earlier hard error)
                open(os.path.join(tmp, extra), "w").write("x0\n\n```scrut\n$ echo hello\nhello\n```\n")
        argv = [SCRUT_BIN, "test", "-r", "json"] + ["doc%d.md" % d.d for d in docs]
        if cli_pre:
            argv += ["--prepend-test-file-paths", "clipre.md"]
        if cli_app:
            argv += ["--append-test-file-paths", "cliapp.md"]
        env = dict(os.environ, NO_COLOR="1")
        if flags is not None:
            # C18: a private $TMPDIR whose content is listed after the run, optionally --work-directory / --keep-temporary-directories
            os.mkdir(os.path.join(tmp, "systmp"))
            os.mkdir(os.path.join(tmp, "userwork"))
            env["TMPDIR"] = os.path.join(tmp, "systmp")
            if flags.get("keep"):
                argv.append("--keep-temporary-directories")
            if flags.get("user_dir"):
                argv += ["--work-directory", os.path.join(tmp, "userwork")]
        r = subprocess.run(argv, cwd=tmp, stdout=subprocess.PIPE, stderr=subprocess.PIPE, text=True, timeout=120, env=env)
        obs = {"argv": argv[1:], "exit": r.returncode, "documents": {f: open(os.path.join(tmp, f)).read() for f in sorted(os.listdir(tmp)) if f.endswith(".md")}}
        if flags is not None:
            obs["left_in_TMPDIR"] = sorted(os.listdir(os.path.join(tmp, "systmp")))
            obs["left_in_work_directory"] = sorted(os.listdir(os.path.join(tmp, "userwork"))) if os.path.isdir(os.path.join(tmp, "userwork")) else None
        outcomes = []
        try:
            for o in json.loads(r.stdout) if r.stdout.strip() else []:
                outcomes.append([o.get("location"), o.get("title") or o.get("testcase", {}).get("title"), (o.get("result") or {}).get("kind")])
        except ValueError:
            obs["stdout"] = r.stdout[-500:]
        obs["outcomes"] = outcomes
        obs["stderr_tail"] = r.stderr[-300:]
    finally:
        shutil.rmtree(tmp, ignore_errors=True)
    # --- the statement, directly on the observation
    hard = [d for d in docs if d.kind == "hard-error" or d.kind in EARLY]
    if hard:
        if r.returncode != 1:
            return True, True, "a document that cannot be executed must end the run with exit status 1, got %d" % r.returncode, obs
        return True, False, "", obs
    want = []
    failed = False
    for doc, b in zip(docs, per_doc):
        pre, main, app = titles_of(doc, cli_pre, cli_app)
        seq = pre + main + app
        stop = None
        for i, title in enumerate(seq):
            beh = b[title]
            if doc.kind == "skipped":
                kind = "skipped"
            elif stop is not None:
                kind = "skipped"
            elif beh in ("timeout-index", "timeout-total"):
                kind, stop, failed = "timeout", i, True
            elif beh == "detached":
                kind = None
            else:
                kind = {"pass": "success", "fail": "fail"}[beh]
                failed = failed or kind == "fail"
            want.append(("doc%d.md" % doc.d, title, kind, len(pre), len(pre) + len(main)))
    norm = lambda k: "fail" if k in ("malformed_output", "invalid_exit_code", "internal_error") else k
    got = [(loc, t, norm(k)) for loc, t, k in outcomes]
    locs = [loc for loc, _t, _k in got]
    groups = [loc for i, loc in enumerate(locs) if i == 0 or locs[i - 1] != loc]
    doc_names = ["doc%d.md" % d.d for d in docs]
    if len(set(groups)) != len(groups) or [g for g in doc_names if g in groups] != groups:
        return True, True, "documents are not reported one after the other in the given order: %s" % locs, obs
    cls = lambda t: 0 if t[0] in "pP" else 2 if t[0] in "qQ" else 1
    for loc in doc_names:
        w_doc = [(t, k) for l, t, k, _a, _b in want if l == loc]
        g_doc = [(t, k) for l, t, k in got if l == loc]
        if len(set(t for t, _k in g_doc)) != len(g_doc):
            return True, True, "%s: a test case is reported twice: %s" % (loc, g_doc), obs
        optional = {t for t, k in w_doc if k is None}
        required = [(t, k) for t, k in w_doc if k is not None]
        g_req = [(t, k) for t, k in g_doc if t not in optional]
        if sorted(required) != sorted(g_req):
            return True, True, "%s: expected exactly the results %s, scrut reported %s" % (loc, required, g_doc), obs
        seq = [t for t, _k in g_doc]
        if [cls(t) for t in seq] != sorted(cls(t) for t in seq) or [t for t in seq if cls(t) == 1] != sorted(t for t in seq if cls(t) == 1):
            return True, True, "%s: results out of order (prepend, own in document order, append): %s" % (loc, seq), obs
    want_exit = 50 if failed else 0
    if r.returncode != want_exit:
        return True, True, "exit status %d, expected %d" % (r.returncode, want_exit), obs
    return True, False, "", obs


def h_main():
    def drive_main(ctx, args):
        """main(): exit status mapping"""
        return ctx.call(ctx.program.find("main"), [])

    def mk(outcome):
        def setup(ctx):
            ctx.notes["run_outcome"] = outcome
            return []
        return setup

    def post_main(ctx, args, kind, value):
        if kind != "return":
            return False
        want = {"ok": 0, "validation": 50, "other": 1}[ctx.notes["run_outcome"]]
        return isinstance(value, Agg) and value.ty == "ExitCode" and value.fields[0].concrete and value.fields[0].v == want
    h = e2.Harness("main_exit_status", drive_main, [("run() → %s" % o, mk(o)) for o in ("ok", "validation", "other")], post_main, native=None, judge=None,
                   describe="main maps Ok → 0, Err(ValidationFailedError) → 50, any other Err → 1", bound="the three outcomes of Commands::run")
    return h


class MainModels(Models):
    def __init__(self, prog):
        super().__init__()

        def ins(pat, fn, defs=None):
            self.table.insert(0, (re.compile("^(?:%s)$" % pat), fn))
            if defs:
                hits = [n for n in prog.funcs if re.search(defs, n)]
                if not hits:
                    raise Unsupported("harness stub: no function definition matches %r" % defs)
                for n in hits:
                    self.overrides[n] = (lambda ctx, fname, args, fn=fn: fn(ctx, None, args))
        ins(r"<Args as (?:clap::)?Parser>::parse|<Args as Parser>::parse", lambda c, m, a: Opaque("Args"))
        ins(r"GlobalParameters::init_logging", lambda c, m, a: ok(UNIT), defs=r"commands/root\.rs[^>]*>::init_logging$")

        def run(c, m, a):
            o = c.notes["run_outcome"]
            return ok(UNIT) if o == "ok" else err(Opaque("anyhow:ValidationFailedError" if o == "validation" else "anyhow:other"))
        ins(r"Commands::run|commands::Commands::run|root::Commands::run", run, defs=r"commands/root\.rs[^>]*>::run$")
        ins(r"anyhow::error::<impl anyhow::Error>::downcast_ref::<.*ValidationFailedError>|anyhow::Error::downcast_ref::<.*>",
            lambda c, m, a: some(Opaque("vfe")) if deref(a[0]).what == "anyhow:ValidationFailedError" else none())
        ins(r"<u8 as Into<ExitCode>>::into|<ExitCode as From<u8>>::from", lambda c, m, a: Agg("ExitCode", None, [deref(a[0])]))
        ins(r"<Level as PartialOrd<LevelFilter>>::le|<Level as PartialOrd>::le", lambda c, m, a: SBool(False))
        ins(r"Interest::never|Interest::always|Interest::sometimes", lambda c, m, a: Opaque("Interest"))

    def const(self, ctx, name):
        if name.endswith("ExitCode::SUCCESS"):
            return Agg("ExitCode", None, [mk_int(0, "u8")])
        if name.endswith("ExitCode::FAILURE"):
            return Agg("ExitCode", None, [mk_int(1, "u8")])
        return None


_PROG = {}


def load_bin_program():
    lib, s1 = e2.dump_mir("lib")
    binp, s2 = e2.dump_mir("bin")
    key = (lib, binp)
    if key not in _PROG:
        text = open(lib).read() + "\n" + open(binp).read()
        _PROG[key] = Program(text, e2.REPO + "/src")
    return _PROG[key], s1 + s2


# ---- the order in which given documents come out of the file parser ---------------------------------------------------------------

ORDER_TREE = {"d": ["d/one.md", "d/notes.txt", "d/deep"], "d/deep": ["d/deep/two.t"]}


def expected_documents(names, fs):
    """the documents find_and_parse is to yield for the named paths in the tree `fs`; None if one of them cannot be read"""
    out = []

    def walk(p_):
        k = fs.get(p_, "file")
        if isinstance(k, list):
            return all([walk(ch) for ch in k])
        if not p_.endswith((".md", ".t")):
            return True
        if k == "unreadable":
            return False
        out.append(p_)
        return True
    return out if all([walk(n) for n in names]) else None


def h_document_order(prog):
    """FileParser::find_and_parse on explicitly named files: one parsed document per path, in the order given"""
    from props import c18

    class OrderModels(c18.EnvModels):
        def __init__(self):
            super().__init__(prog)
            # the real file parser runs; only the file system, the glob matcher and the document parsers are stubs
            for n in list(self.overrides):
                if re.search(r"utils/file_parser\.rs[^>]*>::(?:new|find_and_parse)$", n):
                    del self.overrides[n]

            def ins(pat, fn, defs=None):
                self.table.insert(0, (re.compile("^(?:%s)$" % pat), fn))
                if defs:
                    for n in [n for n in prog.funcs if re.search(defs, n)]:
                        self.overrides[n] = (lambda ctx, fname, args, fn=fn: fn(ctx, None, args))
            ins(r"<P as AsRef<(?:std::path::)?Path>>::as_ref|<&P as AsRef<(?:std::path::)?Path>>::as_ref", lambda c, m, a: c18.mk_path(c18.pstr(a[0])))
            ins(r"<&(?:std::path::)?Path as Into<PathBuf>>::into|<&P as Into<PathBuf>>::into", lambda c, m, a: c18.mk_pathbuf(c18.pstr(a[0])))
            # the file system is the tree in notes["fs"]: path → "file" | "unreadable" | [children] (a directory); unnamed paths are plain files
            kind = lambda c, p_: c.notes["fs"].get(p_, "file")

            def metadata(c, m, a):
                k = kind(c, c18.pstr(a[0]))
                return ok(Opaque("Metadata:dir" if isinstance(k, list) else "Metadata:file"))
            ins(r"(?:std::fs::)?metadata::<.*>", metadata)
            ins(r"(?:std::fs::)?Metadata::is_dir", lambda c, m, a: SBool(deref(a[0]).what == "Metadata:dir"))
            ins(r"(?:std::path::)?Path::exists", lambda c, m, a: SBool(True))
            ins(r"accept", lambda c, m, a: SBool(c18.pstr(a[1]).endswith((".md", ".t"))), defs=r"utils/file_parser\.rs[^>]*>::accept$")

            def read_dir(c, m, a):
                from mir_models import SeqIt
                return ok(SeqIt([ok(Agg("DirEntry", None, [c18.mk_pathbuf(ch)])) for ch in kind(c, c18.pstr(a[0]))]))
            ins(r"(?:std::fs::)?read_dir::<.*>", read_dir)
            ins(r"(?:std::fs::)?DirEntry::path", lambda c, m, a: c18.mk_pathbuf(c18.pstr(deref(a[0]).fields[0])))

            def read_file(c, m, a):
                p_ = c18.pstr(a[0])
                if kind(c, p_) == "unreadable":
                    return err(Opaque("anyhow:unreadable"))
                return ok(StringBuf([SInt(ord(ch), "char") for ch in "content of " + p_]))
            ins(r"read_file", read_file, defs=r"(?:^|::)read_file$")

            def parser(c, m, a):
                return ok(Agg("tuple", None, [Agg("ParserType", "Markdown", []), mk_box(Agg("StubParser", None, [c18.mk_pathbuf(c18.pstr(a[1]))]))]))
            ins(r"parser", parser, defs=r"utils/file_parser\.rs[^>]*>::parser$")

            def parse(c, m, a):
                # the stub parser names its one test case after the content it is given
                text = "".join(chr(ch.v) for ch in as_str(a[1]).chars)
                cfg = c.call(c.program.resolve_call("DocumentConfig::empty"), [])
                return ok(Agg("tuple", None, [cfg, VecBuf([mk_testcase(c, text, 1)])]))
            ins(r"<dyn (?:scrut::parsers::parser::)?Parser as (?:scrut::parsers::parser::)?Parser>::parse", parse)
            ins(r"<Result<.*> as anyhow::Context<.*>>::with_context::<.*>|<Result<.*> as anyhow::Context<.*>>::context::<.*>", lambda c, m, a: a[0] if a[0].variant == "Ok" else err(Opaque("anyhow:other")))

    def mk(names, fs=None):
        def setup(ctx):
            ctx.notes["ledger"] = c18.Ledger()
            ctx.notes["names"] = names
            ctx.notes["fs"] = fs or {}
            fp = Agg("FileParser", None, [Opaque("match_cram"), Opaque("match_markdown"), Slice([])])
            return [new_ref(fp), Str([SInt(ord(c), "char") for c in "test"]), Slice([c18.mk_path(n) for n in names]), SBool(False)]
        return setup

    def drive(ctx, args):
        """FileParser::find_and_parse(name, paths, cram_compat) with the file system replaced by a small tree of files, directories and unreadable documents"""
        return ctx.call(find_method(ctx.program, "utils/file_parser.rs", "find_and_parse"), list(args))

    def post(ctx, args, kind, value):
        if kind != "return":
            return False
        want = expected_documents(ctx.notes["names"], ctx.notes["fs"])
        if want is None:
            return value.variant == "Err"       # a document that cannot be read: scrut cannot do its job
        if value.variant != "Ok":
            return False
        docs = as_items(value.fields[0])
        got = [c18.pstr(field_of(d, "path")) for d in docs]
        titles = [title_of(field_of(d, "testcases").items[0]) for d in docs]
        return got == want and titles == ["content of " + n for n in want]
    import itertools as it
    base = ["zeta.md", "alpha.md", "last.t", "sub/b.md"]
    inputs = [("paths=%s" % list(p), mk(list(p))) for n in (1, 2, 3) for p in it.permutations(base, n)]
    for bad in (None, "d/one.md", "d/deep/two.t", "zeta.md"):
        fs = dict(ORDER_TREE)
        if bad:
            fs[bad] = "unreadable"
        for names in (["d"], ["zeta.md", "d"], ["d", "alpha.md"], ["d/deep", "zeta.md"]):
            inputs.append(("paths=%s unreadable=%s" % (names, bad), mk(names, fs)))
    h = e2.Harness("given_documents_keep_their_order", drive, inputs, post, native=None, judge=None,
                   describe="find_and_parse yields one parsed document per named file and per matching file below a named directory (depth first), in the order "
                            "the paths were given (command line, prepend / append lists); if one of those documents cannot be read it returns an error",
                   bound="every ordered selection of 1..3 of the paths %s; the directory tree %s named in 4 ways, with no / a shallow / a deep / a top-level "
                         "unreadable document (the order inside a directory is the listing's)" % (base, ORDER_TREE))
    h.models_cls = OrderModels
    return h


def native_document_order(names, fs=None):
    """real `scrut test -r json` on explicitly named passing-and-failing documents: the outcomes come in the order of the command line"""
    import json
    import os
    import shutil
    import subprocess
    import tempfile
    from common import SCRUT_BIN
    tmp = tempfile.mkdtemp(prefix="verif-c20o-")
    try:
        files = []
        for n in list(names) + [x for v in (fs or {}).values() if isinstance(v, list) for x in v]:
            if not isinstance((fs or {}).get(n, "file"), list) and n not in files:
                files.append(n)
        for n in files:
            os.makedirs(os.path.dirname(os.path.join(tmp, n)) or tmp, exist_ok=True)
            if (fs or {}).get(n) == "unreadable":
                open(os.path.join(tmp, n), "wb").write(b"\xff\xfe not utf-8\n")
            elif n.endswith(".t"):
                open(os.path.join(tmp, n), "w").write("%s\n  $ echo hello\n  nope\n" % n)
            else:
                open(os.path.join(tmp, n), "w").write("%s\n\n```scrut\n$ echo hello\nnope\n```\n" % n)
        r = subprocess.run([SCRUT_BIN, "test", "-r", "json"] + names, cwd=tmp, stdout=subprocess.PIPE, stderr=subprocess.PIPE, text=True, timeout=60)
        try:
            got = [o["location"] for o in json.loads(r.stdout)]
        except Exception:
            got = None
    finally:
        shutil.rmtree(tmp, ignore_errors=True)
    return got, {"argv": ["test", "-r", "json"] + names, "exit": r.returncode, "locations": got, "stderr_tail": r.stderr[-200:]}


def native_lookups():
    """real `scrut test sub/doc.md -P setup.md`: the command-line document is the one in the current directory, not the one next to the document"""
    import json
    import os
    import shutil
    import subprocess
    import tempfile
    from common import SCRUT_BIN
    tmp = tempfile.mkdtemp(prefix="verif-c20l-")
    try:
        os.mkdir(os.path.join(tmp, "sub"))
        block = lambda title, cmd, exp: "# %s\n\n```scrut\n$ %s\n%s\n```\n" % (title, cmd, exp)
        open(os.path.join(tmp, "setup.md"), "w").write(block("Setup", "echo setup", "setup"))
        open(os.path.join(tmp, "sub", "setup.md"), "w").write(block("Other", "echo other", "nope"))
        open(os.path.join(tmp, "sub", "doc.md"), "w").write(block("Document", "echo doc", "nope"))
        r = subprocess.run([SCRUT_BIN, "test", "-r", "json", "sub/doc.md", "-P", "setup.md"], cwd=tmp, stdout=subprocess.PIPE, stderr=subprocess.PIPE, text=True, timeout=60)
        try:
            got = [o.get("title") or o.get("testcase", {}).get("title") for o in json.loads(r.stdout)]
        except Exception:
            got = None
    finally:
        shutil.rmtree(tmp, ignore_errors=True)
    return got, {"argv": ["test", "-r", "json", "sub/doc.md", "-P", "setup.md"], "exit": r.returncode, "titles": got, "stderr_tail": r.stderr[-200:]}


def shape_sig(docs, cli_pre, cli_app):
    return "%s%s%s" % ("cli-prepend+" if cli_pre else "", "|".join("%s%s%s:%s" % ("pre+" if d.pre else "", d.n, "+app" if d.app else "", d.kind) for d in docs),
                       "+cli-append" if cli_app else "")


def run(pid, tier):
    import random
    from common import build_scrut_bin, seed
    rep = Report(pid, tier, "other")
    prog, mir_s = load_bin_program()
    bin_s = build_scrut_bin()
    q = tier == "quick"
    h = h_run(2, 3, True) if q else h_run(2, 4, True, plain_total=5)
    h.models_cls = lambda: RunModels(prog)
    res = e2.run_with_raw(prog, h, max_witnesses=8)
    replayed = 0
    for model, r in res.raw_witnesses[:8]:
        docs = r.ctx.notes["docs"]
        cli_pre, cli_app = r.ctx.notes["cli"]
        verdicts = [bool(z3.is_true(model.eval(v.z(), model_completion=True))) for v in r.ctx.notes.get("validated", [])]
        received = r.ctx.notes.get("executed_titles", [])
        sig = "accounting:" + shape_sig(docs, cli_pre, cli_app)
        what = "documents %s%s%s with validation verdicts %s" % (docs, ", --prepend-test-file-paths" if cli_pre else "", ", --append-test-file-paths" if cli_app else "", verdicts)
        replayable, violated, why, obs = native_replay(cli_pre, cli_app, docs, received, verdicts)
        if not replayable:
            rep.violation(sig, "commands::test::Args::run mis-accounts for %s (decided on its MIR; not replayable end to end: %s)" % (what, why),
                          {"kind": "mir-only", "documents": repr(docs), "verdicts": verdicts, "harness": h.name})
            continue
        replayed += 1
        if violated:
            rep.violation(sig, "`scrut test` on %s: %s" % (what, why), {"kind": "scrut-test-run", "observation": obs, "verdicts": verdicts, "harness": h.name})
        else:
            rep.mismatches.append("%s: solver witness %s did not reproduce natively: %s" % (h.name, what, obs and obs.get("outcomes")))
    e2.record(rep, h, res, status=("violated" if res.witnesses else ("undecided" if res.unsupported else "holds")))
    for u in res.unsupported[:3]:
        rep.undecided.append(u)
    # the stubs (executor results → what the real executors hand back) are validated by pushing scripts through the real binary:
    # every sampled script must be judged "holds" by the statement itself on the real run
    rng = random.Random(seed())
    cfgs = [c for c in run_configs(2, 3, False)]
    sample = rng.sample(cfgs, 6 if q else 24)
    sample += [(1, 1, [Doc(0, 1, 1, 1, "ok", "CCDCC")]), (0, 0, [Doc(0, 2, 0, 0, "timeout-total", "C"), Doc(1, 2, 0, 0, "ok", "CC")]),
               (1, 0, [Doc(0, 2, 0, 0, "skipped", 1), Doc(1, 1, 0, 0, "timeout-index", "C")])]
    bad = 0
    t0 = time.time()
    for cp, ca, dl in sample:
        n_val = sum(sum(1 for x in (d.detail if isinstance(d.detail, str) else "") if x == "C") for d in dl)
        verdicts = [rng.random() < 0.6 for _ in range(n_val)]
        replayable, violated, why, obs = native_replay(cp, ca, dl, [], verdicts)
        if replayable and violated:
            bad += 1
            rep.violation("native:" + shape_sig(dl, cp, ca), "`scrut test` on documents %s (verdicts %s): %s" % (dl, verdicts, why),
                          {"kind": "scrut-test-run", "observation": obs, "verdicts": verdicts, "harness": "end-to-end sample"})
    rep.subclaims[-1]["concrete_validation"] = {"inputs": len(sample), "mismatches": bad, "wall_s": round(time.time() - t0, 1),
                                                "function": "real `scrut test -r json` runs on documents realising sampled executor scripts, judged by the statement"}
    # where prepend / append documents are looked for (real paths: the C18 machinery)
    from props import c18
    hl = c18.h_lookups()
    hl.models_cls = lambda: c18.EnvModels(prog)
    resl = e2.run_with_raw(prog, hl, max_witnesses=2)
    for model, r in resl.raw_witnesses[:2]:
        got, obs = native_lookups()
        if got != ["Setup", "Document"]:
            rep.violation("prepend-append:looked-up-elsewhere", "`scrut test sub/doc.md -P setup.md` (setup.md next to the current directory, another one next to the document) "
                          "runs %s, expected the named setup.md first, then the document" % got, {"kind": "scrut-test-run", "observation": obs, "harness": hl.name})
        else:
            rep.violation("prepend-append:mir-only", "commands::test::Args::run asks for prepend / append documents at %s, expected %s (decided on its MIR with real paths; "
                          "the end-to-end run with a relative -P behaves)" % (sorted(r.ctx.notes.get("lookups", [])), r.ctx.notes.get("want_lookups")),
                          {"kind": "mir-only", "harness": hl.name})
    e2.record(rep, hl, resl, status=("violated" if resl.witnesses else ("undecided" if resl.unsupported else "holds")))
    for u in resl.unsupported[:3]:
        rep.undecided.append(u)
    ho = h_document_order(prog)
    reso = e2.run_with_raw(prog, ho, max_witnesses=3)
    for model, r in reso.raw_witnesses[:3]:
        names, fs = r.ctx.notes["names"], r.ctx.notes["fs"]
        got, obs = native_document_order(names, fs)
        want = expected_documents(names, fs)
        if want is None and obs["exit"] != 1:
            rep.violation("document-unreadable-not-reported", "`scrut test %s` with the unreadable document %s below it exits with %s (expected 1) and reports %s"
                          % (" ".join(names), [k for k, v in fs.items() if v == "unreadable"], obs["exit"], got),
                          {"kind": "scrut-test-run", "observation": obs, "harness": ho.name})
        elif want is not None and got is not None and sorted(got) != sorted(want) or (want is not None and got is not None and not fs and got != want):
            rep.violation("document-order", "`scrut test %s` reports its documents as %s (expected %s)" % (" ".join(names), got, want),
                          {"kind": "scrut-test-run", "observation": obs, "harness": ho.name})
        else:
            rep.mismatches.append("%s: solver witness %s did not reproduce natively: %s" % (ho.name, names, obs))
    e2.record(rep, ho, reso, status=("violated" if reso.witnesses else ("undecided" if reso.unsupported else "holds")))
    for u in reso.unsupported[:3]:
        rep.undecided.append(u)
    got, obs = native_document_order(["zeta.md", "last.t", "alpha.md"])
    if got != ["zeta.md", "last.t", "alpha.md"]:
        rep.violation("document-order", "`scrut test zeta.md last.t alpha.md` reports its documents in the order %s" % got,
                      {"kind": "scrut-test-run", "observation": obs, "harness": "end-to-end sample"})
    for bad in ("d/one.md", "d/deep/two.t"):
        fs = dict(ORDER_TREE)
        fs[bad] = "unreadable"
        got, obs = native_document_order(["zeta.md", "d"], fs)
        if obs["exit"] != 1:
            rep.violation("document-unreadable-not-reported", "`scrut test zeta.md d` with the unreadable document %s exits with %s (expected 1) and reports %s"
                          % (bad, obs["exit"], got), {"kind": "scrut-test-run", "observation": obs, "harness": "end-to-end sample"})
    got, obs = native_document_order(["zeta.md", "d"], dict(ORDER_TREE))
    if got is None or sorted(got) != sorted(["zeta.md", "d/one.md", "d/deep/two.t"]) or got[0] != "zeta.md":
        rep.violation("document-order", "`scrut test zeta.md d` reports its documents as %s" % got, {"kind": "scrut-test-run", "observation": obs, "harness": "end-to-end sample"})
    hm = h_main()
    hm.models_cls = lambda: MainModels(prog)
    resm = e2.run_harness(prog, hm)
    for w in resm.witnesses[:3]:
        rep.violation("main-exit-status", "main's exit status for %s is wrong (decided on the MIR of main)" % w["shape"], {"kind": "mir-only", "shape": w["shape"], "harness": hm.name})
    e2.record(rep, hm, resm, status=("violated" if resm.witnesses else ("undecided" if resm.unsupported else "holds")))
    for u in resm.unsupported[:3]:
        rep.undecided.append(u)
    tot = sum(s.get("paths", 0) for s in rep.subclaims)
    rep.coverage.update({
        "explanation": "SMT-backed bounded symbolic execution (path-wise, z3 feasibility) of the MIR of commands::test::Args::run and main from the "
                       "bin crate with stubs for document discovery, environment, executor, validation verdict (free Boolean), UI and renderer; "
                       "the outcomes handed to the renderer and the returned Result are the observables. Witnesses are replayed end to end: "
                       "real documents realising the executor script are run through the real `scrut test -r json` and judged by the statement.",
        "functions_encoded": ["scrut(bin)::commands::test::Args::run (+ closures)", "Args::to_document_config", "Args::to_testcase_config",
                              "GlobalSharedParameters::to_document_config / to_testcase_config", "prefix_with_directory", "scrut(bin)::main",
                              "DocumentConfig::with_overrides_from / with_defaults_from", "TestCaseConfig::with_overrides_from / with_environment",
                              "From<(T, U, Option<i32>)> for Output"],
        "evaluations": tot, "distinct_nontrivial": max(tot, 2),
        "rule": "one case = one feasible path of run() for one list of per-document executor results",
        "samples": [s for sc in rep.subclaims for s in sc.get("samples", [])][:4] or ["executor scripts: see subclaims"],
        "mir_dump_s": round(mir_s, 1), "scrut_build_s": round(bin_s, 1), "witnesses_replayed_end_to_end": replayed,
    })
    rep.assumptions += ["stubs: FileParser (documents given), TestEnvironment, make_executor / execute_all (scripted result), TestCase::validate (free Boolean), "
                        "ProgressWriter, console styling, format!, tracing (off), renderer (captures its argument)",
                        "the executors hand back one output per test case in order (C14/C15 decide that for the Markdown executor); file discovery, "
                        "parse errors (exit 1 by `?`), Cram documents and directories are not in the harness",
                        "prepend / append documents have one test case each; --debug and --verbose off"]
    return rep.finish()
