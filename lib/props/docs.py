"""Document-level claims on the MIR of the whole parsers / the update generator (used by C06, C07, C10).

Documents are sequences of line *templates* (concrete structure) whose payload characters are symbolic letters; the real
`MarkdownParser::parse` / `CramParser::parse` / `generate_update` MIR is executed on them (LineParser, ExpectationMaker, title
regexes with lib/miniregex.py in place of the regex engine), and the result is compared with what the property statement
prescribes for that template sequence.  An `Err` result is always acceptable (the statement allows failing with an error)."""
import itertools
import re

import z3

import e2
import miniregex
from mir_exec import (STRUCTS, Agg, MapBuf, Opaque, SBool, SInt, Slice, Str, StringBuf, Unsupported, VecBuf, field_of, find_method,
                      load_program, mk_int, mk_struct, new_ref, UNIT)
from mir_models import (Models, SeqIt, as_items, as_str, char_eq, deref, err, none, ok, sbool, some, z_and, z_not, z_or)
from props.c08 import GrammarModels
from props.c09 import GenModels


class DocModels(GenModels):
    def __init__(self):
        super().__init__()
        ins = lambda pat, fn: self.table.insert(0, (re.compile("^(?:%s)$" % pat), fn))
        ins(r"Interest::never|Interest::always|Interest::sometimes", lambda c, m, a: Opaque("Interest"))

        def cap_get(c, m, a):
            caps = deref(a[0]).fields[0].items
            i = deref(a[1]).v
            return caps[i] if i < len(caps) else none()
        ins(r"regex::Captures::get|Captures::get", cap_get)

        def yaml_from_str(c, m, a):
            ty = m.group("t")
            # the YAML reader is cut: it either rejects the text or yields an (empty) configuration — the same answer for the same text
            c.notes.setdefault("yaml_texts", []).append((ty, "".join(chr(ch.v) if ch.concrete else "?" for ch in as_str(a[0]).chars)))
            key = ("yaml", ty, tuple((ch.v if ch.concrete else str(ch.z())) for ch in as_str(a[0]).chars))
            memo = c.notes.setdefault("yaml_memo", {})
            if key not in memo:
                memo[key] = c.decide(c.sym_bool(c.fresh_name("yaml_ok")).v)
            if memo[key]:
                # what the texts of the templates say: the inline configuration sets keep_crlf, the front-matter sets two defaults
                if ty == "TestCaseConfig":
                    cfg = c.call(c.program.resolve_call("TestCaseConfig::empty"), [])
                    cfg.fields[STRUCTS["TestCaseConfig"].index("keep_crlf")] = some(SBool(True))
                    return ok(cfg)
                if ty == "DocumentConfig":
                    doc = c.call(c.program.resolve_call("DocumentConfig::empty"), [])
                    dfl = field_of(doc, "defaults")
                    dfl.fields[STRUCTS["TestCaseConfig"].index("keep_crlf")] = some(SBool(False))
                    dfl.fields[STRUCTS["TestCaseConfig"].index("skip_document_code")] = some(mk_int(7, "i32"))
                    return ok(doc)
                impl = c.program.resolve_call("<%s as Default>::default" % ty)
                return ok(c.call(impl, []))
            return err(Opaque("serde_yaml::Error"))
        ins(r"serde_yaml::from_str::<(?P<t>[A-Za-z]+)>", yaml_from_str)
        ins(r"anyhow::kind::Trait::new::<.*>|<.* as anyhow::kind::TraitKind>::anyhow_kind|anyhow::__private::kind::.*", lambda c, m, a: Opaque("anyhow"))


# ---- templates ----------------------------------------------------------------------------------------

MD_TEMPLATES = {
    "P": ("p", 1),      # prose: 'p' + letter
    "U": ("\u00e9", 1),  # prose that opens with a non-ASCII letter: 'é' + letter
    "H": ("# ", 1),     # heading / comment inside a block
    "B": ("", 0),       # blank
    "F": ("```s", 0),   # scrut fence
    "f": ("```sx", 0),  # scrut fence of the second configured language (whose name the first is a prefix of)
    "V": ("```x", 0),   # foreign-language fence
    "E": ("```", 0),    # bare fence
    "C": ("$ ", 1),     # command
    "c": ("$ ", 0),     # a command line without text
    "G": ("> ", 1),     # continuation
    "g": ("> ", 0),     # continuation that adds an empty line to the command
    "w": ("> ", 1, " "),  # continuation that ends in a blank
    "X": ("", 2),       # two letters: expectation / prose
    "R": ("[7]", 0),    # exit code
    "r": ("[0]", 0),    # the exit code 0 written out
    "n": ("[99999999999]", 0),   # a bracketed number that is no exit code (beyond i32): an ordinary line
    "L": ("````s", 0),  # scrut fence of four backticks (nested shorter fences are content)
    "K": ("````", 0),   # bare fence of four backticks
    "I": ("  ```", 0),  # an indented backtick run: never a fence
    "J": ("```s {keep_crlf: true}", 0),    # scrut fence with inline configuration
    "Q": ("```s {keep_crlf: true} ", 0),   # the same with a trailing blank
    "D": ("---", 0),    # front-matter delimiter (only generated as first line and as its closing line)
    "Y": ("k: ", 1),    # a line of front-matter
}
FENCES = {"F": 3, "f": 3, "V": 3, "E": 3, "L": 4, "K": 4, "J": 3, "Q": 3}      # template → number of backticks at the start of the line
SCRUT_FENCES = ("F", "f", "L", "J", "Q")
LANGUAGES = ["s", "sx"]       # the configured test languages of every document harness
CONTINUATIONS = ("G", "g", "w")
COMMANDS = ("C", "c")
EXIT_CODES = {"R": 7, "r": 0}


def md_text(t, payload):
    """the text of a template line with concrete payload letters"""
    spec = MD_TEMPLATES[t]
    return spec[0] + payload + (spec[2] if len(spec) > 2 else "")
INLINE_CONFIG = "{keep_crlf: true}"


def closes(opener, t):
    """a block ends at the first later line that starts with the opener's backticks"""
    return t in FENCES and FENCES[t] >= FENCES[opener]


def md_line(ctx, t, i):
    spec = MD_TEMPLATES[t]
    prefix, n = spec[0], spec[1]
    suffix = spec[2] if len(spec) > 2 else ""
    chars = [SInt(ord(c), "char") for c in prefix]
    payload = []
    for j in range(n):
        ch = ctx.sym_char("x%d_%d" % (i, j), 1)
        ctx.add(z3.And(ch.z() >= ord("a"), ch.z() <= ord("z")))
        payload.append(ch)
    return chars + payload + [SInt(ord(c), "char") for c in suffix], payload


def front_matter_len(seq):
    """number of leading lines that form the front-matter (delimiters included); 0 if there is none; -1 if it is unterminated"""
    if not seq or seq[0] != "D":
        return 0
    j = seq.find("D", 1)
    return j + 1 if j >= 0 else -1


def shift_test(t, k):
    return {"cmd": [x + k for x in t["cmd"]], "exps": [x + k for x in t["exps"]], "exit": t["exit"], "line": t["line"] + k,
            "title": (t["title"] + k) if isinstance(t["title"], int) else t["title"], "pre": [x + k for x in t["pre"]]}


def md_reference(seq):
    """expected parse of a template sequence per the statement of C06 (front-matter: configuration only, never tests or titles)"""
    k = front_matter_len(seq)
    if k < 0:
        return []                 # unterminated front-matter is read to the end of the document: no tests
    if k:
        ref = md_reference_body(seq[k:])
        return [shift_test(t, k) for t in ref] if isinstance(ref, list) else ref
    return md_reference_body(seq)


def md_reference_body(seq):
    """expected parse of a template sequence per the statement of C06, or None if the statement leaves it open.
    → list of tests: dict(cmd=[line idx...], exps=[(line idx, kind)], exit=7|None, line=int, title=line idx | None | 'skip')"""
    tests = []
    i = 0
    n = len(seq)
    last_title_run = []      # indices of the nearest preceding run of title-ish lines
    run_open = False
    tests_since_title = 0
    while i < n:
        t = seq[i]
        if t in FENCES:
            # a block: until the next line starting with the opener's backticks or the end of the document
            j = i + 1
            while j < n and not closes(t, seq[j]):
                j += 1
            body = list(range(i + 1, j))
            if t in ("E", "K"):
                return "error"       # bare fence: must be rejected (missing language) — or at least not parsed into tests
            if t in SCRUT_FENCES:
                k = 0
                while k < len(body) and seq[body[k]] == "H":
                    k += 1           # leading comment lines
                code = body[k:]
                if code:
                    cmd_at = [x for x in code if seq[x] in COMMANDS]
                    if not cmd_at:
                        return "error-or-none"       # expectations without command: an error, or no test
                    first = cmd_at[0]
                    # lines before the command (blank / output lines): the statement does not say where they belong, but the block
                    # still "contains a `$` command": one test, with the written command; only these lines are left open
                    pre = code[:code.index(first)]
                    cmd = [first]
                    p = code.index(first) + 1
                    while p < len(code) and seq[code[p]] in CONTINUATIONS:
                        cmd.append(code[p])
                        p += 1
                    exps = []
                    exit_code = None
                    for x in code[p:]:
                        if seq[x] in EXIT_CODES:
                            if exit_code is not None:
                                return "error"
                            exit_code = EXIT_CODES[seq[x]]
                        else:
                            exps.append(x)
                    if any(seq[x] == "I" for x in last_title_run):
                        title = "skip"       # an indented backtick run is a fence for CommonMark, a paragraph for others: left open
                    elif len(last_title_run) == 1 and tests_since_title == 0:
                        title = last_title_run[0]
                    elif not last_title_run and tests_since_title == 0:
                        title = None
                    else:
                        title = "skip"
                    tests.append({"cmd": cmd, "exps": exps, "exit": exit_code, "line": first + 1, "title": title, "pre": pre})
                    tests_since_title += 1
            run_open = False
            i = j + 1 if j < n else n
            continue
        if t in ("P", "X", "H", "I", "U"):
            if not run_open:
                last_title_run = []
                run_open = True
                tests_since_title = 0
            last_title_run.append(i)
        else:
            run_open = False
            if t in ("C", "G", "R"):
                pass
        i += 1
    return tests


def md_parse_driver(ctx, args):
    """<MarkdownParser as Parser>::parse on a template document"""
    prog = ctx.program
    parse = find_method(prog, "parsers/markdown.rs", "parse")
    from props.c08 import get_maker
    maker = get_maker(ctx)
    cfg = ctx.call(prog.resolve_call("TestCaseConfig::default_markdown"), [])
    parser = mk_struct("MarkdownParser", expectation_maker=maker, languages=VecBuf([StringBuf([SInt(ord(c), "char") for c in l_]) for l_ in LANGUAGES]), base_testcase_config=cfg)
    return ctx.call(parse, [new_ref(parser), args[0]])


def mk_md_setup(seq, eol="\n", final_eol=True):
    def setup(ctx):
        text = []
        payloads = []
        lines = []
        for i, t in enumerate(seq):
            chars, payload = md_line(ctx, t, i)
            lines.append(chars)
            payloads.append(payload)
            text += chars + ([SInt(ord(c), "char") for c in eol] if (final_eol or i < len(seq) - 1) else [])
        ctx.notes["eol"] = (eol, final_eol)
        ctx.notes["seq"] = seq
        ctx.notes["lines"] = lines
        ctx.notes["payloads"] = payloads
        return [Str(text)]
    return setup


def same(a, b):
    if len(a) != len(b):
        return False
    return z_and([char_eq(x, y) for x, y in zip(a, b)])


def line_text_after_prefix(ctx, idx):
    seq, lines = ctx.notes["seq"], ctx.notes["lines"]
    prefix = MD_TEMPLATES[seq[idx]][0]
    if seq[idx] in COMMANDS or seq[idx] in CONTINUATIONS:
        return lines[idx][len(prefix):]
    return lines[idx]


def title_text(ctx, idx):
    seq, lines = ctx.notes["seq"], ctx.notes["lines"]
    if seq[idx] == "H":
        return lines[idx][2:]
    return lines[idx]


def md_post(ctx, args, kind, value):
    if kind != "return":
        return False
    seq = ctx.notes["seq"]
    want = md_reference(seq)
    if value.variant == "Err":
        return True          # failing with an error is always allowed
    tests = as_items(value.fields[0].fields[1])
    if want == "error":
        return False         # must not be accepted
    if want == "error-or-none":
        return True
    if len(tests) != len(want):
        return False
    # the inline configuration of every scrut block reaches the YAML reader exactly as written (nothing dropped, nothing added)
    k_fm = max(front_matter_len(seq), 0)
    blocks = [b for b in md_blocks(seq) if b[0] == "test"]
    written = [INLINE_CONFIG for b in blocks if seq[b[1]] in ("J", "Q")]
    handed = [t for ty, t in ctx.notes.get("yaml_texts", []) if ty == "TestCaseConfig"]
    if handed != written and all(any(seq[x] in COMMANDS for x in b[3]) for b in blocks):
        return False              # (documents with a command-less scrut block are left out: nothing observable carries its configuration)
    conds = []
    for got, w in zip(tests, want):
        cmd = []
        for k, idx in enumerate(w["cmd"]):
            if k:
                cmd.append(SInt(10, "char"))
            cmd += line_text_after_prefix(ctx, idx)
        conds.append(same(list(as_str(field_of(got, "shell_expression")).chars), cmd))
        ln = field_of(got, "line_number")
        conds.append(ln.concrete and ln.v == w["line"])
        ec = field_of(got, "exit_code")
        pre_has_code = any(seq[x] in EXIT_CODES for x in w["pre"])
        if pre_has_code:
            pass                 # an exit-code line before the command: left open
        elif w["exit"] is None:
            conds.append(ec.variant == "None")
        else:
            conds.append(ec.variant == "Some" and ec.fields[0].concrete and ec.fields[0].v == w["exit"])
        exps = as_items(field_of(got, "expectations"))
        extra = len(exps) - len(w["exps"])
        if extra < 0 or extra > len(w["pre"]):
            return False
        exps = exps[extra:]       # lines written before the command may or may not be kept as leading expectations
        for e, idx in zip(exps, w["exps"]):
            orig = list(as_str(e.fields[3]).chars)      # the line as written
            conds.append(same(orig, ctx.notes["lines"][idx]))
        # configuration layers at parse time: inline over the document's defaults over the format's
        opener = max(i for i in range(w["cmd"][0]) if seq[i] in FENCES)
        has_fm = front_matter_len(seq) > 0
        tcfg = field_of(got, "config")
        crlf, skip, stream = field_of(tcfg, "keep_crlf"), field_of(tcfg, "skip_document_code"), field_of(tcfg, "output_stream")
        want_crlf = True if seq[opener] in ("J", "Q") else (False if has_fm else None)
        if want_crlf is None:
            conds.append(crlf.variant == "None")
        else:
            conds.append(crlf.variant == "Some" and crlf.fields[0].concrete and bool(crlf.fields[0].v) == want_crlf)
        conds.append(skip.variant == "Some" and skip.fields[0].concrete and skip.fields[0].v == (7 if has_fm else 80))
        conds.append(stream.variant == "Some" and deref(stream.fields[0]).variant == "Stdout")
        if w["title"] != "skip":
            t = list(as_str(field_of(got, "title")).chars)
            conds.append(same(t, title_text(ctx, w["title"])) if w["title"] is not None else len(t) == 0)
    return z_and(conds)


def md_sequences(max_len, alphabet="PHBFVECGXR", need="F"):
    out = []
    for n in range(0, max_len + 1):
        for seq in itertools.product(alphabet, repeat=n):
            s = "".join(seq)
            if need not in s and n > 1:
                continue            # documents without a scrut block are covered once by the short sequences
            out.append(s)
    return out


FRONT_MATTERS = ["DD", "DYD", "DBD", "DYBD", "DBYD", "DYYD", "DY", "D"]


def md_front_matter_sequences(body_len):
    """documents that start with a front-matter (empty, with keys, with blank lines before the closing delimiter, unterminated)"""
    bodies = [""] + ["".join(t) for n in range(1, body_len + 1) for t in itertools.product("PBFCX", repeat=n)]
    return [fm + b for fm in FRONT_MATTERS for b in bodies if fm[-1] == "D" and len(fm) > 1 or b == ""]


def md_doc_text(seq, payloads):
    """concrete document for a sequence and concrete payload letters"""
    lines = []
    for t, p in zip(seq, payloads):
        lines.append(md_text(t, p))
    return "\n".join(lines) + ("\n" if lines else "")


def md_judge_native(doc_lines_seq, nv):
    """re-judge a native parse result against the reference (concrete)"""
    seq, lines = doc_lines_seq
    want = md_reference(seq)
    if "Err" in nv:
        return None
    tests = nv["Ok"]
    if want == "error":
        return ("parse:bare-fence-accepted", "a bare ``` fence without language is accepted: %r → %s" % (lines, tests))
    if want == "error-or-none":
        return None
    if len(tests) != len(want):
        return ("parse:test-count", "document %r yields %d test(s), the scrut blocks with a command are %d" % (lines, len(tests), len(want)))
    for got, w in zip(tests, want):
        cmd = "\n".join(lines[i][2:] for i in w["cmd"])
        if got["shell_expression"] != cmd:
            return ("parse:shell-expression", "document %r: shell expression %r, written %r" % (lines, got["shell_expression"], cmd))
        if got["line_number"] != w["line"]:
            return ("parse:line-number", "document %r: line number %d, the `$` line is line %d" % (lines, got["line_number"], w["line"]))
        if got["exit_code"] != w["exit"] and not any(seq[x] in EXIT_CODES for x in w["pre"]):
            return ("parse:exit-code", "document %r: exit code %r, written %r" % (lines, got["exit_code"], w["exit"]))
        extra = len(got["expectations"]) - len(w["exps"])
        if extra < 0 or extra > len(w["pre"]) or got["expectations"][extra:] != [lines[i] for i in w["exps"]]:
            return ("parse:expectations", "document %r: expectations %r, written after the command %r (%d line(s) before it)"
                    % (lines, got["expectations"], [lines[i] for i in w["exps"]], len(w["pre"])))
        opener = max(i for i in range(w["cmd"][0]) if seq[i] in FENCES)
        want_crlf = seq[opener] in ("J", "Q")
        if "keep_crlf" in got and bool(got["keep_crlf"]) != want_crlf:
            return ("parse:inline-configuration", "document %r: the block opened by %r is parsed with keep_crlf=%r" % (lines, lines[opener], got["keep_crlf"]))
        if w["title"] != "skip":
            t = "" if w["title"] is None else (lines[w["title"]][2:] if seq[w["title"]] == "H" else lines[w["title"]])
            if got["title"] != t:
                return ("parse:title", "document %r: title %r, nearest preceding heading/paragraph %r" % (lines, got["title"], t))
    return None


def h_md_parse(max_len):
    seqs = md_sequences(max_len)
    # longer documents over the templates that drive titles and block structure
    seen = set(seqs)
    for s_ in md_sequences(max_len + 2, "PBFCE"):
        if s_ not in seen:
            seqs.append(s_)
            seen.add(s_)
    # nested fences: a four-backtick scrut block with three-backtick / indented backtick lines as content
    for s_ in md_sequences(max_len, "LKIEVCX", need="L"):
        if s_ not in seen:
            seqs.append(s_)
            seen.add(s_)
    for s_ in md_front_matter_sequences(max_len - 1):
        if s_ not in seen:
            seqs.append(s_)
            seen.add(s_)
    # titles that open with a non-ASCII letter
    for s_ in md_sequences(max_len, "UPBFC"):
        if s_ not in seen and "U" in s_:
            seqs.append(s_)
            seen.add(s_)
    # inline configuration after the fence language (with and without a trailing blank)
    for need in "JQ":
        for s_ in md_sequences(max_len, need + "CXPE", need=need):
            if s_ not in seen:
                seqs.append(s_)
                seen.add(s_)
    # commands with an empty continuation line / a continuation line ending in a blank
    for s_ in md_sequences(min(max_len, 4), "FCcgwX"):
        if s_ not in seen and any(x in s_ for x in "cgw"):
            seqs.append(s_)
            seen.add(s_)
    # blocks of a second configured language
    for s_ in md_sequences(min(max_len, 4), "FfCXE", need="f"):
        if s_ not in seen:
            seqs.append(s_)
            seen.add(s_)
    # a bracketed number beyond i32 is a line like any other; the exit code 0 written out
    for s_ in md_sequences(min(max_len, 4), "FCXRnr", need="F"):
        if s_ not in seen and ("n" in s_ or "r" in s_):
            seqs.append(s_)
            seen.add(s_)
    inputs = [("doc=%s" % (s or "(empty)"), mk_md_setup(s)) for s in seqs]
    # the same parse for CR LF line endings and for a document cut off after its last line (no final newline)
    for s_ in md_sequences(max_len - 1, "PBFCGXE"):
        if s_:
            inputs.append(("doc=%s (CR LF line endings)" % s_, mk_md_setup(s_, eol="\r\n")))
            if s_[-1] != "B":      # (an empty last line without newline is no line at all)
                inputs.append(("doc=%s (no final newline)" % s_, mk_md_setup(s_, final_eol=False)))
    h = e2.Harness("markdown_parse_documents", md_parse_driver, inputs, md_post, native="markdown_parse", judge=None,
                   describe="parse is Err, or yields exactly the scrut blocks that contain a `$` command, in order, with the written shell "
                            "expression (incl. `>` continuations), expectation lines, exit code, 1-based line number of the `$` line and the "
                            "nearest preceding heading/paragraph as title (where that is unambiguous)",
                   bound="all documents of <= %d lines over the line templates %s, and of <= %d lines over the templates P B F C E, with symbolic "
                         "lowercase payload letters; languages 's' and 'sx'; documents of <= %d lines over P B F C G X E also with CR LF line endings and without final newline"
                         % (max_len, {k: v[0] + "·" * v[1] + (v[2] if len(v) > 2 else "") for k, v in MD_TEMPLATES.items()}, max_len + 2, max_len - 1))
    h.models_cls = DocModels
    return h


def replay_md(rep, nat, h, res):
    for model, r in res.raw_witnesses[:8]:
        seq = r.ctx.notes["seq"]
        payloads = ["".join(chr(e2.model_int(model, c)) for c in p) for p in r.ctx.notes["payloads"]]
        lines = [md_text(t, p) for t, p in zip(seq, payloads)]
        eol, final_eol = r.ctx.notes.get("eol", ("\n", True))
        doc = eol.join(lines) + (eol if lines and final_eol else "")
        nk, nv = nat.call("markdown_parse", [doc, LANGUAGES])
        if nk != "return":
            rep.violation("parse:panic", "MarkdownParser::parse panics on %r: %s" % (doc, str(nv)[:80]),
                          {"kind": "eval", "fn": "markdown_parse", "args": [doc, LANGUAGES], "native": [nk, nv], "harness": h.name})
            continue
        bad = md_judge_native((seq, lines), nv)
        if bad:
            rep.violation(bad[0], bad[1], {"kind": "eval", "fn": "markdown_parse", "args": [doc, LANGUAGES], "native": [nk, nv], "harness": h.name})
        else:
            rep.mismatches.append("%s: solver witness %r did not reproduce natively: %s" % (h.name, doc, str(nv)[:200]))


# =====================================================================================================
# Cram documents (C07)

CRAM_TEMPLATES = {
    "T": ("t", 1),        # unindented title line
    "B": ("", 0),         # blank
    "K": ("#", 1),        # unindented comment
    "C": ("  $ ", 1),     # command
    "G": ("  > ", 1),     # continuation
    "X": ("  ", 2),       # expectation: two letters
    "S": ("   ", 1),      # expectation with a leading blank (three spaces + letter)
    "W": ("  ", 1, " "),  # expectation with trailing blank
    "R": ("  [7]", 0),    # exit code
    # lines whose leading whitespace is not the two-space indentation: unindented text, never body (and never a crash)
    "A": ("\t\t$ ", 1),   # two tabs, then what looks like a command
    "Z": (" \t", 1),      # a blank and a tab
    "O": ("\u3000", 1),   # a wide (three-byte) space
    "N": (" \u00a0", 1),  # a blank and a two-byte no-break space
    # whitespace-only lines
    "e": ("  ", 0),       # the indentation alone: an expectation for an empty output line
    "f": ("    ", 0),     # the indentation and two blanks: an expectation of two blanks
    "s": (" ", 0),        # one blank: unindented text
    "n": ("  [99999999999]", 0),   # a bracketed number that is no exit code (beyond i32): an expectation
    "t": ("t", 1, " \t"),  # a title line that ends in a blank and a tab
    "l": (" t", 1),        # a title line that starts with one blank (less than the indentation)
}
ODD_TITLES = "AZONs"
SPACED_TITLES = "tl"      # titles with surrounding whitespace: the title is the line exactly as written


def cram_line(ctx, t, i):
    spec = CRAM_TEMPLATES[t]
    prefix, n = spec[0], spec[1]
    suffix = spec[2] if len(spec) > 2 else ""
    payload = []
    for j in range(n):
        ch = ctx.sym_char("y%d_%d" % (i, j), 1)
        ctx.add(z3.And(ch.z() >= ord("a"), ch.z() <= ord("z")))
        payload.append(ch)
    return [SInt(ord(c), "char") for c in prefix] + payload + [SInt(ord(c), "char") for c in suffix], payload


def cram_reference(seq):
    """expected parse of a Cram template sequence per the statement of C07 ('error' = must not be accepted silently… the
    statement allows an error for every document, so only Ok results are constrained)"""
    tests = []
    cur = None
    title = None
    title_fresh = False
    in_command = False
    orphan = False
    for i, t in enumerate(seq):
        if t == "K":
            continue
        if t == "B":
            if cur is not None:
                tests.append(cur)
                cur = None
            elif orphan:
                return "error"
            in_command = False
            continue
        if t == "T" or t in ODD_TITLES or t in SPACED_TITLES:
            if cur is not None:
                tests.append(cur)
                cur = None
            elif orphan:
                return "error"
            title, title_fresh = (i, True) if (t == "T" or t in SPACED_TITLES) else ("odd", True)     # how an oddly indented line reads as a title is left open
            in_command = False
            continue
        if t == "C":
            if cur is not None:
                tests.append(cur)
            elif orphan:
                return "error"
            cur = {"cmd": [i], "exps": [], "exit": None, "line": i + 1,
                   "title": ("skip" if title == "odd" else title) if title_fresh else ("skip" if title is not None else None)}
            title_fresh = False
            in_command = True
            continue
        # body lines
        if cur is None:
            orphan = True          # output without a command: an error
            continue
        if t == "G" and in_command:
            cur["cmd"].append(i)
            continue
        in_command = False
        if t == "R":
            if cur["exit"] is not None:
                return "error"
            cur["exit"] = 7
        else:
            cur["exps"].append(i)
    if cur is not None:
        tests.append(cur)
    elif orphan:
        return "error"
    return tests


def cram_parse_driver(ctx, args):
    """<CramParser as Parser>::parse on a template document"""
    prog = ctx.program
    parse = find_method(prog, "parsers/cram.rs", "parse")
    from props.c08 import get_maker
    maker = get_maker(ctx)
    parser = mk_struct("CramParser", expectation_maker=maker, indention=mk_int(2, "usize"))
    return ctx.call(parse, [new_ref(parser), args[0]])


def mk_cram_setup(seq):
    def setup(ctx):
        text, lines, payloads = [], [], []
        for i, t in enumerate(seq):
            chars, payload = cram_line(ctx, t, i)
            lines.append(chars)
            payloads.append(payload)
            text += chars + [SInt(10, "char")]
        ctx.notes.update(seq=seq, lines=lines, payloads=payloads)
        return [Str(text)]
    return setup


def cram_post(ctx, args, kind, value):
    if kind != "return":
        return False
    seq, lines = ctx.notes["seq"], ctx.notes["lines"]
    if value.variant == "Err":
        return True
    want = cram_reference(seq)
    if want == "error":
        return False
    tests = as_items(value.fields[0].fields[1])
    if len(tests) != len(want):
        return False
    conds = []
    for got, w in zip(tests, want):
        cmd = []
        for k, idx in enumerate(w["cmd"]):
            if k:
                cmd.append(SInt(10, "char"))
            cmd += lines[idx][4:]
        conds.append(same(list(as_str(field_of(got, "shell_expression")).chars), cmd))
        ln = field_of(got, "line_number")
        conds.append(ln.concrete and ln.v == w["line"])
        ec = field_of(got, "exit_code")
        conds.append(ec.variant == "None" if w["exit"] is None else (ec.variant == "Some" and ec.fields[0].concrete and ec.fields[0].v == 7))
        exps = as_items(field_of(got, "expectations"))
        if len(exps) != len(w["exps"]):
            return False
        for e, idx in zip(exps, w["exps"]):
            conds.append(same(list(as_str(e.fields[3]).chars), lines[idx][2:]))     # indentation removed, the rest verbatim
        if w["title"] != "skip":
            t = list(as_str(field_of(got, "title")).chars)
            conds.append(same(t, lines[w["title"]]) if w["title"] is not None else len(t) == 0)
        cfg = field_of(got, "config")
        os_ = field_of(cfg, "output_stream")
        conds.append(os_.variant == "Some" and os_.fields[0].variant == "Combined")
        kc = field_of(cfg, "keep_crlf")
        conds.append(kc.variant == "Some" and kc.fields[0].concrete and kc.fields[0].v is True)
    return z_and(conds)


def cram_sequences(max_len, alphabet="TBKCGXSWR"):
    out = []
    for n in range(0, max_len + 1):
        for seq in itertools.product(alphabet, repeat=n):
            s = "".join(seq)
            if "C" not in s and n > 2:
                continue
            out.append(s)
    return out


def cram_judge_native(seq, lines, nv):
    want = cram_reference(seq)
    if "Err" in nv:
        return None
    tests = nv["Ok"]
    if want == "error":
        return ("cram:output-without-command-accepted", "cram document %r is accepted although output lines precede any command: %s" % (lines, tests))
    if len(tests) != len(want):
        return ("cram:test-count", "cram document %r yields %d test(s), it has %d `$` commands" % (lines, len(tests), len(want)))
    for got, w in zip(tests, want):
        cmd = "\n".join(lines[i][4:] for i in w["cmd"])
        if got["shell_expression"] != cmd:
            return ("cram:shell-expression", "cram document %r: shell expression %r, written %r" % (lines, got["shell_expression"], cmd))
        if got["line_number"] != w["line"]:
            return ("cram:line-number", "cram document %r: line number %d, the `$` line is line %d" % (lines, got["line_number"], w["line"]))
        if got["exit_code"] != w["exit"]:
            return ("cram:exit-code", "cram document %r: exit code %r, written %r" % (lines, got["exit_code"], w["exit"]))
        if got["expectations"] != [lines[i][2:] for i in w["exps"]]:
            return ("cram:expectations", "cram document %r: expectations %r, written %r" % (lines, got["expectations"], [lines[i][2:] for i in w["exps"]]))
        if w["title"] != "skip":
            t = "" if w["title"] is None else lines[w["title"]]
            if got["title"] != t:
                return ("cram:title", "cram document %r: title %r, nearest preceding title line %r" % (lines, got["title"], t))
        if got.get("output_stream") != "Combined" or got.get("keep_crlf") is not True:
            return ("cram:defaults", "cram document %r: test config %s/%s instead of the Cram defaults" % (lines, got.get("output_stream"), got.get("keep_crlf")))
    return None


def h_cram_parse(max_len, orphan=False):
    """orphan=False: documents in which every body line follows a command; orphan=True: the others (output before any command)"""
    seqs = [s for s in cram_sequences(max_len) if (cram_reference(s) == "error") == orphan]
    if not orphan:
        seen = set(seqs)
        for s_ in cram_sequences(min(max_len, 4), "TCX" + ODD_TITLES):
            if s_ not in seen and any(c in s_ for c in ODD_TITLES) and cram_reference(s_) != "error":
                seqs.append(s_)
                seen.add(s_)
        # whitespace-only lines: expectations when indented, unindented text otherwise
        for s_ in cram_sequences(min(max_len, 4), "TBCXefs"):
            if s_ not in seen and any(c in s_ for c in "efs") and cram_reference(s_) != "error":
                seqs.append(s_)
                seen.add(s_)
        for s_ in cram_sequences(min(max_len, 4), "TtlCXB"):
            if s_ not in seen and any(c in s_ for c in SPACED_TITLES) and cram_reference(s_) != "error":
                seqs.append(s_)
                seen.add(s_)
        for s_ in cram_sequences(min(max_len, 4), "TCXRn"):
            if s_ not in seen and "n" in s_ and cram_reference(s_) != "error":
                seqs.append(s_)
                seen.add(s_)
    inputs = [("doc=%s" % (s or "(empty)"), mk_cram_setup(s)) for s in seqs]
    if orphan:
        h = e2.Harness("cram_output_before_command", cram_parse_driver, inputs, cram_post, native="cram_parse", judge=None,
                       describe="a document whose indented output lines precede any `$` command is rejected (they must not become another test's expectations / exit code)",
                       bound="all such documents of <= %d lines over the Cram line templates" % max_len)
        h.models_cls = DocModels
        return h
    h = e2.Harness("cram_parse_documents", cram_parse_driver, inputs, cram_post, native="cram_parse", judge=None,
                   describe="parse is Err, or yields one test per indented `$` command, in order, with the written shell expression (incl. `>` "
                            "continuations), expectation lines (indentation removed, other whitespace kept), exit code, line number, nearest "
                            "preceding title line (where unambiguous) and the Cram defaults; comments and unindented text never become body",
                   bound="all documents of <= %d lines over the line templates %s with symbolic lowercase payload letters"
                         % (max_len, {k: repr(v[0] + "·" * v[1] + (v[2] if len(v) > 2 else "")) for k, v in CRAM_TEMPLATES.items()}))
    h.models_cls = DocModels
    return h


def replay_cram(rep, nat, h, res):
    for model, r in res.raw_witnesses[:8]:
        seq = r.ctx.notes["seq"]
        lines = ["".join(chr(e2.model_int(model, c)) for c in ln) for ln in r.ctx.notes["lines"]]
        doc = "\n".join(lines) + ("\n" if lines else "")
        nk, nv = nat.call("cram_parse", [doc])
        if nk != "return":
            rep.violation("cram:panic", "CramParser::parse panics on %r: %s" % (doc, str(nv)[:80]),
                          {"kind": "eval", "fn": "cram_parse", "args": [doc], "native": [nk, nv], "harness": h.name})
            continue
        bad = cram_judge_native(seq, lines, nv)
        if bad:
            rep.violation(bad[0], bad[1], {"kind": "eval", "fn": "cram_parse", "args": [doc], "native": [nk, nv], "harness": h.name})
        else:
            rep.mismatches.append("%s: solver witness %r did not reproduce natively: %s" % (h.name, doc, str(nv)[:200]))


# =====================================================================================================
# `update` on Markdown documents whose tests all pass (C10)


def md_blocks(seq):
    """block structure of a template sequence → list of ('line', i) | ('verbatim', [idx]) | ('test', open, [comments], [code], close|None);
    front-matter lines are plain lines here (they are kept byte for byte)"""
    out = []
    k = front_matter_len(seq)
    if k < 0:
        return [("line", i) for i in range(len(seq))]
    out = [("line", i) for i in range(k)]
    i, n = k, len(seq)
    while i < n:
        t = seq[i]
        if t in FENCES:
            j = i + 1
            while j < n and not closes(t, seq[j]):
                j += 1
            body = list(range(i + 1, j))
            close = j if j < n else None
            if t in SCRUT_FENCES:
                k = 0
                while k < len(body) and seq[body[k]] == "H":
                    k += 1
                out.append(("test", i, body[:k], body[k:], close))
            else:
                out.append(("verbatim", list(range(i, (j + 1) if j < n else n))))
            i = j + 1 if j < n else n
        else:
            out.append(("line", i))
            i += 1
    return out


NEW_OUTPUT = "zz"      # what a failing test prints instead (one line); templates never produce this text as an expectation


NEW_CODE = 3           # the exit code of a test whose exit code changed (no template writes it)


def md_update_expected(seq, moved=False, fails=(), code_fails=()):
    """what `update` with all-passing outcomes must produce, as a list of items ('orig', line idx) | ('text', str), or None where the
    statement leaves it open (exit-code line not last, blocks without a command, bare fences …).
    moved=True: the variant in which lines written before a block's command come out after it (a recorded finding)"""
    ref = md_reference(seq)
    if not isinstance(ref, list):
        return None
    if front_matter_len(seq) < 0:
        return None              # an unterminated front-matter: whether `update` closes it is left open
    items = []
    tests = iter(ref)
    test_no = -1
    for b in md_blocks(seq):
        if b[0] == "line":
            items.append(("orig", b[1]))
        elif b[0] == "verbatim":
            if seq[b[1][0]] == "E":
                return None
            items += [("orig", x) for x in b[1]]
        else:
            _k, open_i, comments, code, close = b
            if not any(seq[x] in COMMANDS for x in code):
                return None          # a scrut block without command: no test case, nothing prescribed here
            t = next(tests)
            test_no += 1
            rs = [x for x in code if seq[x] in EXIT_CODES]
            if rs and rs[-1] != code[-1]:
                return None          # exit-code line is re-emitted last: only prescribed when it was written last
            # the fences of a rewritten block may change their length (the statement keeps language / configuration / comments): any
            # k >= 3 backticks longer than every backtick run that starts a line of the body, the same k for opener and closer
            min_k = max([3] + [FENCES[seq[x]] + 1 for x in comments + code if seq[x] in FENCES])
            if test_no in fails or test_no in code_fails:
                # a failing test: fence (language / configuration), comments and command stay, the expectations become the new output,
                # the written exit code stays (the new run ended with it) — or, when the exit code changed, becomes the new one
                if t["pre"]:
                    return None
                items.append(("open", open_i, 3))
                items += [("orig", x) for x in comments] + [("orig", x) for x in t["cmd"]] + [("text", NEW_OUTPUT)]
                items += [("text", "[%d]" % NEW_CODE)] if test_no in code_fails else [("orig", x) for x in rs]
                items.append(("close", 3))
                continue
            items.append(("open", open_i, min_k))
            items += [("orig", x) for x in comments]
            if moved and t["pre"]:
                items += [("orig", x) for x in t["cmd"]] + [("orig", x) for x in t["pre"]] + [("orig", x) for x in code if x not in t["cmd"] and x not in t["pre"]]
            else:
                items += [("orig", x) for x in code]
            items.append(("close", min_k))
    return items


def update_matches_concrete(seq, lines, exp, updated):
    """concrete twin of the comparison in md_update_post"""
    if updated is None or not updated.endswith("\n") and exp:
        return False
    out = updated.split("\n")[:-1] if updated else []
    if len(out) != len(exp):
        return False
    k_open = None
    for got, item in zip(out, exp):
        if item[0] == "orig":
            if got != lines[item[1]]:
                return False
        elif item[0] == "open":
            info = lines[item[1]][FENCES[seq[item[1]]]:]
            k_open = len(got) - len(got.lstrip("`"))
            if k_open < item[2] or got[k_open:] != info:
                return False
        elif item[0] == "close":
            if got != "`" * (k_open or 0) or (k_open or 0) < item[1]:
                return False
        elif got != item[1]:
            return False
    return True


def md_update_driver(ctx, args):
    """parse(document) → one passing Outcome per test → MarkdownUpdateGenerator::generate_update(document, outcomes)"""
    prog = ctx.program
    r = md_parse_driver(ctx, args)
    if r.variant != "Ok":
        return Agg("tuple", None, [SBool(False)])
    tests = as_items(r.fields[0].fields[1])
    outcomes = []
    fails = []
    code_fails = []
    for i, t in enumerate(tests):
        ec = field_of(t, "exit_code")
        code = ec.fields[0] if ec.variant == "Some" else mk_int(0, "i32")
        failing = ctx.notes.get("with_failures") and ctx.decide(ctx.sym_bool("fails%d" % i).z())
        code_changed = failing and ctx.decide(ctx.sym_bool("code_changed%d" % i).z())
        if code_changed:
            # the command now prints one other line and ends with another exit code: the test fails on its exit code
            code_fails.append(i)
            new_out = [SInt(b, "u8") for b in (NEW_OUTPUT + "\n").encode()]
            out = mk_struct("Output", stderr=Agg("OutputStream", None, [VecBuf([], "u8")]), stdout=Agg("OutputStream", None, [VecBuf(new_out, "u8")]),
                            exit_code=Agg("ExitStatus", "Code", [mk_int(NEW_CODE, "i32")]))
            result = Agg("Result", "Err", [Agg("TestCaseError", "InvalidExitCode", [mk_int(NEW_CODE, "i32"), code])])
        elif failing:
            # the command now prints one other line: no expectation matches, the line is unexpected
            fails.append(i)
            new_out = [SInt(b, "u8") for b in (NEW_OUTPUT + "\n").encode()]
            dl = [Agg("DiffLine", "UnmatchedExpectation", [mk_int(j, "usize"), e]) for j, e in enumerate(as_items(field_of(t, "expectations")))]
            dl.append(Agg("DiffLine", "UnexpectedLines", [VecBuf([Agg("tuple", None, [mk_int(0, "usize"), VecBuf(list(new_out), "u8")])])]))
            diff = mk_struct("Diff", lines=VecBuf(dl), count_matched=mk_int(0, "usize"), count_unmatched=mk_int(len(dl) - 1, "usize"), count_output_lines=mk_int(1, "usize"))
            out = mk_struct("Output", stderr=Agg("OutputStream", None, [VecBuf([], "u8")]), stdout=Agg("OutputStream", None, [VecBuf(new_out, "u8")]),
                            exit_code=Agg("ExitStatus", "Code", [code]))
            result = Agg("Result", "Err", [Agg("TestCaseError", "MalformedOutput", [diff])])
        else:
            out = mk_struct("Output", stderr=Agg("OutputStream", None, [VecBuf([], "u8")]), stdout=Agg("OutputStream", None, [VecBuf([], "u8")]),
                            exit_code=Agg("ExitStatus", "Code", [code]))
            result = Agg("Result", "Ok", [UNIT])
        outcomes.append(new_ref(mk_struct("Outcome", location=none(), output=out, testcase=t, format=Opaque("format"),
                                          escaping=Agg("Escaper", "Unicode", []), result=result)))
    ctx.notes["fails"] = fails
    ctx.notes["code_fails"] = code_fails
    gen = Agg("MarkdownUpdateGenerator", None, [VecBuf([StringBuf([SInt(ord(c), "char") for c in l_]) for l_ in LANGUAGES])])
    f = find_method(prog, "generators/markdown.rs", "generate_update")
    u = ctx.call(f, [new_ref(gen), args[0], Slice(outcomes)])
    if u.variant != "Ok":
        return Agg("tuple", None, [SBool(True), SBool(False), Str([])])
    updated = Str(list(as_str(u.fields[0]).chars))
    # "the updated document parses to the same commands as the original": parse it again with the real parser
    r2 = md_parse_driver(ctx, [updated])
    ctx.notes["reparse"] = (tests, r2)
    return Agg("tuple", None, [SBool(True), SBool(True), updated, mk_int(len(tests), "usize")])


def md_update_post(ctx, args, kind, value):
    if kind != "return":
        return False             # a panic (e.g. indexing the outcomes) is a crash of `update`
    seq, lines = ctx.notes["seq"], ctx.notes["lines"]
    f = value.fields
    if not f[0].v:
        return True              # the document does not parse: nothing to update
    fails = ctx.notes.get("fails", [])
    code_fails = ctx.notes.get("code_fails", [])
    exp = md_update_expected(seq, fails=fails, code_fails=code_fails)
    if exp is None:
        return True
    if f[3].v == 0:
        # no outcomes: the document is returned untouched
        exp = [("orig", i) for i in range(len(seq))]
    if not f[1].v:
        return False
    tests, r2 = ctx.notes["reparse"]
    if r2.variant != "Ok":
        return False             # the updated document no longer parses
    tests2 = as_items(r2.fields[0].fields[1])
    if len(tests2) != len(tests):
        return False
    again = []
    for ti, (t1, t2) in enumerate(zip(tests, tests2)):
        again.append(same(list(as_str(field_of(t1, "shell_expression")).chars), list(as_str(field_of(t2, "shell_expression")).chars)))
        e1, e2_ = as_items(field_of(t1, "expectations")), as_items(field_of(t2, "expectations"))
        if ti in fails or ti in code_fails:
            # the rewritten test expects exactly the new output (and, when it changed, the new exit code)
            if len(e2_) != 1:
                return False
            again.append(same(list(as_str(e2_[0].fields[3]).chars), [SInt(ord(c), "char") for c in NEW_OUTPUT]))
            if ti in code_fails:
                c2 = field_of(t2, "exit_code")
                if not (c2.variant == "Some" and c2.fields[0].concrete and c2.fields[0].v == NEW_CODE):
                    return False
            continue
        if len(e1) != len(e2_):
            return False
        for a, b in zip(e1, e2_):
            again.append(same(list(as_str(a.fields[3]).chars), list(as_str(b.fields[3]).chars)))
    if z_and(again) is False:
        return False
    # line-wise comparison (newlines of the templates are concrete, payload letters are never newlines)
    out, cur = [], []
    for ch in f[2].chars:
        if ch.concrete and ch.v == 10:
            out.append(cur)
            cur = []
        else:
            cur.append(ch)
    if cur or len(out) != len(exp):
        return False
    conds = []
    k_open = 0
    for got, item in zip(out, exp):
        if item[0] == "orig":
            conds.append(same(got, lines[item[1]]))
        elif item[0] == "open":
            info = lines[item[1]][FENCES[seq[item[1]]]:]
            k_open = 0
            while k_open < len(got) and got[k_open].concrete and got[k_open].v == ord("`"):
                k_open += 1
            if k_open < item[2]:
                return False
            conds.append(same(got[k_open:], info))
        elif item[0] == "close":
            if k_open < item[1] or not all(c.concrete and c.v == ord("`") for c in got) or len(got) != k_open:
                return False
        else:
            conds.append(same(got, [SInt(ord(c), "char") for c in item[1]]))
    return z_and(conds + again)


def h_md_update(max_len):
    seqs = md_sequences(max_len, "PHBFVCGXR")
    seen = set(seqs)
    for s_ in md_sequences(max_len + 2, "PBFCE"):
        if s_ not in seen and "E" in s_:
            seqs.append(s_)
            seen.add(s_)
    # longer fences with backtick runs as content: L····, K, I, and three-backtick lines inside
    for s_ in md_sequences(max_len, "LKIEVCX", need="L"):
        if s_ not in seen:
            seqs.append(s_)
            seen.add(s_)
    for s_ in md_front_matter_sequences(max_len - 1):
        if s_ not in seen:
            seqs.append(s_)
            seen.add(s_)
    # commands with an empty continuation line / a continuation line ending in a blank
    for s_ in md_sequences(min(max_len, 4), "FCcgwX"):
        if s_ not in seen and any(x in s_ for x in "cgw"):
            seqs.append(s_)
            seen.add(s_)
    # blocks of a second configured language
    for s_ in md_sequences(min(max_len, 4), "FfCXE", need="f"):
        if s_ not in seen:
            seqs.append(s_)
            seen.add(s_)
    # the exit code 0 written out
    for s_ in md_sequences(min(max_len, 4), "FCXrE", need="r"):
        if s_ not in seen and "F" in s_:
            seqs.append(s_)
            seen.add(s_)
    inputs = [("doc=%s" % (s or "(empty)"), mk_md_setup(s)) for s in seqs]
    h = e2.Harness("markdown_update_passing_tests", md_update_driver, inputs, md_update_post, native="markdown_update", judge=None,
                   describe="updating a document whose tests all pass does not crash and returns it unchanged line for line (prose, other code "
                            "blocks, comments, commands, expectation lines, text after the last test); an unterminated scrut block gains its closing fence",
                   bound="all template documents of <= %d lines (and <= %d lines over P B F C E) that parse; symbolic lowercase payload letters"
                         % (max_len, max_len + 2))
    h.models_cls = DocModels
    return h


def h_md_update_failing(max_len):
    """the same documents with any subset of their tests failing (the command prints one other line)"""
    seqs = [s_ for s_ in md_sequences(max_len, "PHBFCGXR") if "C" in s_]
    seqs += [s_ for s_ in md_sequences(min(max_len, 4), "FCcgwX") if ("C" in s_ or "c" in s_) and any(x in s_ for x in "cgw")]
    seqs += [s_ for s_ in md_sequences(min(max_len, 4), "FfCXE", need="f") if "C" in s_ and s_ not in seqs]
    seqs += [s_ for s_ in md_sequences(min(max_len, 4), "FCXrE", need="r") if "C" in s_ and "F" in s_ and s_ not in seqs]

    def mk(s_):
        base = mk_md_setup(s_)

        def setup(ctx):
            ctx.notes["with_failures"] = True
            return base(ctx)
        return setup
    inputs = [("doc=%s" % s_, mk(s_)) for s_ in seqs]
    h = e2.Harness("markdown_update_failing_tests", md_update_driver, inputs, md_update_post, native="markdown_update", judge=None,
                   describe="updating a document in which any subset of the tests fails: everything outside the failing blocks is unchanged; a failing "
                            "block keeps its fence language, comments, command and exit code and gets the new output as expectations; the updated "
                            "document parses to the same commands",
                   bound="all template documents of <= %d lines over P H B F C G X R with a command; every subset of failing tests; new output = one line"
                         % max_len)
    h.models_cls = DocModels
    return h


def replay_update(rep, nat, h, res):
    for model, r in res.raw_witnesses[:8]:
        seq = r.ctx.notes["seq"]
        lines = ["".join(chr(e2.model_int(model, c)) for c in ln) for ln in r.ctx.notes["lines"]]
        doc = "\n".join(lines) + ("\n" if lines else "")
        fails = list(r.ctx.notes.get("fails", []))
        code_fails = list(r.ctx.notes.get("code_fails", []))
        nk, nv = nat.call("markdown_update", [doc, LANGUAGES, fails, code_fails])
        exp = md_update_expected(seq, fails=fails, code_fails=code_fails)
        if nk != "return":
            rep.violation("update:panic", "updating the document %r (all tests passing) panics: %s" % (doc, str(nv)[:100]),
                          {"kind": "eval", "fn": "markdown_update", "args": [doc, LANGUAGES], "native": [nk, nv], "harness": h.name})
            continue
        if "parse_error" in nv or exp is None:
            rep.mismatches.append("%s: solver witness %r did not reproduce natively: %s" % (h.name, doc, str(nv)[:200]))
            continue
        if nv.get("tests") == 0:
            exp = [("orig", i) for i in range(len(seq))]
        def render(e):
            k = [3]
            outl = []
            for it in e:
                if it[0] == "orig":
                    outl.append(lines[it[1]])
                elif it[0] == "open":
                    k[0] = it[2]
                    outl.append("`" * it[2] + lines[it[1]][FENCES[seq[it[1]]]:])
                elif it[0] == "close":
                    outl.append("`" * k[0])
                else:
                    outl.append(it[1])
            return "".join(x + "\n" for x in outl)
        want = render(exp)
        want_again = [dict(t_, expectations=[NEW_OUTPUT], exit_code=NEW_CODE) if i_ in code_fails else dict(t_, expectations=[NEW_OUTPUT]) if i_ in fails else t_
                      for i_, t_ in enumerate(nv.get("original") or [])]
        if "updated" in nv and nv.get("reparsed") != {"Ok": want_again}:
            rep.violation("update:updated-document-parses-differently",
                          "updating %r with all tests passing yields %r, which parses to %s instead of the original %s"
                          % (doc, nv["updated"], nv.get("reparsed"), nv.get("original")),
                          {"kind": "eval", "fn": "markdown_update", "args": [doc, LANGUAGES], "native": [nk, nv], "harness": h.name})
        elif not update_matches_concrete(seq, lines, exp, nv.get("updated")):
            trunc = nv.get("updated") is not None and len(nv["updated"]) < len(want)
            alt = md_update_expected(seq, moved=True, fails=fails, code_fails=code_fails)
            moved_ok = bool(alt) and nv.get("tests") != 0 and update_matches_concrete(seq, lines, alt, nv.get("updated"))
            rep.violation("update:%s" % ("truncated" if trunc else "lines-before-command-moved-after-it" if moved_ok else "changed-passing-document"),
                          "updating %r with all tests passing yields %r instead of %r" % (doc, nv.get("updated", nv), want),
                          {"kind": "eval", "fn": "markdown_update", "args": [doc, LANGUAGES], "native": [nk, nv], "harness": h.name})
        else:
            rep.mismatches.append("%s: solver witness %r did not reproduce natively" % (h.name, doc))
