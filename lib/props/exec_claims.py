"""C14 / C15 (+ the Unknown-padding clause of C05), decided on the MIR of `StatefulExecutor::execute_all`
executed as a whole with a symbolic clock, symbolic per-test / per-document timeouts, symbolic exit codes
and skip codes, and a scripted runner (props/execmodel.py).

C14  the timeout handed to the runner for test i is the smaller of {per-test timeout, time left of the document
     limit} (document limit absent → 900 s default, 0 → unlimited), and a runner status Timeout surfaces as
     Err(Timeout(Total | Index(i), outputs…)) with the timed-out output included; no Timeout error without one.
C15  execute_all returns Err(Skipped(i)) exactly for the first i whose status is Skipped or Code(c) with
     c == its effective skip code (test config, else document defaults, else 80) — nothing else skips.
C05  a status Unknown at i ends the run with Ok(outputs): n outputs, all from i+1 on Unknown (so, with the
     validate fix, none of them can pass)."""
import itertools

import z3

import e2
from common import Report, build_native
from mir_exec import Agg, SBool, SInt, Str, SymOpt, field_of, load_program, mk_int
from mir_models import as_str, deref, none, some, to_symopt, z_and, z_not, z_or
from props import execmodel as X

NAT = None
TERMINAL = ["Timeout", "Skipped", "Unknown", "RunnerError"]


def scripts(n):
    """status kinds per test: a prefix over {Code, Detached}, then optionally one terminal status"""
    out = []
    for k in range(0, n + 1):
        for pre in itertools.product(["Code", "Detached"], repeat=k):
            if k == n:
                out.append(list(pre))
            else:
                for t in TERMINAL:
                    out.append(list(pre) + [t] + ["Code"] * (n - k - 1))
    return out


def mk_setup(kinds):
    def setup(ctx):
        n = len(kinds)
        script = []
        for i, k in enumerate(kinds):
            if k == "Code":
                script.append(Agg("ExitStatus", "Code", [ctx.sym_int("code%d" % i, "i32")]))
            elif k == "Timeout":
                script.append(Agg("ExitStatus", "Timeout", [X.dur(5)]))
            elif k == "RunnerError":
                script.append("RunnerError")
            else:
                script.append(Agg("ExitStatus", k, []))
        ctx.notes["script"] = script
        ctx.notes["kinds"] = kinds
        tcs = [X.mk_testcase(ctx, i, X.sym_opt_dur(ctx, "t%d" % i), SymOpt(ctx.sym_bool("skip%d_set" % i), ctx.sym_int("skip%d" % i, "i32")))
               for i in range(n)]
        cx = X.mk_context(ctx, X.sym_opt_dur(ctx, "total"), SymOpt(ctx.sym_bool("dskip_set"), ctx.sym_int("dskip", "i32")))
        return [tcs, cx]
    return setup


def drive(ctx, args):
    """StatefulExecutor::execute_all(testcases, context) with stubbed clock / runner / temp dir"""
    return X.execute_all(ctx, args[0], args[1])


def zb(x):
    return z3.BoolVal(x) if isinstance(x, bool) else x


def effective_skip(tc, cx):
    own = to_symopt(field_of(field_of(tc, "config"), "skip_document_code"))
    dfl = to_symopt(field_of(field_of(field_of(cx, "config"), "defaults"), "skip_document_code"))
    return z3.If(own.present.z(), own.fields[0].z(), z3.If(dfl.present.z(), dfl.fields[0].z(), z3.BitVecVal(80, 32)))


def first_stop(ctx, args):
    """reference run of the script: → list of (index, condition, kind) of possible stopping points in order"""
    tcs, cx = args
    kinds = ctx.notes["kinds"]
    script = ctx.notes["script"]
    stops = []
    for i, k in enumerate(kinds):
        if k == "Code":
            stops.append((i, script[i].fields[0].z() == effective_skip(tcs[i], cx), "skip-by-code"))
        elif k == "Detached":
            continue
        else:
            stops.append((i, True, k))
            break
    return stops


def post_skip(ctx, args, kind, value):
    """C15"""
    if kind != "return":
        return False
    conds = []
    not_before = []
    is_skip_err = value.variant == "Err" and value.fields[0].variant == "Skipped"
    skip_idx = value.fields[0].fields[0].v if is_skip_err else None
    for i, cond, what in first_stop(ctx, args):
        skips_here = what in ("skip-by-code", "Skipped")
        here = z_and(not_before + [cond])       # execution stops at i for this reason
        if skips_here:
            # stopping here by skip ⇒ result is Skipped(i)
            conds.append(z3.Implies(zb(here), z3.BoolVal(is_skip_err and skip_idx == i)))
        else:
            conds.append(z3.Implies(zb(here), z3.BoolVal(not is_skip_err)))
        not_before.append(z_not(cond))
    # no stop at all ⇒ not skipped
    conds.append(z3.Implies(zb(z_and(not_before)), z3.BoolVal(not is_skip_err)))
    return z_and([z3.simplify(c) for c in conds])


def sat_sub(a, b):
    return z3.If(a >= b, a - b, z3.IntVal(0))


def umin(a, b):
    return z3.If(a <= b, a, b)


def timeout_bounds(ctx, args, i):
    """what the document limit allows for run i, independent of when the implementation reads the clock:
    the deadline lies in [doc_start + total, first_test_start + total]; the time left is measured between the end of
    the previous run and the start of this one.  → dict of z3 terms"""
    tcs, cx = args
    runs = ctx.notes["runs"]
    total = to_symopt(field_of(field_of(cx, "config"), "total_timeout"))
    total_ns = z3.If(total.present.z(), X.nanos(total.fields[0]).z(), z3.IntVal(X.DEFAULT_TOTAL_NS))
    has_global = total_ns != 0
    d0 = ctx.notes["doc_start"].z()
    at_lo, at_hi = d0 + total_ns, runs[0]["started"].z() + total_ns
    prev_end = runs[i - 1]["ended"].z() if i > 0 else d0
    rem_lo = sat_sub(at_lo, runs[i]["started"].z())
    rem_hi = sat_sub(at_hi, prev_end)
    per = to_symopt(field_of(field_of(tcs[i], "config"), "timeout"))
    per_set, per_ns = per.present.z(), X.nanos(per.fields[0]).z()
    lo = z3.If(per_set, z3.If(has_global, umin(per_ns, rem_lo), per_ns), rem_lo)
    hi = z3.If(per_set, z3.If(has_global, umin(per_ns, rem_hi), per_ns), rem_hi)
    return {"present": z3.Or(per_set, has_global), "lo": lo, "hi": hi, "total": total_ns, "has_global": has_global,
            "surely_global": z3.And(has_global, z3.Or(z3.Not(per_set), per_ns > rem_hi)),
            "surely_own": z3.And(per_set, z3.Or(z3.Not(has_global), per_ns < rem_lo))}


def post_timeout(ctx, args, kind, value):
    """C14"""
    if kind != "return":
        return False
    runs = ctx.notes.get("runs", [])
    kinds = ctx.notes["kinds"]
    conds = []
    for i, run in enumerate(runs):
        b = timeout_bounds(ctx, args, i)
        got = to_symopt(run["timeout"])
        conds.append(got.present.z() == b["present"])
        if got.fields[0] is not None:
            g = X.nanos(got.fields[0]).z()
            conds.append(z3.Implies(b["present"], z3.And(g >= b["lo"], g <= b["hi"])))
        else:
            conds.append(z3.Not(b["present"]))
    is_to = value.variant == "Err" and value.fields[0].variant == "Timeout"
    if "Timeout" in kinds and len(runs) == kinds.index("Timeout") + 1:
        k = kinds.index("Timeout")
        if not is_to:
            return False
        which, outputs = value.fields[0].fields
        outs = outputs.items
        if len(outs) != k + 1 or field_of(outs[k], "exit_code").variant != "Timeout":
            return False
        b = timeout_bounds(ctx, args, k)
        if which.variant == "Total":
            conds.append(z3.Not(b["surely_own"]))
            # the reported duration is the document's limit
            conds.append(X.nanos(field_of(outs[k], "exit_code").fields[0]).z() == b["total"])
        else:
            conds.append(z3.Not(b["surely_global"]))
            conds.append(which.fields[0].v == k)
    elif is_to:
        return False          # a Timeout error without a timed-out command
    return z_and([z3.simplify(zb(c)) for c in conds])


def post_unknown(ctx, args, kind, value):
    """C05 padding"""
    if kind != "return":
        return False
    kinds = ctx.notes["kinds"]
    runs = ctx.notes.get("runs", [])
    if "Unknown" not in kinds or len(runs) != kinds.index("Unknown") + 1:
        return True
    k = kinds.index("Unknown")
    if value.variant != "Ok":
        return False
    outs = value.fields[0].items
    if len(outs) != len(kinds):
        return False
    return all(field_of(o, "exit_code").variant == "Unknown" for o in outs[k:])


def post_env(ctx, args, kind, value):
    """C18: every test case handed to the runner carries SCRUT_TEST=<document path>:<its line number>, set afresh per test case"""
    if kind != "return":
        return False
    tcs = args[0]
    for i, run in enumerate(ctx.notes.get("runs", [])):
        want = "file.md:%d" % field_of(tcs[i], "line_number").v
        got = None
        for k, v in run["env"].entries:
            if "".join(chr(c.v) for c in as_str(k).chars) == "SCRUT_TEST":
                got = "".join(chr(c.v) for c in as_str(v).chars)
        if got != want:
            return False
    return True


POSTS = {"C14": post_timeout, "C15": post_skip, "C05": post_unknown, "C18": post_env}


def witness(model, r):
    tcs, cx = r.ctx.notes["args"]
    kinds = r.ctx.notes["kinds"]

    def b(x):
        return x.v if x.concrete else bool(z3.is_true(model.eval(x.z(), model_completion=True)))

    def i32(x):
        n = e2.model_int(model, x)
        return n - (1 << 32) if n >= 1 << 31 else n

    def odur(o):
        o = to_symopt(o)
        return str(e2.model_int(model, X.nanos(o.fields[0]))) if b(o.present) else None

    def oint(o):
        o = to_symopt(o)
        return i32(o.fields[0]) if b(o.present) else None
    script = []
    for i, k in enumerate(kinds):
        st = r.ctx.notes["script"][i]
        script.append({"status": k, "code": i32(st.fields[0]) if k == "Code" else None})
    return {"tests": [{"timeout": odur(field_of(field_of(t, "config"), "timeout")), "skip": oint(field_of(field_of(t, "config"), "skip_document_code")),
                       "expected": oint(field_of(t, "exit_code"))} for t in tcs],
            "script": script,
            "total_timeout": odur(field_of(field_of(cx, "config"), "total_timeout")),
            "default_skip": oint(field_of(field_of(field_of(cx, "config"), "defaults"), "skip_document_code")),
            "clock": [e2.model_int(model, c) for c in r.ctx.notes.get("clock", [])],
            "run_ns": [e2.model_int(model, ru["ended"]) - e2.model_int(model, ru["started"]) for ru in r.ctx.notes.get("runs", [])]}


def add_sleeps(w):
    """time the stub runner lets pass while 'running' test i (from the witness' clock), capped at 300 ms"""
    for i, s in enumerate(w["script"]):
        d = w["run_ns"][i] if i < len(w["run_ns"]) else 0
        s["sleep_ns"] = max(0, min(d, 300 * 10 ** 6))
    return w


def judge_native(pid, w, nv):
    """re-judge the native run of a witness (real clock: elapsed ≈ 0 between reads)"""
    res, runs = nv["result"], nv["runs"]
    kinds = [s["status"] for s in w["script"]]
    if pid == "C15":
        want = None
        for i, s in enumerate(w["script"]):
            skip = w["tests"][i]["skip"] if w["tests"][i]["skip"] is not None else (w["default_skip"] if w["default_skip"] is not None else 80)
            if s["status"] == "Skipped" or (s["status"] == "Code" and s["code"] == skip):
                want = i
                break
            if s["status"] not in ("Code", "Detached"):
                break
        got = res["Err"]["Skipped"] if isinstance(res.get("Err"), dict) and "Skipped" in res["Err"] else None
        if got != want:
            return ("skip:%s" % ("missed" if got is None else "spurious" if want is None else "wrong-index"),
                    "skip code: expected %s, executor returned %s for %s" % ("Skipped(%d)" % want if want is not None else "no skip", res, w))
        return None
    if pid == "C18":
        for i, run in enumerate(runs):
            if run.get("scrut_test") != "file.md:%d" % (i + 1):
                return ("env:SCRUT_TEST", "test case %d ran with SCRUT_TEST=%r, expected 'file.md:%d'" % (i, run.get("scrut_test"), i + 1))
        return None
    if pid == "C05":
        if "Unknown" in kinds:
            k = kinds.index("Unknown")
            outs = res.get("Ok")
            if outs is None or len(outs) != len(kinds) or any(o["exit"]["status"] != "Unknown" for o in outs[k:]):
                return ("unknown-padding", "status Unknown at test %d: executor returned %s" % (k, res))
        return None
    # C14
    total = int(w["total_timeout"]) if w["total_timeout"] is not None else X.DEFAULT_TOTAL_NS
    slack = 10 ** 9            # real clock: at most this much unaccounted time between the start and a test
    elapsed = 0
    expected_global = None
    for i, run in enumerate(runs):
        per = int(w["tests"][i]["timeout"]) if w["tests"][i]["timeout"] is not None else None
        got = int(run["timeout"]) if run["timeout"] is not None else None
        rem_hi = max(0, total - elapsed) if total else None          # remaining time of the document: upper bound
        rem_lo = max(0, total - elapsed - slack) if total else None   # lower bound
        hi = min(x for x in (per, rem_hi) if x is not None) if (per is not None or total) else None
        lo = min(x for x in (per, rem_lo) if x is not None) if (per is not None or total) else None
        if hi is None:
            if got is not None:
                return ("timeout:spurious", "no limit configured but the runner got %s ns" % got)
        elif got is None:
            return ("timeout:none-selected", "limits per-test=%s document=%s configured but the runner got no timeout (test %d)" % (per, total, i))
        elif got > hi:
            return ("timeout:selected=per-test>remaining" if (per is not None and got == per) else "timeout:selected>limit",
                    "test %d: per-test timeout %s ns, document limit %s ns with >= %s ns elapsed, but the runner was given %s ns"
                    % (i, per, total if total else None, elapsed, got))
        elif got < lo:
            return ("timeout:selected<limits", "test %d: per-test timeout %s ns, document limit %s ns (%s ns elapsed) but the runner was given only %s ns"
                    % (i, per, total if total else None, elapsed, got))
        if total and per is not None and per + slack < rem_lo + 0:
            expected_global = False
        elif total and (per is None or rem_hi < per):
            expected_global = True
        elif not total:
            expected_global = False
        else:
            expected_global = None
        elapsed += w["script"][i].get("sleep_ns", 0)
    if "Timeout" in kinds and len(runs) == kinds.index("Timeout") + 1:
        k = kinds.index("Timeout")
        e = res.get("Err")
        if not isinstance(e, dict) or "Timeout" not in e:
            return ("timeout:not-surfaced", "runner reported a timeout for test %d but execute_all returned %s" % (k, res))
        if len(e["outputs"]) != k + 1 or e["outputs"][k]["exit"]["status"] != "Timeout":
            return ("timeout:outputs", "timeout at test %d: outputs %s" % (k, e["outputs"]))
        is_total = e["Timeout"] == "Total"
        if expected_global is not None and is_total != expected_global:
            return ("timeout:wrong-kind", "test %d timed out on its %s limit but execute_all reported %s"
                    % (k, "document" if expected_global else "own", e["Timeout"]))
    elif isinstance(res.get("Err"), dict) and "Timeout" in res["Err"]:
        return ("timeout:spurious-error", "no command timed out but execute_all returned %s" % res)
    return None


# ---- C15 in the single-script (Cram / --cram-compat) executor --------------------------------------------------------------------

def h_script_skip(prog, n_max):
    """BashScriptExecutor::execute_all with the subprocess replaced by a scripted script run: the compiled script's stdout carries one
    divider line per finished test case with its exit code; a test case may also end the whole script (`exit c`)"""
    import itertools
    from mir_exec import MapBuf, Opaque, Slice, StringBuf, VecBuf, find_method, mk_struct, new_ref
    from mir_models import ok, as_str
    from props.c13 import divider

    class ScriptModels(X.ExecModels):
        def __init__(self):
            super().__init__(prog)
            import re as _re
            ins = lambda pat, fn: self.table.insert(0, (_re.compile("^(?:%s)$" % pat), fn))
            rnd = [n for n in prog.funcs if n == "random_string" or n.endswith("::random_string")]
            for n in rnd:
                self.overrides[n] = lambda ctx, fname, args: StringBuf([SInt(ord(c), "char") for c in "SALT"])
            runs = [n for n in prog.funcs if "subprocess_runner.rs" in n and n.endswith("::run")]
            for n in runs:
                self.overrides[n] = lambda ctx, fname, args: self._run(ctx, args)
            ins(r"anyhow::__private::format_err|anyhow::error::<impl anyhow::Error>::msg::<.*>|anyhow::Error::msg::<.*>", lambda c, m, a: Opaque("anyhow"))
            ins(r"shell_escape::unix::escape|shell_escape::escape", lambda c, m, a: a[0])

        @staticmethod
        def _run(ctx, args):
            codes, ends_at, final = ctx.notes["codes"], ctx.notes["ends_at"], ctx.notes["final"]
            ctx.notes["script_text"] = "".join(chr(c.v) if c.concrete else "?" for c in as_str(field_of(deref(args[2]), "shell_expression")).chars)
            out = b""
            for i, c in enumerate(codes):
                out += b"o%d\n" % i
                if ends_at is not None and i == ends_at:
                    break                      # `exit c` inside test case i: the script ends before its divider is printed
                out += divider(b"SALT", i, c)
            return ok(mk_struct("Output", stderr=Agg("OutputStream", None, [VecBuf([], "u8")]),
                                stdout=Agg("OutputStream", None, [VecBuf([SInt(b, "u8") for b in out], "u8")]),
                                exit_code=Agg("ExitStatus", "Code", [mk_int(final, "i32")])))

    def mk(codes, ends_at, t, d):
        def setup(ctx):
            ctx.notes.update(codes=codes, ends_at=ends_at, final=(codes[ends_at] if ends_at is not None else 0), t=t, d=d)
            opt = lambda v: none() if v is None else some(mk_int(v, "i32"))
            tcs = []
            for i in range(len(codes)):
                cfg = mk_struct("TestCaseConfig", detached=none(), environment=MapBuf([]), keep_crlf=some(SBool(True)),
                                output_stream=some(Agg("OutputStreamControl", "Combined", [])), skip_document_code=opt(t),
                                strip_ansi_escaping=none(), timeout=none(), wait=none())
                tcs.append(mk_struct("TestCase", title=StringBuf([]), shell_expression=StringBuf([SInt(ord(c), "char") for c in "cmd%d" % i]),
                                     expectations=VecBuf([]), exit_code=none(), line_number=mk_int(i + 1, "usize"), config=cfg))
            dflt = mk_struct("TestCaseConfig", detached=none(), environment=MapBuf([]), keep_crlf=none(), output_stream=none(),
                             skip_document_code=opt(d), strip_ansi_escaping=none(), timeout=none(), wait=none())
            doc = mk_struct("DocumentConfig", append=VecBuf([]), defaults=dflt, prepend=VecBuf([]), shell=none(), total_timeout=none())
            cx = mk_struct("Context", work_directory=Opaque("work"), temp_directory=Opaque("tmp"), file=Opaque("file"), config=doc)
            return [tcs, cx]
        return setup

    def drive(ctx, args):
        """<BashScriptExecutor as Executor>::execute_all with the script run replaced by its scripted output"""
        f = find_method(ctx.program, "bash_script_executor.rs", "execute_all")
        ex = Agg("BashScriptExecutor", None, [Opaque("shell")])
        return ctx.call(f, [new_ref(ex), Slice([new_ref(t_) for t_ in args[0]]), new_ref(args[1])])

    def post(ctx, args, kind, value):
        if kind != "return":
            return False
        codes, ends_at, t = ctx.notes["codes"], ctx.notes["ends_at"], ctx.notes["t"]
        eff = t if t is not None else 80          # the test cases' own code (the parser has already merged the document's defaults into it)
        ran = codes if ends_at is None else codes[:ends_at + 1]
        want_skip = any(c == eff for c in ran)
        is_skip = value.variant == "Err" and value.fields[0].variant == "Skipped"
        return is_skip == want_skip
    inputs = []
    for n in range(1, n_max + 1):
        for codes in itertools.product((0, 7, 80), repeat=n):
            for ends_at in [None] + list(range(n)):
                for t, d in ((None, None), (7, None), (7, 7), (7, 9), (9, 7), (80, 9)):
                    inputs.append(("codes=%s ends-at=%s skip-code test=%s document=%s" % (list(codes), ends_at, t, d), mk(list(codes), ends_at, t, d)))
    h = e2.Harness("script_executor_skip_code", drive, inputs, post, native=None, judge=None,
                   describe="single-script executor: Err(Skipped) ⇔ a test case that ran exits with the test cases' skip code (else 80) — also when the "
                            "document's defaults name another code, and when the test case ends the whole script",
                   bound="1..%d test cases, exit codes {0, 7, 80}, optionally one test case ending the script; skip code of the test cases ∈ {unset, 7, 9, 80} "
                         "× document default ∈ {unset, 7, 9} (unset test-case code only with unset default: the parser merges the defaults)" % n_max)
    h.models_cls = ScriptModels
    return h


def h_script_timeout(prog, n_max):
    """BashScriptExecutor::execute_all and the document's time limit: what limit the script's process gets, and how a timed-out script surfaces"""
    import itertools
    from mir_exec import MapBuf, Opaque, Slice, StringBuf, VecBuf, find_method, mk_struct, new_ref
    from mir_models import ok, as_str
    from props.c13 import divider
    base = h_script_skip(prog, 1)

    class TimeoutModels(base.models_cls):
        @staticmethod
        def _run(ctx, args):
            tc = deref(args[2])
            ctx.notes["handed"] = field_of(field_of(tc, "config"), "timeout")
            n = ctx.notes["n"]
            if ctx.notes["times_out"]:
                # the process was stopped after `done` test cases; whatever it wrote so far comes back with the Timeout status
                out = b"".join(b"o%d\n" % i + divider(b"SALT", i, 0) for i in range(ctx.notes["done"])) + b"partial\n"
                status = Agg("ExitStatus", "Timeout", [to_symopt(ctx.notes["handed"]).fields[0] or X.dur(mk_int(0, "nat"))])
            else:
                out = b"".join(b"o%d\n" % i + divider(b"SALT", i, 0) for i in range(n))
                status = Agg("ExitStatus", "Code", [mk_int(0, "i32")])
            return ok(mk_struct("Output", stderr=Agg("OutputStream", None, [VecBuf([], "u8")]),
                                stdout=Agg("OutputStream", None, [VecBuf([SInt(b, "u8") for b in out], "u8")]), exit_code=status))

        def __init__(self):
            super().__init__()
            runs = [n for n in prog.funcs if "subprocess_runner.rs" in n and n.endswith("::run")]
            for n in runs:
                self.overrides[n] = lambda ctx, fname, args: TimeoutModels._run(ctx, args)

    def mk(n, times_out, done):
        def setup(ctx):
            ctx.notes.update(n=n, times_out=times_out, done=done)
            total = X.sym_opt_dur(ctx, "total")
            ctx.notes["total"] = total
            tcs = []
            for i in range(n):
                cfg = mk_struct("TestCaseConfig", detached=none(), environment=MapBuf([]), keep_crlf=some(SBool(True)),
                                output_stream=some(Agg("OutputStreamControl", "Combined", [])), skip_document_code=none(),
                                strip_ansi_escaping=none(), timeout=none(), wait=none())
                tcs.append(mk_struct("TestCase", title=StringBuf([]), shell_expression=StringBuf([SInt(ord(c), "char") for c in "cmd%d" % i]),
                                     expectations=VecBuf([]), exit_code=none(), line_number=mk_int(i + 1, "usize"), config=cfg))
            dflt = mk_struct("TestCaseConfig", detached=none(), environment=MapBuf([]), keep_crlf=none(), output_stream=none(),
                             skip_document_code=none(), strip_ansi_escaping=none(), timeout=none(), wait=none())
            doc = mk_struct("DocumentConfig", append=VecBuf([]), defaults=dflt, prepend=VecBuf([]), shell=none(), total_timeout=total)
            cx = mk_struct("Context", work_directory=Opaque("work"), temp_directory=Opaque("tmp"), file=Opaque("file"), config=doc)
            return [tcs, cx]
        return setup

    def post(ctx, args, kind, value):
        if kind != "return":
            return False
        total = to_symopt(ctx.notes["total"])
        handed = ctx.notes.get("handed")
        if handed is None:
            return False                       # the script was never run
        h_ = to_symopt(handed)
        tz, tp = X.nanos(total.fields[0]).z(), total.present.z()
        want = z3.If(tp, tz, z3.IntVal(X.DEFAULT_TOTAL_NS))         # absent → the default limit
        hp = h_.present.z()
        conds = [hp == (want != 0)]                                 # 0 = unlimited: no limit is handed over
        if h_.fields[0] is not None:
            conds.append(z3.Implies(hp, X.nanos(h_.fields[0]).z() == want))
        is_timeout = value.variant == "Err" and value.fields[0].variant == "Timeout"
        if ctx.notes["times_out"]:
            if not is_timeout:
                return False
            e = value.fields[0]
            if e.fields[0].variant != "Total":
                return False                   # a script has no per-test limits: it is the document's limit that was hit
            # what is kept of the stopped script's output: its bytes without the divider lines — nothing added, nothing else removed
            outs = as_items_(e.fields[1])
            if len(outs) != 1:
                return False
            kept = [b.v if b.concrete else None for b in as_items_(field_of(outs[0], "stdout").fields[0])]
            want = list(b"".join(b"o%d\n" % i for i in range(ctx.notes["done"])) + b"partial\n")
            if kept != want and kept != want[:-1]:
                return False
        elif is_timeout or value.variant != "Ok" or len(as_items_(value.fields[0])) != ctx.notes["n"]:
            return False
        return z_and([z3.simplify(c_) for c_ in conds])
    from mir_models import as_items as as_items_
    inputs = []
    for n in range(1, n_max + 1):
        inputs.append(("%d test case(s), script finishes" % n, mk(n, False, n)))
        for done in range(0, n):
            inputs.append(("%d test case(s), script stopped by the limit after %d" % (n, done), mk(n, True, done)))
    h = e2.Harness("script_executor_total_timeout", base.func, inputs, post, native=None, judge=None,
                   describe="single-script executor: the script's process gets exactly the document's total_timeout as its limit (absent → 900 s, 0 → none); a "
                            "script stopped by it surfaces as Err(Timeout(Total)) with the script's output minus the divider lines, a script that finishes never as a time-out",
                   bound="1..%d test cases; any total_timeout (absent / 0 / any value); script finishing, or stopped after 0..n-1 test cases" % n_max)
    h.models_cls = TimeoutModels
    return h


def h_script_sections(prog):
    """BashScriptExecutor::execute_all hands every test case exactly the bytes of its section of what the script's process returned — the process
    runner has already applied the documented transformations; the executor applies none of its own"""
    from mir_exec import MapBuf, Opaque, Slice, StringBuf, VecBuf, find_method, mk_struct, new_ref
    from mir_models import ok, as_items
    from props.c13 import divider
    base = h_script_skip(prog, 1)
    SECTIONS = [b"a\r\n", b"\x1b[1mb\x1b[0m\r\r\n", b"c"]         # what the runner returned for the three test cases (CR LF, ANSI, no final newline)

    class SectionModels(base.models_cls):
        @staticmethod
        def _run(ctx, args):
            out = b""
            for i, sec in enumerate(SECTIONS[:ctx.notes["n"]]):
                out += sec + (b"" if sec.endswith(b"\n") else b"\n") + divider(b"SALT", i, 0)
            return ok(mk_struct("Output", stderr=Agg("OutputStream", None, [VecBuf([], "u8")]),
                                stdout=Agg("OutputStream", None, [VecBuf([SInt(b, "u8") for b in out], "u8")]), exit_code=Agg("ExitStatus", "Code", [mk_int(0, "i32")])))

        def __init__(self):
            super().__init__()
            for n in [n for n in prog.funcs if "subprocess_runner.rs" in n and n.endswith("::run")]:
                self.overrides[n] = lambda ctx, fname, args: SectionModels._run(ctx, args)

    def mk(n, keep, ansi):
        def setup(ctx):
            ctx.notes.update(n=n)
            ob = lambda v: none() if v is None else some(SBool(v))
            tcs = []
            for i in range(n):
                cfg = mk_struct("TestCaseConfig", detached=none(), environment=MapBuf([]), keep_crlf=ob(keep), output_stream=some(Agg("OutputStreamControl", "Combined", [])),
                                skip_document_code=none(), strip_ansi_escaping=ob(ansi), timeout=none(), wait=none())
                tcs.append(mk_struct("TestCase", title=StringBuf([]), shell_expression=StringBuf([SInt(ord(c), "char") for c in "cmd%d" % i]),
                                     expectations=VecBuf([]), exit_code=none(), line_number=mk_int(i + 1, "usize"), config=cfg))
            dflt = mk_struct("TestCaseConfig", detached=none(), environment=MapBuf([]), keep_crlf=none(), output_stream=none(), skip_document_code=none(),
                             strip_ansi_escaping=none(), timeout=none(), wait=none())
            doc = mk_struct("DocumentConfig", append=VecBuf([]), defaults=dflt, prepend=VecBuf([]), shell=none(), total_timeout=none())
            cx = mk_struct("Context", work_directory=Opaque("work"), temp_directory=Opaque("tmp"), file=Opaque("file"), config=doc)
            return [tcs, cx]
        return setup

    def post(ctx, args, kind, value):
        if kind != "return" or value.variant != "Ok":
            return False
        outs = as_items(value.fields[0])
        if len(outs) != ctx.notes["n"]:
            return False
        for o, sec in zip(outs, SECTIONS):
            got = [b.v if b.concrete else None for b in as_items(field_of(o, "stdout").fields[0])]
            want = list(sec + (b"" if sec.endswith(b"\n") else b"\n"))
            if got != want and got != list(sec):
                return False
        return True
    inputs = [("%d test case(s), keep_crlf=%s strip_ansi_escaping=%s" % (n, k, a_), mk(n, k, a_)) for n in (1, 2, 3) for k in (None, False, True) for a_ in (None, True)]
    h = e2.Harness("script_executor_sections_verbatim", base.func, inputs, post, native=None, judge=None,
                   describe="single-script executor: every test case gets exactly the bytes of its section of the script's (already rendered) output — CR, ANSI "
                            "sequences and all; the executor transforms nothing a second time",
                   bound="1..3 test cases with the sections %s; keep_crlf unset / false / true × strip_ansi_escaping unset / true" % [bytes(x) for x in SECTIONS])
    h.models_cls = SectionModels
    return h


def replay_script_timeout(rep, h, res):
    """end to end: the real single-script executor with a short / zero / long document limit on real sleeps"""
    for model, r in res.raw_witnesses[:2]:
        bad = None
        for limit_ms, cmds, want in ((300, ["echo a; echo b", "sleep 2"], "Timeout"), (0, ["echo a", "sleep 0.4"], "Ok"), (5000, ["echo a", "echo b"], "Ok")):
            nk, nv = NAT.call("script_skip", [{"commands": cmds, "skip": None, "default_skip": None, "total_timeout_ms": limit_ms}])
            got = "Timeout" if (nk == "return" and "Timeout" in str(nv.get("Err", ""))) else ("Ok" if nk == "return" and "Ok" in nv else str(nv)[:80])
            if got != want:
                bad = bad or ("commands %s with total_timeout %d ms end as %s, expected %s" % (cmds, limit_ms, got, want), [cmds, limit_ms], [nk, nv])
            elif got == "Timeout" and [bytes(x) for x in nv.get("kept_stdout", [])] != [b"a\nb\n"]:
                bad = bad or ("commands %s stopped by total_timeout %d ms: the output kept is %r, the script wrote b'a\\nb\\n' before it was stopped"
                              % (cmds, limit_ms, [bytes(x) for x in nv.get("kept_stdout", [])]), [cmds, limit_ms], [nk, nv])
        if bad:
            rep.violation("script-timeout", "the single-script executor: %s" % bad[0], {"kind": "eval", "fn": "script_skip", "args": bad[1], "native": bad[2], "harness": h.name})
        else:
            n = r.ctx.notes
            rep.violation("script-timeout:mir-only", "BashScriptExecutor::execute_all breaks the time-limit contract for %d test case(s), times-out=%s after %s "
                          "(decided on its MIR against a scripted process; the end-to-end probes with 300 ms / 0 / 5 s limits behave)" % (n["n"], n["times_out"], n["done"]),
                          {"kind": "mir-only", "harness": h.name})


def replay_script_skip(rep, h, res):
    """end to end: the real executor and bash on `( exit c )` / `exit c` commands"""
    for model, r in res.raw_witnesses[:4]:
        n = r.ctx.notes
        cmds = [("exit %d" % c if n["ends_at"] == i else "( exit %d )" % c) for i, c in enumerate(n["codes"])]
        w = {"commands": cmds, "skip": n["t"], "default_skip": n["d"]}
        nk, nv = NAT.call("script_skip", [w])
        eff = n["t"] if n["t"] is not None else 80
        ran = n["codes"] if n["ends_at"] is None else n["codes"][:n["ends_at"] + 1]
        want = any(c == eff for c in ran)
        got = nk == "return" and isinstance(nv, dict) and "Skipped" in str(nv.get("Err", ""))
        if nk == "return" and got != want:
            rep.violation("script-skip:%s" % ("missed" if want else "spurious"),
                          "single-script executor on %s with skip code %s (document default %s): %s, the statement prescribes %s"
                          % (cmds, n["t"], n["d"], nv, "a skipped document" if want else "no skip"),
                          {"kind": "eval", "fn": "script_skip", "args": [w], "native": [nk, nv], "harness": h.name})
        else:
            rep.mismatches.append("%s: solver witness %s did not reproduce natively: %s" % (h.name, w, nv))


# ---- the per-process runner: what it asks of the process and how it reports it -----------------------------------------------------

RUNNER_ENV = {"CDPATH": "", "FOO": "b", "GREP_OPTIONS": ""}


def h_subprocess_runner(prog):
    """SubprocessRunner::run with the `subprocess` crate replaced by a recording stub: time limit, standard input, stream redirection,
    and the status it reports when the read times out / succeeds"""
    import itertools
    from mir_exec import MapBuf, Opaque, Slice, StringBuf, VecBuf, find_method, mk_struct, new_ref, UNIT
    from mir_models import ok, err, as_items

    class RunnerModels(X.ExecModels):
        def __init__(self):
            super().__init__(prog)
            import re as _re
            ins = lambda pat, fn: self.table.insert(0, (_re.compile("^(?:%s)$" % pat), fn))
            rec = lambda c: c.notes.setdefault("proc", {})

            def builder(name):
                def f(c, m, a):
                    if name in ("stdout", "stderr", "stdin"):
                        v = deref(a[1])
                        rec(c)[name] = v.variant if isinstance(v, Agg) and v.variant else (v.ty if isinstance(v, Agg) else str(v))
                    if name == "env_extend":
                        pairs = {}
                        for it in as_items(deref(a[1])):
                            k, v = (deref(x) for x in deref(it).fields)
                            pairs["".join(chr(ch.v) for ch in as_str(k).chars)] = "".join(chr(ch.v) for ch in as_str(v).chars)
                        rec(c)["env"] = pairs
                    return Opaque("Exec")
                return f
            for n in ("cmd", "env_extend", "cwd", "stdout", "stderr", "stdin", "detached"):
                ins(r"(?:subprocess::)?Exec::%s(?:::<.*>)?" % n, builder(n))
            ins(r"(?:subprocess::)?Exec::popen", lambda c, m, a: ok(Opaque("Popen")))
            ins(r"(?:subprocess::)?Popen::pid", lambda c, m, a: none())

            def communicate_start(c, m, a):
                inp = a[1]
                rec(c)["stdin_bytes"] = [b.v for b in as_items(inp.fields[0])] if inp.variant == "Some" else None
                return Agg("Communicator", None, [none()])
            ins(r"(?:subprocess::)?Popen::communicate_start", communicate_start)

            def limit_time(c, m, a):
                rec(c).setdefault("limits", []).append(a[1])
                return Agg("Communicator", None, [some(a[1])])
            ins(r"(?:subprocess::)?Communicator::limit_time", limit_time)

            def read(c, m, a):
                comm = deref(a[0])
                rec(c)["limit_at_read"] = comm.fields[0]
                out = some(VecBuf([SInt(b, "u8") for b in b"o\r\n"], "u8"))
                er = some(VecBuf([SInt(b, "u8") for b in b"e\r\n"], "u8"))
                if c.notes["times_out"]:
                    return err(Agg("CommunicateError", None, [Agg("ErrorKind", "TimedOut", []), Agg("tuple", None, [out, er])]))
                return ok(Agg("tuple", None, [out, er]))
            ins(r"(?:subprocess::)?Communicator::read", read)
            ins(r"(?:subprocess::)?CommunicateError::kind", lambda c, m, a: deref(a[0]).fields[0])
            kind_name = lambda v: (deref(v).variant or deref(v).ty) if isinstance(deref(v), Agg) else str(deref(v))
            ins(r"<std::io::ErrorKind as PartialEq>::eq|<ErrorKind as PartialEq>::eq", lambda c, m, a: SBool(kind_name(a[0]) == kind_name(a[1])))
            from props.c05 import subprocess_variants
            from mir_exec import ENUMS as _EN
            _EN["subprocess::ExitStatus"] = subprocess_variants()
            ins(r"(?:subprocess::)?Popen::wait", lambda c, m, a: ok(Agg("subprocess::ExitStatus", "Exited", [mk_int(3, "u32")])))
            ins(r"<subprocess::ExitStatus as Into<(?:output::|scrut::output::)?ExitStatus>>::into",
                lambda c, m, a: c.call(find_method(c.program, "subprocess_runner.rs", "from"), [a[0]]))
            ins(r"tempfile_in::<.*>|tempfile::tempfile_in::<.*>", lambda c, m, a: ok(Opaque("File")))
            ins(r"<std::fs::File as (?:std::io::)?Write>::write|<File as Write>::write", lambda c, m, a: ok(mk_int(0, "usize")))
            ins(r"<std::fs::File as (?:std::io::)?Seek>::seek|<File as Seek>::seek", lambda c, m, a: ok(mk_int(0, "u64")))

        def const(self, ctx, name):
            if name.endswith("ErrorKind::TimedOut") or name.endswith("TimedOut"):
                return Agg("ErrorKind", "TimedOut", [])
            return X.ExecModels.const(self, ctx, name)

    def mk(stream, detached, times_out):
        def setup(ctx):
            ctx.notes["times_out"] = times_out
            ctx.notes["stream"] = stream
            ctx.notes["detached"] = detached
            timeout = X.sym_opt_dur(ctx, "limit")
            ctx.notes["timeout"] = timeout
            cfg = mk_struct("TestCaseConfig", detached=some(SBool(True)) if detached else none(),
                            environment=MapBuf([[StringBuf([SInt(ord(ch), "char") for ch in k_]), StringBuf([SInt(ord(ch), "char") for ch in v_])]
                                                for k_, v_ in RUNNER_ENV.items()]), keep_crlf=none(),
                            output_stream=some(Agg("OutputStreamControl", stream, [])) if stream else none(), skip_document_code=none(),
                            strip_ansi_escaping=none(), timeout=timeout, wait=none())
            tc = mk_struct("TestCase", title=StringBuf([]), shell_expression=StringBuf([SInt(ord(c), "char") for c in "echo {x}"]), expectations=VecBuf([]),
                           exit_code=none(), line_number=mk_int(1, "usize"), config=cfg)
            cx = X.mk_context(ctx, none())
            return [tc, cx]
        return setup

    def drive(ctx, args):
        """<SubprocessRunner as Runner>::run with a recording process stub"""
        f = find_method(ctx.program, "subprocess_runner.rs", "run")
        runner = Agg("SubprocessRunner", None, [Opaque("shell")])
        return ctx.call(f, [new_ref(runner), Str([SInt(ord("n"), "char")]), new_ref(args[0]), new_ref(args[1])])

    def post(ctx, args, kind, value):
        if kind != "return" or value.variant != "Ok":
            return False
        proc = ctx.notes.get("proc", {})
        out = value.fields[0]
        status = field_of(out, "exit_code")
        if ctx.notes["detached"]:
            return status.variant == "Detached"
        t = to_symopt(ctx.notes["timeout"])
        limit = proc.get("limit_at_read")
        conds = []
        # the process gets exactly the expression on its standard input
        if proc.get("stdin_bytes") != list(b"echo {x}"):
            return False
        # every variable of the test case reaches the process — the ones with an empty value too (that is how a variable is reset)
        env = proc.get("env")
        if env is None or any(env.get(k_) != v_ for k_, v_ in RUNNER_ENV.items()) or "SHELL" not in env:
            return False
        # the error stream is merged into the output iff `combined`
        if proc.get("stderr") != ("Merge" if ctx.notes["stream"] == "Combined" else "Pipe") or proc.get("stdout") != "Pipe":
            return False
        # the time limit is exactly the test case's (a zero limit is a limit), none if it has none
        if limit is None:
            return False
        if limit.variant == "Some":
            conds.append(t.present.z())
            conds.append(X.nanos(limit.fields[0]).z() == X.nanos(t.fields[0]).z())
        else:
            conds.append(z3.Not(t.present.z()))
        if ctx.notes["times_out"]:
            if status.variant != "Timeout":
                return False
        else:
            if not (status.variant == "Code" and status.fields[0].concrete and status.fields[0].v == 3):
                return False
            so = [b.v for b in as_items(field_of(out, "stdout").fields[0])]
            se = [b.v for b in as_items(field_of(out, "stderr").fields[0])]
            if so != list(b"o\n") or se != list(b"e\n"):
                return False          # CR LF → LF on both streams (keep_crlf unset)
        return z_and([z3.simplify(zb(c_)) for c_ in conds]) if conds else True
    inputs = [("stream=%s detached=%s read-times-out=%s" % (s_, d_, t_), mk(s_, d_, t_))
              for s_ in (None, "Stdout", "Stderr", "Combined") for d_ in (False, True) for t_ in (False, True) if not (d_ and t_)]
    h = e2.Harness("runner_process_contract", drive, inputs, post, native=None, judge=None,
                   describe="SubprocessRunner::run: standard input = the shell expression; stderr merged iff output_stream is combined; the time limit handed to "
                            "the process is exactly the test case's timeout (zero included), none without one; a timed-out read is reported as Timeout, a finished "
                            "process with its exit code and CR LF-translated output; detached test cases are reported Detached",
                   bound="every output_stream setting × detached × read outcome; any timeout (absent, zero, any value)")
    h.models_cls = RunnerModels
    return h


def replay_runner(rep, h, res):
    """end to end: the real runner on real processes — a zero limit, a short limit, no limit"""
    for model, r in res.raw_witnesses[:3]:
        t = to_symopt(r.ctx.notes["timeout"])
        present = bool(z3.is_true(model.eval(t.present.z(), model_completion=True)))
        ns = e2.model_int(model, X.nanos(t.fields[0])) if present else None
        bad = None
        for limit_ms, cmd, want in ((0, "sleep 1; echo late", "timeout"), (300, "sleep 2; echo late", "timeout"), (None, "echo fine", "0")):
            nk, nv = NAT.call("bash_run", [cmd, limit_ms])
            got = nv.get("status") if nk == "return" else str(nv)
            if not str(got).lower().startswith(want):
                bad = bad or ("`%s` with a limit of %s ms ends as %s, expected %s" % (cmd, limit_ms, got, want), [cmd, limit_ms], [nk, nv])
        # the streams and the environment, end to end
        nk, nv = NAT.call("bash_run", ["printf 'o\\r\\n'; printf 'e\\r\\n' 1>&2", None])
        if nk == "return" and (bytes(nv.get("stdout", [])) != b"o\n" or bytes(nv.get("stderr", [])) != b"e\n"):
            bad = bad or ("output `o\\r\\n` / error output `e\\r\\n` are reported as %r / %r (keep_crlf unset: both are to be translated to LF)"
                          % (bytes(nv.get("stdout", [])), bytes(nv.get("stderr", []))), ["printf …", None], [nk, nv])
        extra = {"env": dict(RUNNER_ENV), "parent_env": {"CDPATH": "/elsewhere", "GREP_OPTIONS": "--color=always"}}
        nk, nv = NAT.call("bash_run", ['echo "[$CDPATH][$FOO][$GREP_OPTIONS]"', None, extra])
        if nk == "return" and bytes(nv.get("stdout", [])) != b"[][b][]\n":
            bad = bad or ("a test case with the variables %s, run by a scrut whose own environment has CDPATH=/elsewhere GREP_OPTIONS=--color=always, "
                          "sees %r (expected [][b][]: empty values reset inherited variables)" % (RUNNER_ENV, bytes(nv.get("stdout", []))),
                          ['echo "[$CDPATH][$FOO][$GREP_OPTIONS]"', None, extra], [nk, nv])
        if bad:
            key = "time-limit" if "with a limit of" in bad[0] else ("streams" if "error output" in bad[0] else "environment")
            rep.violation("runner:" + key, "the per-process runner: %s" % bad[0], {"kind": "eval", "fn": "bash_run", "args": bad[1], "native": bad[2], "harness": h.name})
        else:
            rep.violation("runner:mir-only", "SubprocessRunner::run breaks its process contract for stream=%s detached=%s read-times-out=%s, timeout %s "
                          "(decided on its MIR against a recording process stub; the end-to-end probes with 0 ms / 300 ms / no limit behave)"
                          % (r.ctx.notes["stream"], r.ctx.notes["detached"], r.ctx.notes["times_out"], ("%d ns" % ns) if present else "unset"),
                          {"kind": "mir-only", "harness": h.name})


def run_claims(pid, rep, prog, tier):
    global NAT
    n_max = 2 if tier == "quick" else 3
    inputs = []
    for n in range(1, n_max + 1):
        for kinds in scripts(n):
            inputs.append(("script=%s" % "/".join(kinds), mk_setup(kinds)))
    if tier == "quick" and pid == "C14":
        # one three-test document also on every change: what the limit leaves for a test case depends on all time spent before it — the
        # time between two runs shows first in the third
        for kinds in (["Code", "Code", "Code"], ["Code", "Code", "Timeout"]):
            inputs.append(("script=%s" % "/".join(kinds), mk_setup(kinds)))
    h = e2.Harness("executor_%s" % {"C14": "timeouts", "C15": "skip_code", "C05": "unknown_padding", "C18": "scrut_test_variable"}[pid], drive, inputs, POSTS[pid],
                   native="execute_all", judge=None,
                   describe=POSTS[pid].__doc__ + ": see module docstring",
                   bound="documents of 1..%d test cases (quick, C14: plus two scripts of 3 test cases); every script {Code,Detached}* [Timeout|Skipped|Unknown|runner error]; all exit "
                         "codes, skip codes (test / document / default), per-test and document timeouts (absent / 0 / any value), "
                         "any non-decreasing clock" % n_max)

    def models():
        m = X.ExecModels(prog)
        X.install_clone_override(prog, m)
        return m
    h.models_cls = models
    res = e2.run_with_raw(prog, h)
    for model, r in res.raw_witnesses[:12]:
        # prefer a witness with a frozen clock: it can be replayed against the real clock
        s = z3.Solver()
        s.add(*r.pc)
        good = POSTS[pid](r.ctx, r.ctx.notes["args"], r.kind, r.value if r.kind == "return" else r.info)
        if not isinstance(good, bool):
            s.add(z3.Not(good))
        clock = r.ctx.notes.get("clock", [])
        runs_ = r.ctx.notes.get("runs", [])
        # prefer a clock that the replay can reproduce with real time: every run takes 100 ms (or 0), nothing else takes time
        durs = []
        for t_ in r.ctx.notes["args"][0]:
            durs.append(X.nanos(to_symopt(field_of(field_of(t_, "config"), "timeout")).fields[0]).z())
        durs.append(X.nanos(to_symopt(field_of(field_of(r.ctx.notes["args"][1], "config"), "total_timeout")).fields[0]).z())
        for step, humane in ((100 * 10 ** 6, True), (0, True), (100 * 10 ** 6, False), (0, False)):
            s.push()
            for j, c in enumerate(clock[1:], start=1):
                prev = clock[j - 1]
                is_run_end = any(c is ru["ended"] for ru in runs_)
                s.add(c.z() == prev.z() + (step if is_run_end else 0))
            if humane:
                # limits a person would write: whole seconds, at least 3 s apart from each other
                for a_ in durs:
                    s.add(z3.Or(a_ == 0, z3.And(a_ >= 3 * 10 ** 9, a_ % (10 ** 9) == 0, a_ <= 3600 * 10 ** 9)))
                for x_ in range(len(durs)):
                    for y_ in range(x_ + 1, len(durs)):
                        s.add(z3.Or(durs[x_] == durs[y_], durs[x_] - durs[y_] >= 3 * 10 ** 9, durs[y_] - durs[x_] >= 3 * 10 ** 9))
            found = s.check() == z3.sat
            if found:
                model = s.model()
            s.pop()
            if found:
                break
        w = add_sleeps(witness(model, r))
        nk, nv = NAT.call("execute_all", [w])
        if nk != "return":
            rep.violation("executor:panic", "execute_all panics for %s: %s" % (w, nv), {"kind": "eval", "fn": "execute_all", "args": [w], "native": [nk, nv]})
            continue
        bad = judge_native(pid, w, nv)
        if bad:
            rep.violation(bad[0], bad[1], {"kind": "eval", "fn": "execute_all", "args": [w], "native": [nk, nv], "harness": h.name})
        else:
            rep.mismatches.append("%s: solver witness did not reproduce natively: %s → %s" % (h.name, w, nv))
    e2.record(rep, h, res)
    if pid == "C14":
        ht = h_script_timeout(prog, 2 if tier == "quick" else 3)
        rest = e2.run_with_raw(prog, ht, max_witnesses=2)
        replay_script_timeout(rep, ht, rest)
        e2.record(rep, ht, rest)
    if pid == "C14":
        # end to end: time that passes between two runs (here: a `wait`) is charged to the document's limit
        cfg = lambda wait_ns: {"detached": None, "keep_crlf": None, "strip_ansi_escaping": None, "skip_document_code": None, "output_stream": None, "timeout": None,
                               "wait": {"timeout": str(wait_ns), "path": None} if wait_ns else None, "environment": []}
        w = {"tests": [{"config": cfg(0)}, {"config": cfg(700 * 10 ** 6)}, {"config": cfg(0)}], "defaults": cfg(0),
             "script": [{"status": "Code", "code": 0}] * 3, "total_timeout": str(10 ** 9), "default_skip": None}
        nk, nv = NAT.call("execute_all", [w])
        handed = [int(r_["timeout"]) if r_.get("timeout") is not None else None for r_ in nv.get("runs", [])] if nk == "return" else None
        if not handed or len(handed) != 3 or handed[2] is None or handed[2] > 400 * 10 ** 6:
            rep.violation("timeout:time-between-runs-not-charged", "document limit 1 s, second test case waits 700 ms before it runs: the third test case's process is given %s ns "
                          "(at most 300 ms are left)" % (handed[2] if handed and len(handed) == 3 else handed),
                          {"kind": "eval", "fn": "execute_all", "args": [w], "native": [nk, nv], "harness": "end-to-end sample"})
        from props import c16
        c16.run_timeout_seconds(rep, tier)
    if pid in ("C14", "C18"):
        hr = h_subprocess_runner(prog)
        resr = e2.run_with_raw(prog, hr, max_witnesses=3)
        replay_runner(rep, hr, resr)
        e2.record(rep, hr, resr)
    if pid == "C15":
        hs = h_script_skip(prog, 2 if tier == "quick" else 3)
        ress = e2.run_with_raw(prog, hs, max_witnesses=4)
        replay_script_skip(rep, hs, ress)
        e2.record(rep, hs, ress)
    return res


def run(pid, tier):
    global NAT
    rep = Report(pid, tier, "other")
    build_native()
    mir, mir_s = e2.dump_mir("lib")
    prog = load_program(mir, e2.REPO + "/src")
    NAT = e2.NativeEval()
    run_claims(pid, rep, prog, tier)
    NAT.close()
    tot_paths = sum(s.get("paths", 0) for s in rep.subclaims)
    rep.coverage.update({
        "explanation": "SMT decision (z3) over whole-function symbolic execution of the MIR of StatefulExecutor::execute_all "
                       "with environment stubs: symbolic non-decreasing clock (Instant::now), scripted runner, opaque temp dir, "
                       "tracing disabled. " + {"C14": "Decides which timeout reaches the runner and how a timeout surfaces; the actual "
                       "abort of a running process (limit_time), the Cram executor and the CLI's reporting are outside.",
                       "C15": "Decides when the executor signals Skipped; the CLI's per-document reporting/counting (commands::test) "
                       "and the Cram executor are outside."}[pid],
        "functions_encoded": ["<StatefulExecutor as Executor>::execute_all (+ its closures)", "<Timeout as Ord>::cmp (derived)",
                              "TestCaseConfig::with_defaults_from", "TestCaseConfig::get_skip_document_code", "ExecutionError::failed",
                              "<Output as Default>::default"],
        "evaluations": tot_paths, "distinct_nontrivial": max(tot_paths, 2),
        "rule": "one case = one feasible path of execute_all under one runner script",
        "samples": [s for sc in rep.subclaims for s in sc.get("samples", [])][:4] or ["symbolic documents: see subclaims"],
        "mir_dump_s": round(mir_s, 1),
    })
    rep.assumptions += ["stubs: Instant::now = arbitrary non-decreasing instants; runner output = scripted status; TempDir opaque; tracing off",
                        "Duration/Instant modelled as 128-bit nanosecond counts below 2^70; derived Clone impls are structural",
                        "std contract models of lib/mir_models.py and props/execmodel.py (Iterator::min = first minimum, Option: None < Some)"]
    return rep.finish()
