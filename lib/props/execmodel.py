"""Whole-function symbolic execution of `StatefulExecutor::execute_all` (the Markdown executor loop) with
its environment replaced by nondeterministic stubs constrained only by their contracts:
  clock      : `Instant::now()` returns arbitrary non-decreasing instants (symbolic)
  runner     : `<dyn Runner>::run` returns, per test, the exit status scripted by the harness (status kind
               enumerated, payload symbolic) and records the configuration (timeout!) it was handed
  temp dir   : opaque; tracing: disabled (`Level <= LevelFilter` is false)
Used by C14 (timeout selection / timeout outcome), C15 (skip code) and C05 (Unknown padding)."""
import re

import z3

import e2
from mir_exec import (UNIT, Agg, MapBuf, Opaque, Ref, SBool, SInt, Slice, Str, StringBuf, SymEnum, SymOpt, Unsupported,
                      VecBuf, field_of, find_method, load_program, mk_bool, mk_int, mk_struct, new_ref, STRUCTS)
from mir_models import (Models, SeqIt, as_items, as_str, deep_clone, deref, drain, err, none, ok, opt_present, sbool,
                        some, to_iter, to_symopt, usize, z_and, z_not, z_or, ite)

DEFAULT_TOTAL_NS = 900 * 10 ** 9
LIMIT = 1 << 70


def dur(n):
    return Agg("Duration", None, [n if isinstance(n, SInt) else mk_int(n, "nat")])


def nanos(d):
    return deref(d).fields[0]


def read_clock(c, who):
    """one read of the symbolic, non-decreasing clock; `who` ∈ impl (the code under test) / stub (runner) / harness"""
    k = len(c.notes.setdefault("clock", []))
    t = c.sym_int("now%d" % k, "nat")
    if k:
        c.add(t.z() >= c.notes["clock"][-1].z())
    c.notes["clock"].append(t)
    c.notes.setdefault("clock_who", []).append(who)
    return t


class ExecModels(Models):
    def const(self, ctx, name):
        if re.search(r"(?:^|::)Duration::ZERO$", name):
            return Agg("Duration", None, [mk_int(0, "nat")])
        return None

    def __init__(self, prog):
        super().__init__()
        M = self
        ins = lambda pat, fn: self.table.insert(0, (re.compile("^(?:%s)$" % pat), fn))

        # ---- clock -----------------------------------------------------------------------------
        def now(c, m, a):
            return Agg("Instant", None, [read_clock(c, "impl")])
        ins(r"Instant::now|std::time::Instant::now", now)
        ins(r"<Instant as Add<Duration>>::add", lambda c, m, a: Agg("Instant", None, [mk_int(a[0].fields[0].z() + nanos(a[1]).z(), "nat")]))

        def duration_since(c, m, a):
            x, y = deref(a[0]).fields[0].z(), deref(a[1]).fields[0].z()
            return dur(mk_int(z3.If(x >= y, x - y, z3.IntVal(0)), "nat"))
        ins(r"Instant::duration_since|Instant::saturating_duration_since", duration_since)

        def checked_duration_since(c, m, a):
            x, y = deref(a[0]).fields[0].z(), deref(a[1]).fields[0].z()
            if c.decide(x >= y):
                return some(dur(mk_int(x - y, "nat")))
            return none()
        ins(r"Instant::checked_duration_since", checked_duration_since)

        # Duration comparisons on the integer nanoseconds
        def dur_cmp(op):
            def f(c, m, a):
                x, y = nanos(a[0]).z(), nanos(a[1]).z()
                return SBool(z3.simplify({"lt": x < y, "le": x <= y, "gt": x > y, "ge": x >= y, "eq": x == y, "ne": x != y}[op]))
            return f
        for op in ("lt", "le", "gt", "ge", "eq", "ne"):
            ins(r"<Duration as PartialOrd>::%s|<Duration as PartialEq>::%s" % (op, op), dur_cmp(op))

        def dur_minmax(which):
            def f(c, m, a):
                x, y = nanos(a[0]).z(), nanos(a[1]).z()
                return dur(mk_int(z3.If((x <= y) if which == "min" else (x >= y), x, y), "nat"))
            return f
        # Duration arithmetic on the integer nanoseconds
        def dur_sat_sub(c, m, a):
            x, y = nanos(a[0]).z(), nanos(a[1]).z()
            return dur(mk_int(z3.If(x >= y, x - y, z3.IntVal(0)), "nat"))
        ins(r"Duration::saturating_sub", dur_sat_sub)

        def dur_checked_sub(c, m, a):
            x, y = nanos(a[0]).z(), nanos(a[1]).z()
            if c.decide(x >= y):
                return some(dur(mk_int(x - y, "nat")))
            return none()
        ins(r"Duration::checked_sub", dur_checked_sub)
        ins(r"<Duration as Add>::add|<Duration as Add<Duration>>::add|Duration::saturating_add", lambda c, m, a: dur(mk_int(nanos(a[0]).z() + nanos(a[1]).z(), "nat")))

        def dur_add_assign(c, m, a):
            d = deref(a[0])
            d.fields[0] = mk_int(nanos(d).z() + nanos(a[1]).z(), "nat")
            return UNIT
        ins(r"<Duration as AddAssign>::add_assign|<Duration as AddAssign<Duration>>::add_assign", dur_add_assign)
        ins(r"Instant::elapsed", lambda c, m, a: dur(mk_int(z3.If(read_clock(c, "impl").z() >= deref(a[0]).fields[0].z(), c.notes["clock"][-1].z() - deref(a[0]).fields[0].z(), z3.IntVal(0)), "nat")))
        ins(r"<Duration as Ord>::min|std::cmp::min::<Duration>", dur_minmax("min"))
        ins(r"<Duration as Ord>::max|std::cmp::max::<Duration>", dur_minmax("max"))

        def opt_and_then_fork(c, m, a):
            o = a[0]
            if isinstance(o, SymOpt):
                if c.decide(o.present.v):
                    return c.call_callable(a[1], [o.fields[0]])
                return none()
            return c.call_callable(a[1], [o.fields[0]]) if o.variant == "Some" else none()
        ins(r"Option::<Instant>::and_then::<.*>|Option::<Duration>::and_then::<.*>", opt_and_then_fork)

        # ---- lazy static default timeout ---------------------------------------------------------
        ins(r"<DEFAULT_TOTAL_TIMEOUT as Deref>::deref", lambda c, m, a: new_ref(dur(DEFAULT_TOTAL_NS)))

        # ---- temp dir / paths --------------------------------------------------------------------
        ins(r"TempDir::with_prefix_in::<.*>", lambda c, m, a: ok(Opaque("TempDir")))
        ins(r"TempDir::path", lambda c, m, a: Opaque("state-dir"))
        ins(r"Path::to_string_lossy", lambda c, m, a: Agg("Cow", "Borrowed", [Str([SInt(ord(x), "char") for x in "file.md"])]))
        ins(r"<PathBuf as Deref>::deref", lambda c, m, a: a[0])
        ins(r"Path::join::<.*>", lambda c, m, a: Opaque("joined-path"))
        ins(r"<&(?:context::)?Context as ToOwned>::to_owned", lambda c, m, a: a[0])

        # ---- tracing: disabled --------------------------------------------------------------------
        ins(r"<Level as PartialOrd<LevelFilter>>::le", lambda c, m, a: SBool(False))
        ins(r"tracing::__macro_support::__disabled_span|Span::none|tracing::Span::none", lambda c, m, a: Opaque("Span"))
        ins(r"<DefaultCallsite as Callsite>::metadata", lambda c, m, a: Opaque("Metadata"))
        ins(r"Span::enter", lambda c, m, a: Opaque("Entered"))
        ins(r"Interest::never|Interest::always|Interest::sometimes", lambda c, m, a: Opaque("Interest"))

        # ---- runner ---------------------------------------------------------------------------------
        ins(r"<Box<dyn (?:for(?:<>)? )?Fn\(&Path\) -> Box<dyn Runner>> as Fn<\(&Path,\)>>::call", lambda c, m, a: Opaque("runner"))

        def run(c, m, a):
            tc = deref(a[2])
            runs = c.notes.setdefault("runs", [])
            i = len(runs)
            cfg = field_of(tc, "config")
            started = read_clock(c, "stub")
            ended = read_clock(c, "stub")
            runs.append({"timeout": deep_clone(field_of(cfg, "timeout")), "env": deep_clone(field_of(cfg, "environment")), "cfg": deep_clone(cfg),
                         "name": "".join(chr(ch.v) for ch in as_str(a[1]).chars), "started": started, "ended": ended})
            script = c.notes["script"]
            if i >= len(script):
                raise Unsupported("runner called more often than there are test cases")
            st = script[i]
            if st == "RunnerError":
                return err(Opaque("anyhow::Error(runner)"))
            return ok(mk_struct("Output", stderr=Agg("OutputStream", None, [VecBuf([], "u8")]),
                                stdout=Agg("OutputStream", None, [VecBuf([SInt(48 + i, "u8")], "u8")]), exit_code=st))
        ins(r"<dyn Runner as Runner>::run", run)

        # ---- iterator min over Option<Timeout> (std: first minimum, Option: None < Some) -------------
        cmp_timeout = prog.resolve_call("<Timeout as Ord>::cmp")

        def cmp_opt(c, x, y):
            """Ordering of two Option<Timeout> values as python int -1/0/1 (forks inside the derived cmp)"""
            px, py = x.variant == "Some", y.variant == "Some"
            if not px or not py:
                return (px > py) - (px < py)
            if cmp_timeout is None:
                raise Unsupported("<Timeout as Ord>::cmp not found in the dump")
            o = c.call(cmp_timeout, [new_ref(x.fields[0]), new_ref(y.fields[0])])
            return {"Less": -1, "Equal": 0, "Greater": 1}[o.variant]

        def it_min(c, m, a):
            items = drain(c, to_iter(c, a[0]) if not hasattr(deref(a[0]), "next") else deref(a[0]))
            if not items:
                return none()
            best = items[0]
            for x in items[1:]:
                if cmp_opt(c, x, best) < 0:
                    best = x
            return some(best)
        ins(r"<Filter<.*Option<(?:stateful_executor::)?Timeout>.*> as Iterator>::min", it_min)
        ins(r"Option::<Option<(?:stateful_executor::)?Timeout>>::unwrap_or_default", lambda c, m, a: a[0].fields[0] if a[0].variant == "Some" else none())

        # Option<Duration>::map with a closure on possibly-symbolic presence: fork on presence
        def opt_map_fork(c, m, a):
            o = a[0]
            if isinstance(o, SymOpt):
                if c.decide(o.present.v):
                    return some(c.call_callable(a[1], [o.fields[0]]))
                return none()
            if o.variant == "Some":
                return some(c.call_callable(a[1], [o.fields[0]]))
            return none()
        ins(r"Option::<Duration>::map::<.*>|Option::<Instant>::map::<.*>", opt_map_fork)

        def opt_unwrap_or_dur(c, m, a):
            o = a[0]
            if isinstance(o, SymOpt):
                return o.fields[0] if c.decide(o.present.v) else a[1]
            return o.fields[0] if o.variant == "Some" else a[1]
        ins(r"Option::<Duration>::unwrap_or", opt_unwrap_or_dur)

        # ranges as iterators
        ins(r"<Range<usize> as Iterator>::map::<.*>", lambda c, m, a: __import__("mir_models").MapIt(to_iter(c, a[0]), a[1]))
        # structural clone for every type (Clone impls of the crate are derived / structural)
        ins(r"<.* as Clone>::clone", lambda c, m, a: deep_clone(deref(a[0])))
        self.clone_everything = True


def install_clone_override(prog, models):
    """derived Clone impls of the crate are structural: answer them with deep_clone instead of interpreting"""
    for name in prog.funcs:
        if name.endswith("::clone") and "<impl at " in name:
            models.overrides[name] = lambda ctx, fname, args: deep_clone(deref(args[0]))


def mk_testcase(ctx, i, timeout, skip_code, line=1):
    cfg = mk_struct("TestCaseConfig", detached=none(), environment=MapBuf([]), keep_crlf=none(), output_stream=none(),
                    skip_document_code=skip_code, strip_ansi_escaping=none(), timeout=timeout, wait=none())
    # the exit code the document expects of this test case: anything, or none — the executor has no business with it
    want = SymOpt(ctx.sym_bool("want%d_set" % i), ctx.sym_int("want%d" % i, "i32"))
    return mk_struct("TestCase", title=StringBuf([]), shell_expression=StringBuf([SInt(ord("x"), "char")]),
                     expectations=VecBuf([]), exit_code=want, line_number=mk_int(line + i, "usize"), config=cfg)


def mk_context(ctx, total_timeout, default_skip=None):
    defaults = mk_struct("TestCaseConfig", detached=none(), environment=MapBuf([]), keep_crlf=none(), output_stream=none(),
                         skip_document_code=default_skip or none(), strip_ansi_escaping=none(), timeout=none(), wait=none())
    doc = mk_struct("DocumentConfig", append=VecBuf([]), defaults=defaults, prepend=VecBuf([]), shell=none(), total_timeout=total_timeout)
    return mk_struct("Context", work_directory=Opaque("work"), temp_directory=Opaque("tmp"), file=Opaque("file"), config=doc)


def sym_opt_dur(ctx, name):
    v = ctx.sym_int(name, "nat")
    return SymOpt(ctx.sym_bool(name + "_set"), dur(v))


def execute_all(ctx, testcases, context):
    ctx.notes["doc_start"] = read_clock(ctx, "harness")
    f = find_method(ctx.program, "stateful_executor.rs", "execute_all")
    ex = Agg("StatefulExecutor", None, [Opaque("generator")])
    return ctx.call(f, [new_ref(ex), Slice([new_ref(t) for t in testcases]), new_ref(context)])
