pub fn o(x: Option<usize>) -> i64 { x.map_or(-1, |v| v as i64) }
pub fn t01() -> i64 { o("héllo wörld".find('w')) }
pub fn t02() -> i64 { o("héllo wörld".find("ll")) }
pub fn t03() -> i64 { o("a,b,c".rfind(',')) }
pub fn t04() -> i64 { "abc".contains("bc") as i64 * 10 + "abc".contains('z') as i64 }
pub fn t05() -> i64 { match "k=v=w".split_once('=') { Some((a, b)) => (a.len() * 10 + b.len()) as i64, None => -1 } }
pub fn t06() -> i64 { match "k=v=w".rsplit_once('=') { Some((a, b)) => (a.len() * 10 + b.len()) as i64, None => -1 } }
pub fn t07() -> i64 { "a::b::c".split("::").count() as i64 * 100 + "a,b,c,d".splitn(2, ',').last().map_or(0, |s| s.len()) as i64 }
pub fn t08() -> i64 { "  a b\t c ".split_whitespace().map(|s| s.len()).sum::<usize>() as i64 }
pub fn t09() -> i64 { "hé".bytes().map(|b| b as i64).sum::<i64>() }
pub fn t10() -> i64 { ("AbC".to_lowercase() == "abc") as i64 * 10 + ("AbC".to_uppercase() == "ABC") as i64 }
pub fn t11() -> i64 { "hé".is_char_boundary(2) as i64 * 10 + "hé".is_char_boundary(3) as i64 }
pub fn t12() -> i64 { "Abc".eq_ignore_ascii_case("aBC") as i64 }
pub fn t13() -> i64 { [3usize, 9, 4].iter().find(|x| **x > 3).map_or(-1, |x| *x as i64) }
pub fn t14() -> i64 { [3usize, 9, 4, 9].iter().rposition(|x| *x == 9).map_or(-1, |x| x as i64) }
pub fn t15() -> i64 { [1usize, 2, 3, 1].iter().take_while(|x| **x < 3).count() as i64 * 10 + [1usize, 2, 3, 1].iter().skip_while(|x| **x < 3).count() as i64 }
pub fn t16() -> i64 { [1usize, 2, 3].iter().zip([10usize, 20].iter()).map(|(a, b)| a * b).sum::<usize>() as i64 }
pub fn t17() -> i64 { (0..10usize).step_by(3).sum::<usize>() as i64 }
pub fn t18() -> i64 { [1usize, 2].iter().flat_map(|x| vec![*x, *x * 10]).sum::<usize>() as i64 }
pub fn t19() -> i64 { [5i32, -3, 7].iter().min().map_or(0, |x| *x as i64) * 100 + [5i32, -3, 7].iter().max().map_or(0, |x| *x as i64) }
pub fn t20() -> i64 { ["aa", "b", "cc"].iter().max_by_key(|s| s.len()).map_or(-1, |s| s.len() as i64) * 10 + (["aa", "b", "cc"].iter().max_by_key(|s| s.len()).unwrap() == &"cc") as i64 }
pub fn t21() -> i64 { (["aa", "b", "c"].iter().min_by_key(|s| s.len()).unwrap() == &"b") as i64 }
pub fn t22() -> i64 { let a: Option<usize> = Some(2); let b: Option<usize> = None; o(a.and(Some(5usize))) * 100 + o(a.xor(b)) * 10 + a.zip(Some(1usize)).map_or(0, |(x, y)| x + y) as i64 }
pub fn t23() -> i64 { let mut a = Some(4usize); let t = a.take(); o(t) * 10 + o(a) }
pub fn t24() -> i64 { let mut a = Some(4usize); let t = a.replace(6); o(t) * 10 + o(a) }
pub fn t25() -> i64 { let a: Option<usize> = None; a.is_none_or(|x| x > 1) as i64 * 10 + Some(1usize).is_none_or(|x| x > 1) as i64 }
pub fn t26() -> i64 { let a: Option<Option<usize>> = Some(Some(3)); o(a.flatten()) }
pub fn t27() -> i64 { let mut a: Option<usize> = None; *a.get_or_insert_with(|| 7) += 1; o(a) }
pub fn t28() -> i64 { let r: Result<usize, usize> = Err(3); o(r.err()) * 100 + r.unwrap_or_else(|e| e + 1) as i64 * 10 + r.map_or(0, |v| v) as i64 }
pub fn t29() -> i64 { let r: Result<usize, usize> = Ok(3); r.is_ok_and(|v| v == 3) as i64 }
pub fn t30() -> i64 { let mut v = vec![1usize, 2, 3]; v.insert(1, 9); let x = v.remove(0); (x * 1000 + v[0] * 100 + v[1] * 10 + v[2]) as i64 }
pub fn t31() -> i64 { let mut v = vec![1usize, 2, 3, 4]; v.retain(|x| x % 2 == 0); v.truncate(1); v.len() as i64 * 10 + v[0] as i64 }
pub fn t32() -> i64 { let mut v = vec![1usize, 1, 2, 2, 1]; v.dedup(); let p = v.pop(); o(p) * 10 + v.len() as i64 }
pub fn t33() -> i64 { let mut v = vec![1usize, 2, 3, 4]; let d: Vec<usize> = v.drain(1..3).collect(); (d.len() * 100 + v.len() * 10 + v[1]) as i64 }
pub fn t34() -> i64 { let mut v = vec![1usize, 2, 3]; let t = v.split_off(1); v.resize(3, 7); (t.len() * 100 + v[2] * 10 + v.contains(&7) as usize) as i64 }
pub fn t35() -> i64 { let v = vec![1usize, 2, 3]; o(v.first().copied()) * 10 + o(v.last().copied()) }
pub fn t36() -> i64 { let v = [1usize, 2, 3, 4, 5]; v.chunks(2).count() as i64 * 100 + v.split_at(2).1.len() as i64 * 10 + v.split_first().map_or(0, |(a, r)| a + r.len()) as i64 }
pub fn t37() -> i64 { let mut v = [1usize, 2, 3]; v.reverse(); v.swap(0, 1); (v[0] * 100 + v[1] * 10 + v[2]) as i64 }
pub fn t38() -> i64 { o(5usize.checked_sub(6)) * 100 + o(5usize.checked_add(6)) * 1 + o(250u8.checked_add(10).map(|x| x as usize)) * 10000 }
pub fn t39() -> i64 { 5usize.wrapping_sub(6) as i64 + 250u8.saturating_add(10) as i64 * 3 + 3usize.abs_diff(10) as i64 * 1000 }
pub fn t40() -> i64 { 3usize.pow(4) as i64 + (-5i32).abs() as i64 * 1000 + 8usize.is_power_of_two() as i64 * 100000 }
pub fn t41() -> i64 { b'7'.is_ascii_digit() as i64 + b'x'.is_ascii_alphabetic() as i64 * 10 + b' '.is_ascii_whitespace() as i64 * 100 + b'!'.is_ascii_punctuation() as i64 * 1000 + b'A'.to_ascii_lowercase() as i64 * 10000 }
pub fn t42() -> i64 { 'é'.is_alphabetic() as i64 + '5'.is_numeric() as i64 * 10 + 'É'.is_uppercase() as i64 * 100 + 'f'.to_digit(16).map_or(0, |d| d as i64) * 1000 + 'z'.to_digit(10).map_or(7, |d| d as i64) * 100000 }
pub fn t43() -> i64 { use std::cmp::Ordering; (match 3usize.cmp(&5) { Ordering::Less => 1, Ordering::Equal => 2, Ordering::Greater => 3 }) + 7usize.clamp(1, 5) as i64 * 10 + std::cmp::max(-3i32, 2) as i64 * 100 }
pub fn t44() -> i64 { let (mut a, mut b) = (1usize, 2usize); std::mem::swap(&mut a, &mut b); let old = std::mem::replace(&mut a, 9); let mut v = vec![1u8, 2]; let t = std::mem::take(&mut v); (a * 1000 + b * 100 + old * 10 + t.len() + v.len()) as i64 }
pub fn t45() -> i64 { let mut s = String::from("héllo"); s.insert(1, 'X'); s.insert_str(0, "ab"); let p = s.pop(); s.truncate(4); (s.len() * 10) as i64 + (p == Some('o')) as i64 }
pub fn t46() -> i64 { let mut s = String::from("a1b2"); s.retain(|c| c.is_ascii_alphabetic()); let r = s.remove(0); s.clear(); (r == 'a') as i64 * 10 + s.len() as i64 }
pub fn t47() -> i64 { let mut s = String::new(); s.extend(['a', 'b']); s += "cd"; let t: String = "xyz".chars().rev().collect(); let u = s.split_off(1); (s.len() * 100 + u.len() * 10) as i64 + (t == "zyx") as i64 }
pub fn t48() -> i64 { use std::fmt::Write; let mut s = String::new(); write!(s, "{}-{}", 12, "ab").unwrap(); s.write_str("!").unwrap(); s.len() as i64 }
pub fn t49() -> i64 { "123".parse::<i32>().unwrap_or(-1) as i64 + "x1".parse::<usize>().map_or(1000, |v| v as i64) + "-7".parse::<i32>().unwrap_or(0) as i64 * 10000 + "300".parse::<u8>().map_or(5, |v| v as i64) * 1000000 }
pub fn t50() -> i64 { usize::try_from(300u64).map_or(-1, |v| v as i64) + u8::try_from(300u64).map_or(1000, |v| v as i64) + { let r: Result<u32, _> = 70000usize.try_into(); r.map_or(0, |v| v as i64) } * 10 }
pub fn t51() -> i64 { let mut x = 5usize; x += 3; x -= 1; x *= 2; (!true) as i64 + x as i64 }
pub fn t52() -> i64 { [1usize, 5, 2].iter().fold(0usize, |a, b| a.max(*b)) as i64 + [1usize, 5, 2].iter().copied().max().map_or(0, |v| v as i64) * 10 }
pub fn t53() -> i64 { Some(3usize).filter(|x| *x > 5).map_or(7, |x| x as i64) + Some(9usize).filter(|x| *x > 5).map_or(7, |x| x as i64) * 10 + Some('a').is_some_and(|c| c.is_ascii_alphabetic()) as i64 * 100 }
pub fn t54() -> i64 { let mut v = vec![(2usize, "b"), (1, "a"), (2, "a")]; v.sort_by(|x, y| x.0.cmp(&y.0)); (v[0].0 * 100 + v[1].0 * 10) as i64 + (v[1].1 == "b") as i64 }
pub fn t55() -> i64 { "a--b".trim_start_matches('a').len() as i64 * 10 + "x==".trim_end_matches('=').len() as i64 + "a\nb".matches('\n').count() as i64 * 100 + "a,b".split(',').count() as i64 * 1000 }
pub fn t56() -> i64 { use std::collections::BTreeMap; let m: BTreeMap<&str, &str> = BTreeMap::from([("state", "1"), ("name", "2"), ("shell", "3")]); let order: String = m.iter().map(|(_k, v)| *v).collect(); order.parse::<i64>().unwrap_or(-1) }
pub fn t57() -> i64 { let mut v = vec![(1usize, 5usize), (1, 6), (2, 7), (2, 8), (1, 9)]; v.dedup_by(|a, b| a.0 == b.0); (v.len() * 100 + v[1].1 * 10 + v[2].1) as i64 }
pub fn t58() -> i64 { let s = format!("{:?}", "a\"b\\c\n\u{301}\u{a0}é"); s.len() as i64 }
pub fn t59() -> i64 { use std::collections::BTreeMap; let mut m: BTreeMap<String, String> = BTreeMap::new(); m.insert("b".into(), "1".into()); m.insert("a".into(), "2".into()); let r = m.remove("b"); let mut n = m.clone(); n.retain(|_k, v| v.len() > 1); (r.map_or(0, |v| v.len()) * 100 + m.len() * 10 + n.len()) as i64 + (m == n) as i64 * 1000 }
pub fn t60() -> i64 { let b: &[u8] = b"ab\xe2\x82x\xff\xf0\x9f\x98"; let mut acc = 0i64; for c in b.utf8_chunks() { acc = acc * 100 + (c.valid().len() * 10 + c.invalid().len()) as i64; } acc }
pub fn t61() -> i64 { format!("[{}]", -42i32).len() as i64 * 10 + format!("{}", -2147483647i32).len() as i64 }
pub fn t62() -> i64 { let a: Option<String> = None; let b = Some("x".to_string()); let c = Some("y".to_string()); (a.cmp(&b) as i64 + 1) * 100 + (b.cmp(&c) as i64 + 1) * 10 + (c.cmp(&c) as i64 + 1) }
pub const N: usize = 62;
