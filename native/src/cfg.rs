//! JSON <-> scrut configuration values for replaying witnesses against the real merge functions.
use scrut::config::DocumentConfig;
use scrut::config::OutputStreamControl;
use scrut::config::TestCaseConfig;
use scrut::config::TestCaseWait;
use serde_json::json;
use serde_json::Value;
use std::path::PathBuf;
use std::time::Duration;

fn dur(v: &Value) -> Option<Duration> {
    // nanoseconds as decimal string or number
    match v {
        Value::Null => None,
        Value::String(s) => s.parse::<u128>().ok().map(|n| Duration::new((n / 1_000_000_000) as u64, (n % 1_000_000_000) as u32)),
        _ => v.as_u64().map(Duration::from_nanos),
    }
}

fn dur_val(d: &Option<Duration>) -> Value {
    match d {
        None => Value::Null,
        Some(d) => json!(d.as_nanos().to_string()),
    }
}

pub fn tcc_from(v: &Value) -> TestCaseConfig {
    let mut c = TestCaseConfig::empty();
    c.detached = v["detached"].as_bool();
    c.keep_crlf = v["keep_crlf"].as_bool();
    c.strip_ansi_escaping = v["strip_ansi_escaping"].as_bool();
    c.skip_document_code = v["skip_document_code"].as_i64().map(|x| x as i32);
    c.output_stream = match v["output_stream"].as_str() {
        Some("Stdout") => Some(OutputStreamControl::Stdout),
        Some("Stderr") => Some(OutputStreamControl::Stderr),
        Some("Combined") => Some(OutputStreamControl::Combined),
        _ => None,
    };
    c.timeout = dur(&v["timeout"]);
    if v["wait"].is_object() {
        c.wait = Some(TestCaseWait {
            timeout: dur(&v["wait"]["timeout"]).unwrap_or_default(),
            path: v["wait"]["path"].as_str().map(PathBuf::from),
        });
    }
    if let Some(env) = v["environment"].as_array() {
        for kv in env {
            c.environment.insert(kv[0].as_str().unwrap().to_string(), kv[1].as_str().unwrap().to_string());
        }
    }
    c
}

pub fn tcc_to(c: &TestCaseConfig) -> Value {
    json!({
        "detached": c.detached,
        "keep_crlf": c.keep_crlf,
        "strip_ansi_escaping": c.strip_ansi_escaping,
        "skip_document_code": c.skip_document_code,
        "output_stream": c.output_stream.as_ref().map(|o| format!("{:?}", o)),
        "timeout": dur_val(&c.timeout),
        "wait": c.wait.as_ref().map(|w| json!({"timeout": dur_val(&Some(w.timeout)), "path": w.path.as_ref().map(|p| p.to_string_lossy().to_string())})),
        "environment": c.environment.iter().map(|(k, v)| json!([k, v])).collect::<Vec<_>>(),
    })
}

pub fn doc_from(v: &Value) -> DocumentConfig {
    let mut d = DocumentConfig::empty();
    let paths = |x: &Value| -> Vec<PathBuf> {
        x.as_array().map(|a| a.iter().map(|p| PathBuf::from(p.as_str().unwrap())).collect()).unwrap_or_default()
    };
    d.append = paths(&v["append"]);
    d.prepend = paths(&v["prepend"]);
    d.shell = v["shell"].as_str().map(PathBuf::from);
    d.total_timeout = dur(&v["total_timeout"]);
    if v["defaults"].is_object() {
        d.defaults = tcc_from(&v["defaults"]);
    }
    d
}

pub fn doc_to(d: &DocumentConfig) -> Value {
    let paths = |x: &Vec<PathBuf>| -> Vec<String> { x.iter().map(|p| p.to_string_lossy().to_string()).collect() };
    json!({
        "append": paths(&d.append),
        "prepend": paths(&d.prepend),
        "shell": d.shell.as_ref().map(|p| p.to_string_lossy().to_string()),
        "total_timeout": dur_val(&d.total_timeout),
        "defaults": tcc_to(&d.defaults),
    })
}
