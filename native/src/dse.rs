//! E3 — dynamic symbolic execution of the compiled `TestCase::validate` / `DiffTool::diff`
//! with a *symbolic match relation*.
//!
//! The only channel from line contents to control flow in the matcher is `Rule::matches`.
//! `OracleRule` implements the public `Rule` trait; a query `(i, j)` that has not been decided on
//! the current path is a symbolic branch point: it is recorded, given a value and execution
//! continues.  Depth-first re-execution flips the last open decision until the decision tree is
//! exhausted.  Each run stands for the cube of all match matrices that agree with its path
//! condition.  The cubes, with the observed result, are written out; `lib/e3.py` hands them to z3.
//!
//! Output format, one line per path:
//!   `<pc> <verdict> <diff>`
//! pc      n*m chars, row-major, '.' unconstrained, '0'/'1' decided
//! verdict A accept (validate Ok) | R reject (MalformedOutput) | E other error | P panic |
//!         W watchdog (oracle-call budget exceeded) | N nondeterministic (validate / diff disagree)
//! diff    ';'-separated items of `DiffTool::diff(..).lines`: `M<i>:<j>,<j>..` `U<i>` `X<j>,<j>..`
//!         ('!' appended to a line index whose bytes are not the bytes of output line j), '-' if none

use scrut::diff::DiffLine;
use scrut::diff::DiffTool;
use scrut::escaping::Escaper;
use scrut::expectation::Expectation;
use scrut::expectation::ExpectationMaker;
use scrut::output::ExitStatus;
use scrut::output::Output;
use scrut::rules::registry::RuleRegistry;
use scrut::rules::rule::Rule;
use scrut::testcase::TestCase;
use scrut::testcase::TestCaseError;
use std::cell::RefCell;
use std::io::Write;
use std::panic;

#[derive(Default)]
struct Oracle {
    n: usize,
    m: usize,
    assign: Vec<Option<bool>>,
    path: Vec<(usize, usize, bool)>,
    prefix: Vec<bool>,
    calls: usize,
    budget: usize,
    first_choice: bool,
    bad_line: bool,
}

thread_local! {
    static ORACLE: RefCell<Oracle> = RefCell::new(Oracle::default());
}

/// decode the output-line index from the bytes handed to `matches`
fn line_index(line: &[u8]) -> Option<usize> {
    // lines are  b"l" <digit> b"\n"   (the last one possibly without "\n")
    if line.len() >= 2 && line[0] == b'l' && line[1].is_ascii_digit() {
        if line.len() == 2 || (line.len() == 3 && line[2] == b'\n') {
            return Some((line[1] - b'0') as usize);
        }
    }
    None
}

#[derive(Clone, Debug)]
pub struct OracleRule(pub usize);

impl Rule for OracleRule {
    fn kind(&self) -> &'static str {
        "oracle"
    }
    fn matches(&self, line: &[u8]) -> bool {
        let i = self.0;
        let over = ORACLE.with(|o| {
            let mut o = o.borrow_mut();
            o.calls += 1;
            o.calls > o.budget
        });
        if over {
            panic!("WATCHDOG");
        }
        ORACLE.with(|o| {
            let mut o = o.borrow_mut();
            let j = match line_index(line) {
                Some(j) if j < o.m => j,
                _ => {
                    // a slice that is not one of the output's lines reached a rule
                    o.bad_line = true;
                    return false;
                }
            };
            let cell = i * o.m + j;
            if let Some(v) = o.assign[cell] {
                return v;
            }
            let k = o.path.len();
            let v = if k < o.prefix.len() {
                o.prefix[k]
            } else {
                o.first_choice
            };
            o.assign[cell] = Some(v);
            o.path.push((i, j, v));
            v
        })
    }
    fn unmake(&self) -> (String, Vec<u8>) {
        ("oracle".to_string(), format!("e{}", self.0).into_bytes())
    }
    fn to_expression_string(&self, _o: bool, _m: bool, _e: &Escaper) -> String {
        format!("e{}", self.0)
    }
}

thread_local! {
    /// `Some(a)`: expectation `a` (a >= 1) has the very same rule as expectation `a - 1` (same text, same verdict on every line)
    pub static ALIAS: std::cell::RefCell<Option<usize>> = std::cell::RefCell::new(None);
}

pub fn make_expectations(q: &[u8]) -> Vec<Expectation> {
    let maker = ExpectationMaker::new(RuleRegistry::default());
    let alias = ALIAS.with(|a| *a.borrow());
    q.iter()
        .enumerate()
        .map(|(i, qc)| {
            let mut e = maker.parse("x").expect("base expectation parses");
            e.rule = Box::new(OracleRule(if alias == Some(i) && i > 0 { i - 1 } else { i }));
            e.optional = *qc == b'?' || *qc == b'*';
            e.multiline = *qc == b'*' || *qc == b'+';
            e
        })
        .collect()
}

pub fn make_output(m: usize, last_newline: bool) -> Vec<u8> {
    let mut out = vec![];
    for j in 0..m {
        out.push(b'l');
        out.push(b'0' + j as u8);
        if j + 1 < m || last_newline {
            out.push(b'\n');
        }
    }
    out
}

fn fmt_lines(lines: &[(usize, Vec<u8>)], m: usize, last_newline: bool, s: &mut String) {
    for (k, (j, bytes)) in lines.iter().enumerate() {
        if k > 0 {
            s.push(',');
        }
        s.push_str(&j.to_string());
        let mut want = vec![b'l', b'0'.wrapping_add(*j as u8)];
        if *j + 1 < m || last_newline {
            want.push(b'\n');
        }
        if *j >= m || *bytes != want {
            s.push('!');
        }
    }
}

fn fmt_diff(lines: &[DiffLine], m: usize, last_newline: bool) -> String {
    let mut s = String::new();
    for (k, l) in lines.iter().enumerate() {
        if k > 0 {
            s.push(';');
        }
        match l {
            DiffLine::MatchedExpectation { index, lines, .. } => {
                s.push('M');
                s.push_str(&index.to_string());
                s.push(':');
                fmt_lines(lines, m, last_newline, &mut s);
            }
            DiffLine::UnmatchedExpectation { index, .. } => {
                s.push('U');
                s.push_str(&index.to_string());
            }
            DiffLine::UnexpectedLines { lines } => {
                s.push('X');
                fmt_lines(lines, m, last_newline, &mut s);
            }
        }
    }
    if s.is_empty() {
        s.push('-');
    }
    s
}

/// run validate + diff once under the current oracle prefix
fn run_once(base: &[Expectation], m: usize, last_newline: bool) -> (char, String) {
    let expectations = base.to_vec();
    let out_bytes = make_output(m, last_newline);
    let testcase = TestCase {
        title: "t".into(),
        shell_expression: "true".into(),
        expectations: expectations.clone(),
        exit_code: None,
        line_number: 1,
        config: Default::default(),
    };
    let output = Output {
        stdout: out_bytes.clone().into(),
        stderr: vec![].into(),
        exit_code: ExitStatus::Code(0),
    };
    let res = panic::catch_unwind(panic::AssertUnwindSafe(|| {
        let verdict = testcase.validate(&output);
        let diff = DiffTool::new(expectations).diff(&out_bytes);
        (verdict, diff)
    }));
    match res {
        Err(e) => {
            let msg = if let Some(s) = e.downcast_ref::<&str>() {
                s.to_string()
            } else if let Some(s) = e.downcast_ref::<String>() {
                s.clone()
            } else {
                String::new()
            };
            if msg.contains("WATCHDOG") {
                ('W', "-".into())
            } else {
                ('P', "-".into())
            }
        }
        Ok((verdict, diff)) => {
            let diff = match diff {
                Ok(d) => d,
                Err(_) => return ('E', "-".into()),
            };
            let ds = fmt_diff(&diff.lines, m, last_newline);
            let v = match verdict {
                Ok(()) => {
                    if diff.has_differences() {
                        'N'
                    } else {
                        'A'
                    }
                }
                Err(TestCaseError::MalformedOutput(d2)) => {
                    if fmt_diff(&d2.lines, m, last_newline) != ds {
                        'N'
                    } else {
                        'R'
                    }
                }
                Err(_) => 'E',
            };
            (v, ds)
        }
    }
}

/// explore the whole decision tree for one (q, m, last_newline); returns number of paths
pub fn explore(
    q: &[u8],
    m: usize,
    last_newline: bool,
    first_choice: bool,
    out: &mut dyn Write,
) -> usize {
    let n = q.len();
    let base = make_expectations(q);
    let mut prefix: Vec<bool> = vec![];
    let mut paths = 0usize;
    loop {
        ORACLE.with(|o| {
            let mut o = o.borrow_mut();
            o.n = n;
            o.m = m;
            o.assign = vec![None; n * m];
            o.path.clear();
            o.prefix = prefix.clone();
            o.calls = 0;
            o.budget = 10 * (n + m + 2) * (n + m + 2) + 64;
            o.first_choice = first_choice;
            o.bad_line = false;
        });
        let (mut verdict, diff) = run_once(&base, m, last_newline);
        let (path, assign, bad) = ORACLE.with(|o| {
            let o = o.borrow();
            (o.path.clone(), o.assign.clone(), o.bad_line)
        });
        if bad && verdict != 'P' && verdict != 'W' {
            verdict = 'N';
        }
        let mut pc = String::with_capacity(n * m);
        for c in &assign {
            pc.push(match c {
                None => '.',
                Some(false) => '0',
                Some(true) => '1',
            });
        }
        if pc.is_empty() {
            pc.push('_');
        }
        writeln!(out, "{} {} {}", pc, verdict, diff).unwrap();
        paths += 1;
        // next prefix: flip the last decision still at its first choice
        let mut k = path.len();
        loop {
            if k == 0 {
                return paths;
            }
            k -= 1;
            if path[k].2 == first_choice {
                prefix = path[..k].iter().map(|d| d.2).collect();
                prefix.push(!first_choice);
                break;
            }
        }
    }
}

fn quantifier_vectors(n: usize) -> Vec<Vec<u8>> {
    let syms = [b'1', b'?', b'*', b'+'];
    let mut all = vec![vec![]];
    for _ in 0..n {
        let mut next = vec![];
        for v in &all {
            for s in syms {
                let mut w = v.clone();
                w.push(s);
                next.push(w);
            }
        }
        all = next;
    }
    all
}

/// `dse <n> <m> <outfile> [shard k]`: all 4^n quantifier vectors x {newline, no newline}
/// group header line: `# q=<qvec> m=<m> nl=<0|1>`
pub fn main(args: &[String]) -> i32 {
    panic::set_hook(Box::new(|_| {}));
    let n: usize = args[0].parse().unwrap();
    let m: usize = args[1].parse().unwrap();
    let path = &args[2];
    let shards: usize = args.get(3).map(|s| s.parse().unwrap()).unwrap_or(1);
    let shard: usize = args.get(4).map(|s| s.parse().unwrap()).unwrap_or(0);
    let f = std::fs::File::create(path).unwrap();
    let mut w = std::io::BufWriter::with_capacity(1 << 20, f);
    let mut total = 0usize;
    for (gi, q) in quantifier_vectors(n).iter().enumerate() {
        if gi % shards != shard {
            continue;
        }
        for nl in [true, false] {
            if m == 0 && !nl {
                continue;
            }
            let qs = if q.is_empty() {
                "_".to_string()
            } else {
                String::from_utf8(q.clone()).unwrap()
            };
            writeln!(w, "# q={} m={} nl={}", qs, m, nl as u8).unwrap();
            total += explore(q, m, nl, false, &mut w);
            // the same list with two neighbouring expectations that are the very same rule
            if std::env::var("VERIF_E3_ALIAS").is_ok() {
                for a in 1..n {
                    ALIAS.with(|x| *x.borrow_mut() = Some(a));
                    writeln!(w, "# q={} m={} nl={} alias={}", qs, m, nl as u8, a).unwrap();
                    total += explore(q, m, nl, false, &mut w);
                    ALIAS.with(|x| *x.borrow_mut() = None);
                }
            }
        }
    }
    w.flush().unwrap();
    println!("paths={}", total);
    0
}

/// Replay one complete matrix natively: `{ "q": "1?*", "m": 3, "nl": true, "M": [[0,1,0],..] }`
/// → verdict/diff with (a) an explicit-matrix rule and (b) built-in regex rules.
pub fn replay(v: &serde_json::Value) -> serde_json::Value {
    panic::set_hook(Box::new(|_| {}));
    let q: Vec<u8> = v["q"].as_str().unwrap().bytes().filter(|c| *c != b'_').collect();
    let m = v["m"].as_u64().unwrap() as usize;
    let nl = v["nl"].as_bool().unwrap_or(true);
    let n = q.len();
    ALIAS.with(|x| *x.borrow_mut() = v["alias"].as_u64().map(|a| a as usize));
    let mat: Vec<Vec<bool>> = (0..n)
        .map(|i| {
            (0..m)
                .map(|j| {
                    let c = &v["M"][i][j];
                    c.as_bool().unwrap_or_else(|| c.as_u64().unwrap_or(0) != 0)
                })
                .collect()
        })
        .collect();
    // (a) explicit matrix through the oracle rule
    ORACLE.with(|o| {
        let mut o = o.borrow_mut();
        o.n = n;
        o.m = m;
        o.assign = mat.iter().flatten().map(|b| Some(*b)).collect();
        o.path.clear();
        o.prefix.clear();
        o.calls = 0;
        o.budget = 1000 * (n + m + 2) * (n + m + 2) + 64;
        o.first_choice = false;
        o.bad_line = false;
    });
    let (va, da) = run_once(&make_expectations(&q), m, nl);
    // (b) built-in rules: expectation i = alternation of the line texts it matches
    let maker = ExpectationMaker::new(RuleRegistry::default());
    let out_bytes = make_output(m, nl);
    let exps: Vec<Expectation> = (0..n)
        .map(|i| {
            let alts: Vec<String> = (0..m).filter(|j| mat[i][*j]).map(|j| format!("l{}", j)).collect();
            let body = if alts.is_empty() { "zzz".to_string() } else { alts.join("|") };
            let quant = match q[i] {
                b'1' => "",
                b'?' => "?",
                b'*' => "*",
                _ => "+",
            };
            maker
                .parse(&format!("(?:{}) (regex{})", body, quant))
                .expect("regex expectation parses")
        })
        .collect();
    let testcase = TestCase {
        title: "t".into(),
        shell_expression: "true".into(),
        expectations: exps.clone(),
        exit_code: None,
        line_number: 1,
        config: Default::default(),
    };
    let output = Output {
        stdout: out_bytes.clone().into(),
        stderr: vec![].into(),
        exit_code: ExitStatus::Code(0),
    };
    let res = panic::catch_unwind(panic::AssertUnwindSafe(|| {
        let verdict = testcase.validate(&output);
        let diff = DiffTool::new(exps).diff(&out_bytes);
        (verdict, diff)
    }));
    let (vb, db) = match res {
        Err(_) => ('P', "-".to_string()),
        Ok((verdict, diff)) => {
            let ds = diff.map(|d| fmt_diff(&d.lines, m, nl)).unwrap_or("-".into());
            let vc = match verdict {
                Ok(()) => 'A',
                Err(TestCaseError::MalformedOutput(_)) => 'R',
                Err(_) => 'E',
            };
            (vc, ds)
        }
    };
    serde_json::json!({
        "explicit": {"verdict": va.to_string(), "diff": da},
        "builtin": {"verdict": vb.to_string(), "diff": db},
    })
}
